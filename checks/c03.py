"""C03 — one HCI command outstanding; every command answered exactly once; every
pending procedure concluded.

Monitors (offline checkers over the tapped HCI log)
  answer    per command packet handed to the virtual controller: exactly one Command
            Complete / Command Status naming its opcode at quiescence, no exception out of
            the controller's packet handler
  conclude  every Command Status PENDING for a procedure-starting opcode is followed,
            within T_v, by that procedure's completion event
  single    in the host-boundary log, command packets and their responses strictly alternate
  own       every caller of Host.send_command gets an event carrying its own opcode
Workloads
  sweep     every registered command class (+ unregistered opcodes in every OGF), parameters from
            the C01 generator, against a fresh controller and against a controller with live LE
            and BR/EDR connections (connection-handle fields biased to live handles)
  host      2-16 concurrent tasks issuing commands through a real Host with delayed pipes
  proc      connection creation (peer present / absent + cancel / BR/EDR absent), disconnect
            (live / unknown / peer already gone), remote features, remote name, encryption
            (live / dead handle), CIS set-up
  cig       HISTORIES on one piece of controller state: the same CIG configured 1-3 times (other CIS
            counts / ids, CIS ids that equal CIG ids), Remove CIG then configure again, two CIGs, then LE
            Create CIS (one command or one per CIG, raw HCI or Device.setup_cig/create_cis): every CIS handle
            accepted as pending is concluded by an LE CIS Established event carrying THAT handle, on the
            central and (LE Accept CIS Request) on the peripheral; established CIS disconnected and created again;
            Disconnect for a CIS that is configured but not created / down already (refused, or concluded)
  train     stateful command trains: advertising / scan response / periodic advertising data written in
            fragments (FIRST, INTERMEDIATE*, LAST; UNCHANGED; COMPLETE after a partial train; LAST without
            FIRST; a second train; trains for two handles and several data kinds interleaved, sets removed or
            enabled mid-train): each command answered exactly once under its own opcode, later commands served
  advstate  commands of the stateful families (extended / legacy / periodic advertising, scanning, connection creation and
            its cancellation, filter accept list, CIG / CIS / BIG / ISO data path, per-connection commands) issued in
            states where a precondition is missing: LE Set Extended Advertising Enable for a set without address (own
            address type RANDOM, no random address), without parameters, removed, unknown, enabled already, two sets
            in one command; disable / remove of unknown sets; legacy enable without parameters, twice, disable when
            idle; cancel with nothing pending; objects that do not exist. One controller capability bit removed per
            case. Every command answered once under its own opcode, later commands served (also after the advertising
            timers ran), PENDING answers concluded
  hist      pending procedures followed through HISTORIES, one capability (le_features bit / supported command) removed
            on either controller: features - LE Read Remote Features, LE Enable Encryption, LE Subrate Request (...)
            issued by the CENTRAL and by the PERIPHERAL of a connection, again after disconnection and reconnection
            (same or swapped roles), finally with the ACL connection going away while the request is unanswered;
            cis - one CIS handle created, accepted, disconnected (by either side, or with its ACL), created again,
            and the ACL lost (by either side) before the peer's host answered: every LE Create CIS accepted as
            pending is concluded by an LE CIS Established event for that handle (error status without the peer);
            acl - LE (Extended) Create Connection by raw commands: created, disconnected by either side, created
            again towards a silent peer and cancelled, created again when the peer advertises (late);
            classic - BR/EDR remote feature / name / version reads and role switches by the initiator and by the
            acceptor, again after reconnection in the same or the other direction, finally a feature read whose
            request is lost while the ACL connection goes away
  hostfault the hand-over of a command to the next layer FAILS: the host's sink (or its snooper) raises synchronously, or the
            packet is silently lost (callers then use a response timeout), for 1-3 consecutive commands at positions spread over
            a history issued by 1-16 concurrent callers, six exception types: the caller whose hand-over failed is released
            (exception), every other caller gets the response with its own opcode, later commands from every task are handed
            over and answered, one command outstanding at a time - judged on what the controller side actually received
  hostreset one task calls Host.reset() while 1-5 other tasks have commands outstanding / queued (delayed pipes)
  pair      stateful command pairs, UNUSUAL BUT LEGAL parameter octets: Write_Local_Name (non-UTF-8 octets, 0x00 inside, 248
            octets without terminator, multi-octet characters cut at the end of the field, empty, short parameter) followed
            by Read_Local_Name on the same host and by a Remote Name Request of ANOTHER device over the link (concluded by
            exactly one Remote Name Request Complete); 30 write/set commands (class of device, page timeout, scan enable,
            event masks, host support bits, random address, default data length / PHY, filter accept / resolving list, ...)
            with all-zero / all-one / random fields followed by the commands that read the stored value; advertising and
            scan response data with arbitrary octets read by a scanning peer. Each command answered exactly once; values
            compared (pair/value/*) only where the spec says the read returns what was written and the tree does so
"""
from __future__ import annotations

import asyncio
import random
import struct

from vlib import vloop
from vlib import ref_hci as ref
from vlib.result import R

ID = 'C03'
LEVEL = 'exploration'
RULE = ('advstate: one per (set states, command sequence); hist: one per (family, role, removed capability, history, fault); '
        'cig: one per (configuration history, CIS subsets, command grouping); train: one per (data kinds, handles, '
        'operation sequences, interleaving); sweep: one case per (command class | unregistered opcode, controller state, parameter seed), non-trivial = '
        'the controller produced or should have produced a reply, distinct = (opcode, state, parameter bytes); host: '
        'one per (task count, command mix, delay); proc: one per (procedure, scenario); hostfault: one per (mode, task count, '
        'fault position octile, consecutive failures, exception type, delay); hostreset: one per (tasks, commands, turns before '
        'reset, delay) with a command outstanding; pair: one per (write command, parameter octets | name variant, delay)')
ASSUMPTIONS = [
    'LE create connection to an absent peer legitimately pends until cancelled: only "cancel concludes it" is demanded',
    'the completion event of a procedure is identified by event code (and LE sub-event code) as listed in PROCEDURES',
    'a command answered with a non-PENDING Command Status needs no completion event',
    'synchronous (SCO/eSCO) set-up is not followed: its conclusion depends on the peer host answering the request',
    'cig: LE Set CIG Parameters is only repeated while no CIS of that CIG was created (the CIG is configurable); the '
    'peripheral hosts accept every CIS request; a refused LE Create CIS (non-PENDING status) needs no completion',
    'train: only the answers are judged (one per command, own opcode, later commands served), not the stored data',
    'advstate: only the answers are judged (which status a command gets in a state where its precondition is missing is '
    'not); a legacy advertiser enabled before LE Set Advertising Parameters advertises with a zero interval in the virtual '
    'controller and keeps the link busy: it is disabled again by the next command and quiescence is bounded there',
    'hist: the peer host answers CIS requests unless the scenario says it does not; a reduced capability set is one bit of '
    'Controller.le_features or one entry of Controller.supported_commands removed before the host is powered on; in the '
    'mid-procedure fault the LL feature request is lost on the air (the peer controller never sees it) and the ACL connection '
    'is then ended by a Disconnect of either host; a completion event must name the connection handle of its command; '
    'commands that every controller must implement (Reset, Read Buffer Size, Read BD_ADDR, Set Event Mask, ...) are never '
    'removed from a capability set; a BR/EDR connection request is always answered by the peer host',
    'hostfault: a hand-over that fails hands NOTHING to the controller (the sink raises before it forwards: a transport write '
    'error); no answer is owed for such a command; its caller may get any exception; a caller that receives TimeoutError was '
    'released, not hung',
    'pair: a Write_Local_Name whose octets before the first 0x00 are not UTF-8 may be kept or ignored by the controller: only the '
    'answers and the conclusion of the name reads are demanded then; the virtual controller does not store class of device, '
    'page timeout, scan enable for reading (Read_Class_Of_Device returns 0, the others are unimplemented): their values are '
    'not compared; how the reading host digests a name / advertising report is not judged',
]
MIN_EVENTS = {
    'quick': {'commands_swept': 2000, 'distinct_opcodes_swept': 200, 'pending_procedures_followed': 100,
              'host_commands': 5000, 'own_opcode_checks': 5000, 'proc_cases': 150,
              'cig_histories': 250, 'cis_handles_followed': 400, 'cis_created_after_reconfiguration': 100,
              'cis_created_after_remove_and_reconfiguration': 15, 'cis_created_in_two_cigs': 50,
              'cis_accepts_followed': 400, 'cis_recreated_after_disconnect': 60, 'cis_disconnect_before_create': 50, 'train_cases': 300,
              'train_commands': 3500, 'train_continuation_fragments': 1000, 'train_followups_answered': 500,
              'advstate_cases': 300, 'advstate_commands': 3500, 'advstate_enable_set_without_address': 60,
              'advstate_enable_set_without_parameters': 50, 'advstate_enable_enabled_set': 80, 'advstate_enable_removed_set': 15,
              'advstate_enable_unknown_set': 70, 'advstate_legacy_adv_enable_idle_without_parameters': 25,
              'advstate_cancel_nothing_pending': 20, 'advstate_followups_answered': 900,
              'hist_cases': 500, 'hist_procedures_by_peripheral': 500, 'hist_procedures_by_central': 500,
              'hist_procedures_by_peripheral_reduced_capabilities': 450, 'hist_procedures_after_reconnection_rounds': 200,
              'hist_faults_mid_procedure': 100, 'hist_cis_created_again': 150, 'hist_cis_created_again_acl_lost_before_accept': 70,
              'hist_acl_created_again': 100, 'hist_classic_histories': 80, 'hist_classic_procedures_by_peripheral': 150,
              'hist_classic_procedures_by_central': 150, 'hist_classic_faults_mid_procedure': 25,
              'hostfault_cases': 45, 'hostfault_rounds': 220, 'hostfault_hand_overs_failed': 340,
              'hostfault_failed_callers_released': 340, 'hostfault_later_commands_answered': 2900,
              'hostfault_consecutive_failures': 200, 'hostfault_rounds_sink_raises': 75, 'hostfault_rounds_snooper_raises': 75,
              'hostfault_rounds_sink_loses': 75, 'hostfault_lost_command_caller_timed_out': 110,
              'hostreset_cases': 60, 'hostreset_with_command_outstanding': 50, 'hostreset_commands_answered': 80,
              'pair_cases': 80, 'pair_commands': 1700, 'pair_unusual_writes': 500, 'pair_names_written': 230,
              'pair_names_written_non_utf8': 110, 'pair_names_written_max_length': 50, 'pair_names_written_inner_nul': 40,
              'pair_names_written_empty': 12, 'pair_reads_after_unusual_write': 600, 'pair_name_reads_answered': 230,
              'pair_remote_name_requests_concluded': 230, 'pair_value_checks': 220,
              'pair_advertising_data_read_by_scanner': 40, 'pair_later_commands_answered': 160},
    'thorough': {'commands_swept': 18000, 'distinct_opcodes_swept': 220, 'pending_procedures_followed': 600,
                 'host_commands': 30000, 'own_opcode_checks': 30000, 'proc_cases': 800,
                 'cig_histories': 1600, 'cis_handles_followed': 2500, 'cis_created_after_reconfiguration': 700,
                 'cis_created_after_remove_and_reconfiguration': 120, 'cis_created_in_two_cigs': 400,
                 'cis_accepts_followed': 2500, 'cis_recreated_after_disconnect': 400, 'cis_disconnect_before_create': 350, 'train_cases': 2000,
                 'train_commands': 25000, 'train_continuation_fragments': 8000, 'train_followups_answered': 3500,
                 'advstate_cases': 2200, 'advstate_commands': 25000, 'advstate_enable_set_without_address': 450,
                 'advstate_enable_set_without_parameters': 350, 'advstate_enable_enabled_set': 600, 'advstate_enable_removed_set': 100,
                 'advstate_enable_unknown_set': 500, 'advstate_legacy_adv_enable_idle_without_parameters': 180,
                 'advstate_cancel_nothing_pending': 150, 'advstate_followups_answered': 6500,
                 'hist_cases': 3500, 'hist_procedures_by_peripheral': 3000, 'hist_procedures_by_central': 3000,
                 'hist_procedures_by_peripheral_reduced_capabilities': 2700, 'hist_procedures_after_reconnection_rounds': 1200,
                 'hist_faults_mid_procedure': 600, 'hist_cis_created_again': 1100, 'hist_cis_created_again_acl_lost_before_accept': 500,
                 'hist_acl_created_again': 750, 'hist_classic_histories': 650, 'hist_classic_procedures_by_peripheral': 1200,
                 'hist_classic_procedures_by_central': 1200, 'hist_classic_faults_mid_procedure': 200,
                 'hostfault_cases': 360, 'hostfault_rounds': 2800, 'hostfault_hand_overs_failed': 3500,
                 'hostfault_failed_callers_released': 3500, 'hostfault_later_commands_answered': 30000,
                 'hostfault_consecutive_failures': 2000, 'hostfault_rounds_sink_raises': 800, 'hostfault_rounds_snooper_raises': 800,
                 'hostfault_rounds_sink_loses': 800, 'hostfault_lost_command_caller_timed_out': 1000,
                 'hostreset_cases': 450, 'hostreset_with_command_outstanding': 350, 'hostreset_commands_answered': 500,
                 'pair_cases': 600, 'pair_commands': 15000, 'pair_unusual_writes': 4500, 'pair_names_written': 2000,
                 'pair_names_written_non_utf8': 1000, 'pair_names_written_max_length': 450, 'pair_names_written_inner_nul': 350,
                 'pair_names_written_empty': 100, 'pair_reads_after_unusual_write': 5000, 'pair_name_reads_answered': 2000,
                 'pair_remote_name_requests_concluded': 2000, 'pair_value_checks': 1900,
                 'pair_advertising_data_read_by_scanner': 350, 'pair_later_commands_answered': 1200},
}
CASE_TIMEOUT = 600

# opcode -> (name, set of completion event codes; LE meta sub-events as ('le', sub))
PROCEDURES = {
    0x0405: ('Create_Connection', {0x03}),
    0x0406: ('Disconnect', {0x05}),
    0x0409: ('Accept_Connection_Request', {0x03}),
    0x0411: ('Authentication_Requested', {0x06}),
    0x0413: ('Set_Connection_Encryption', {0x08, 0x59}),
    0x0419: ('Remote_Name_Request', {0x07}),
    0x041B: ('Read_Remote_Supported_Features', {0x0B}),
    0x041C: ('Read_Remote_Extended_Features', {0x23}),
    0x041D: ('Read_Remote_Version_Information', {0x0C}),
    0x080B: ('Switch_Role', {0x12}),
    0x200D: ('LE_Create_Connection', {('le', 0x01), ('le', 0x0A), ('le', 0x29)}),
    0x2043: ('LE_Extended_Create_Connection', {('le', 0x01), ('le', 0x0A), ('le', 0x29)}),
    0x2016: ('LE_Read_Remote_Features', {('le', 0x04)}),
    0x2019: ('LE_Enable_Encryption', {0x08, 0x59, 0x30}),
    0x2013: ('LE_Connection_Update', {('le', 0x03)}),
    0x2064: ('LE_Create_CIS', {('le', 0x19)}),
    0x2032: ('LE_Set_PHY', {('le', 0x0C)}),
}
# procedures that legitimately pend until something else happens
OPEN_ENDED = {0x200D, 0x2043}


def plan(tier, seed):
    cases = []
    per = 6 if tier == 'quick' else 50
    chunk = 6
    from checks import c01
    regs = [e for e in c01.registries()['entries'] if e.kind == 'command']
    names = [e.name for e in regs]
    for state in ('fresh', 'connected'):
        for i in range(0, len(names), chunk):
            cases.append({'kind': 'sweep', 'state': state, 'names': names[i:i + chunk], 'per': per,
                          'seed': seed * 1000003 + i})
    # commands that start or stop a connection procedure, swept again while an LE connection
    # creation is already pending (legacy and extended command sets)
    conn_names = [n for n in names if any(k in n for k in ('Create_Connection', 'Connection_Cancel', 'Accept_Connection',
                                                           'Reject_Connection', 'Disconnect', 'Create_CIS', 'Advertising_Enable'))]
    for state in ('le-connecting', 'le-connecting-ext'):
        for i in range(0, len(conn_names), chunk):
            cases.append({'kind': 'sweep', 'state': state, 'names': conn_names[i:i + chunk], 'per': max(per, 6),
                          'seed': seed * 1000003 + 7000 + i})
    for state in ('fresh', 'connected'):
        cases.append({'kind': 'sweep-unknown', 'state': state, 'seed': seed * 1000003, 'per': per})
    for i in range(200 if tier == 'quick' else 1200):
        cases.append({'kind': 'host', 'seed': seed * 1000003 + i})
    procs = ['le-connect-present', 'le-connect-absent-cancel', 'le-connect-adv-stops', 'classic-connect-present',
             'classic-connect-absent', 'disconnect-live', 'disconnect-unknown', 'disconnect-peer-gone',
             'le-features-live', 'le-features-peer-gone', 'remote-name-present', 'remote-name-absent',
             'le-encrypt-live', 'le-encrypt-dead', 'cis-setup', 'cis-bad-handle', 'classic-features-live',
             'classic-auth-live', 'remote-version-live', 'remote-version-dead', 'classic-accept-central-switch-refused',
             'classic-accept-central-switch-allowed', 'classic-accept-peripheral', 'le-connect-cancel-race']
    reps = 8 if tier == 'quick' else 40
    for p in procs:
        for k in range(reps):
            cases.append({'kind': 'proc', 'proc': p, 'seed': seed * 1000003 + k})
    for i in range(300 if tier == 'quick' else 2000):
        cases.append({'kind': 'cig', 'seed': seed * 1000003 + i})
    for i in range(400 if tier == 'quick' else 2500):
        cases.append({'kind': 'train', 'seed': seed * 1000003 + i})
    for i in range(320 if tier == 'quick' else 2400):
        cases.append({'kind': 'advstate', 'seed': seed * 1000003 + i})
    # hist/features: every LE feature bit of the default capability set removed on either controller, for a device that
    # issues as central, as peripheral, or in alternating roles; a rotating selection of supported commands removed
    bits, cmds = capability_space()
    k = 0
    for rep in range(3 if tier == 'quick' else 12):
        for role in ('central', 'peripheral', 'alternating'):
            for side in (0, 1):
                caps = [None] + [{'side': side, 'kind': 'feature', 'index': b} for b in range(len(bits))]
                caps += [{'side': side, 'kind': 'command', 'index': (seed * 5 + rep * 7 + j * 11 + side) % len(cmds)}
                         for j in range(4 if tier == 'quick' else len(cmds) // 6)]
                for cap in caps:
                    k += 1
                    cases.append({'kind': 'hist', 'family': 'features', 'role': role, 'cap': cap, 'seed': seed * 1000003 + k})
    rr = random.Random(seed * 7919 + 3)
    for i in range(160 if tier == 'quick' else 1200):
        cases.append({'kind': 'hist', 'family': 'cis', 'cap': random_capability(rr, [0, 1]), 'seed': seed * 1000003 + i})
    for i in range(90 if tier == 'quick' else 720):
        cases.append({'kind': 'hist', 'family': 'classic', 'role': ('central', 'peripheral', 'alternating')[i % 3],
                      'cap': random_capability(rr, [0, 1]), 'seed': seed * 1000003 + i})
    for i in range(100 if tier == 'quick' else 800):
        cases.append({'kind': 'hist', 'family': 'acl', 'cap': random_capability(rr, [0, 1]), 'seed': seed * 1000003 + i})
    # error paths at the hand-over of a command to the next layer: the sink / the snooper raises, or the packet is lost,
    # for 1-3 consecutive commands at positions spread over a history issued by 1..16 concurrent callers
    k = 0
    for rep in range(5 if tier == 'quick' else 40):
        for mode in ('sink-raises', 'snooper-raises', 'sink-loses'):
            for tasks in (1, 2, 3, 4, 8, 16):
                k += 1
                cases.append({'kind': 'hostfault', 'mode': mode, 'tasks': tasks, 'rounds': 5 if tier == 'quick' else 8,
                              'seed': seed * 1000003 + k})
    # write / read pairs and the peer's name read, unusual but legal parameter octets
    for i in range(160 if tier == 'quick' else 1200):
        cases.append({'kind': 'pair', 'steps': 6 if tier == 'quick' else 8, 'name_first': i % 2 == 0, 'seed': seed * 1000003 + i})
    # Host.reset() by one task while other tasks have commands outstanding
    for i in range(120 if tier == 'quick' else 900):
        cases.append({'kind': 'hostreset', 'seed': seed * 1000003 + i})
    return cases


# -----------------------------------------------------------------------------
def parse_events(log, dev, start=0):
    """(index, kind, opcode/None, status/None, code) for every event the controller emitted."""
    out = []
    for rec in log[start:]:
        seq, d, direction, pkt, _t = rec
        if d != dev or direction != 'c2h' or pkt[0] != 4:
            continue
        code = pkt[1]
        if code == 0x0E and len(pkt) >= 6:
            out.append((seq, 'cc', pkt[4] | pkt[5] << 8, pkt[6] if len(pkt) > 6 else None, code))
        elif code == 0x0F and len(pkt) >= 7:
            out.append((seq, 'cs', pkt[5] | pkt[6] << 8, pkt[3], code))
        elif code == 0x3E and len(pkt) >= 4:
            out.append((seq, 'ev', None, None, ('le', pkt[3])))
        else:
            out.append((seq, 'ev', None, None, code))
    return out


def check_replies(r, events, op, key_class, detail):
    replies = [e for e in events if e[1] in ('cc', 'cs') and e[2] == op]
    r.ev('oracle_evals')
    if len(replies) != 1:
        r.bad(f'answer/{"none" if not replies else "multiple"}/{key_class}',
              f'{len(replies)} Command Complete/Status events for opcode {op:#06x}; {detail}')
    return replies


async def check_pending_concluded(r, rg, dev, start, op, replies, key_class, detail):
    """If the reply was a PENDING status for a procedure opcode, its completion must follow."""
    if op not in PROCEDURES or op in OPEN_ENDED:
        return
    if not replies or replies[0][1] != 'cs' or replies[0][3] != 0:
        return
    name, codes = PROCEDURES[op]
    r.ev('pending_procedures_followed')
    # let virtual time pass (page timeouts etc.), bounded by T_v
    deadline = asyncio.get_running_loop().time() + vloop.T_V
    while True:
        evs = parse_events(rg.hci_log, dev, start)
        after = [e for e in evs if e[0] > replies[0][0] and e[1] == 'ev' and e[4] in codes]
        if after:
            return
        if asyncio.get_running_loop().time() >= deadline:
            break
        await asyncio.sleep(5.0)
        await rg.quiesce()
    r.ev('oracle_evals')
    r.bad(f'conclude/never/{name}/{key_class}',
          f'{name} answered PENDING but no completion event {sorted(map(str, codes))} within T_v; {detail}')


async def make_world(seed, state):
    from vlib import rig as vrig
    vrig.seed_entropy(seed)
    rg = vrig.Rig(2, seed=seed, max_delay=0, classic=True)
    await rg.power_on()
    handles = {}
    if state.startswith('le-connecting'):
        from bumble import hci
        if state.endswith('ext'):
            rg.controllers[0].le_features = rg.controllers[0].le_features | hci.LeFeatureMask.LE_EXTENDED_ADVERTISING
        absent = hci.Address('C6:C6:C6:C6:C6:C6', hci.Address.RANDOM_DEVICE_ADDRESS)
        if state.endswith('ext'):
            cmd = hci.HCI_LE_Extended_Create_Connection_Command(
                initiator_filter_policy=0, own_address_type=1, peer_address_type=1, peer_address=absent, initiating_phys=1,
                scan_intervals=[96], scan_windows=[96], connection_interval_mins=[12], connection_interval_maxs=[24],
                max_latencies=[0], supervision_timeouts=[72], min_ce_lengths=[0], max_ce_lengths=[0])
        else:
            cmd = hci.HCI_LE_Create_Connection_Command(
                le_scan_interval=96, le_scan_window=96, initiator_filter_policy=0, peer_address_type=1, peer_address=absent,
                own_address_type=1, connection_interval_min=12, connection_interval_max=24, max_latency=0,
                supervision_timeout=72, min_ce_length=0, max_ce_length=0)
        rg.controllers[0].on_packet(bytes(cmd))
        await rg.quiesce()
    if state == 'connected':
        cl, pl = await rg.connect_le(0, 1)
        cc, pc = await rg.connect_classic(0, 1)
        handles = {'le': cl.handle, 'classic': cc.handle}
        await rg.quiesce()
    return rg, handles


def sweep(case, r: R):
    # one fresh event loop per command instance: timers started by a command (e.g.
    # advertising with a zero interval) must not leak into the next instance
    from checks import c01
    regs = c01.registries()['entries']
    by_name = {e.name: e for e in regs if e.kind == 'command'}
    rng = random.Random(case['seed'])
    for name in case['names']:
        e = by_name.get(name)
        if e is None:
            continue
        if e.descs is None:
            r.add_extra_list('commands_without_generator', name)
        seen = [False]
        for k in range(case['per']):
            try:
                vloop.run(sweep_one(case, r, rng, e, name, k, seen))
            except vloop.Hang as ex:
                r.bad(f'hang/sweep/{name}', f'{ex}')
    r.sample = {'kind': 'sweep', 'state': case['state'], 'commands': case['names']}


async def sweep_one(case, r, rng, e, name, k, seen):
    if True:
        if True:
            seen_op = seen[0]
            rg, handles = await make_world(case['seed'] + k, case['state'])
            ctl = rg.controllers[0]
            if e.descs is not None:
                try:
                    values = ref.gen_values(rng, e.descs, ref.Budget(255))
                except Exception:
                    values = None
                if values is not None:
                    # bias connection-handle-like fields to live handles
                    for fn in list(values):
                        if 'handle' in fn and isinstance(values[fn], int) and handles and rng.random() < 0.6:
                            values[fn] = rng.choice(list(handles.values()))
                    try:
                        params, _ = ref.encode(e.descs, values)
                    except Exception:
                        params = b''
                else:
                    params = b''
            else:
                params = bytes(rng.getrandbits(8) for _ in range(rng.choice([0, 1, 4, 16])))
            if len(params) > 255:
                r.ev('sweep_params_too_long_skipped')
                return
            pkt = ref.command_packet(e.code, params)
            handled = hasattr(ctl, f'on_{name.lower()}')
            from bumble import hci
            is_sync = issubclass(e.cls, hci.HCI_SyncCommand)
            key_class = (name if handled else ('unhandled-sync-command' if is_sync else 'unhandled-async-command'))
            start = len(rg.hci_log)
            exc = None
            try:
                ctl.on_packet(pkt)
            except Exception as ex:
                exc = ex
            try:
                await rg.quiesce(max_turns=3000)
            except vloop.Hang:
                # e.g. advertising enabled with a zero interval keeps the link busy for
                # ever; the reply to the command is judged on what was emitted so far
                r.ev('sweep_no_quiescence')
            r.ev('commands_swept')
            if not seen_op:
                seen[0] = True
                r.ev('distinct_opcodes_swept')
            detail = f'{name} params={params.hex()[:80]} state={case["state"]}'
            if exc is not None:
                r.ev('oracle_evals')
                r.bad(f'answer/exception/{key_class}', f'{type(exc).__name__}: {exc}; {detail}')
            for where, ex in rg.exceptions:
                # the command was handed to the controller behind the host's back, so the
                # host's own reaction to events it did not ask for (c2h*) is not judged
                if where.startswith('c2h'):
                    r.ev('host_side_exceptions_ignored')
                    continue
                r.bad(f'answer/exception-later/{key_class}', f'{where}: {ex}; {detail}')
            events = parse_events(rg.hci_log, 0, start)
            replies = check_replies(r, events, e.code, key_class, detail)
            await check_pending_concluded(r, rg, 0, start, e.code, replies, case['state'], detail)
            r.sig('sweep', e.code, case['state'], params)
            r.evals()


async def sweep_unknown(case, r: R):
    from bumble import hci
    rng = random.Random(case['seed'])
    ops = []
    for ogf in (0x00, 0x01, 0x02, 0x03, 0x04, 0x05, 0x06, 0x08, 0x09, 0x3E, 0x3F):
        for ocf in (0x000, 0x001, 0x07F, 0x3FE, 0x3FF, rng.randrange(0x400)):
            op = (ogf << 10) | ocf
            if op not in hci.HCI_Command.command_classes and op != 0:
                ops.append(op)
    for op in ops:
        for k in range(max(1, case['per'] // 3)):
            rg, handles = await make_world(case['seed'] + k, case['state'])
            params = bytes(rng.getrandbits(8) for _ in range(rng.choice([0, 1, 7, 255])))
            start = len(rg.hci_log)
            try:
                rg.controllers[0].on_packet(ref.command_packet(op, params))
            except Exception as ex:
                r.bad('answer/exception/unknown-opcode', f'{type(ex).__name__}: {ex}; opcode {op:#06x}')
            await rg.quiesce()
            r.ev('commands_swept')
            r.ev('unknown_opcodes_swept')
            check_replies(r, parse_events(rg.hci_log, 0, start), op, 'unknown-opcode',
                          f'opcode {op:#06x} ({len(params)} parameter bytes) state={case["state"]}')
            r.sig('unknown', op, case['state'], len(params))
            r.evals()
    r.sample = {'kind': 'sweep-unknown', 'opcodes': [hex(o) for o in ops[:12]], 'state': case['state']}


# -----------------------------------------------------------------------------
async def host_case(case, r: R):
    from bumble import hci
    from vlib import rig as vrig
    rng = random.Random(case['seed'])
    vrig.seed_entropy(case['seed'])
    delay = rng.choice([0, 1, 3, 8])
    rg = vrig.Rig(2, seed=case['seed'], max_delay=delay, classic=rng.random() < 0.5)
    await rg.power_on()
    live = None
    if rng.random() < 0.6:
        cl, pl = await rg.connect_le(0, 1)
        live = cl.handle
    await rg.quiesce()
    host = rg.hosts[0]
    sync_cmds = [
        lambda: hci.HCI_Read_BD_ADDR_Command(),
        lambda: hci.HCI_Read_Local_Version_Information_Command(),
        lambda: hci.HCI_Read_Local_Name_Command(),
        lambda: hci.HCI_LE_Rand_Command(),
        lambda: hci.HCI_LE_Read_Buffer_Size_Command(),
        lambda: hci.HCI_Read_Local_Supported_Commands_Command(),
        lambda: hci.HCI_LE_Read_Local_Supported_Features_Command(),
        lambda: hci.HCI_Set_Event_Mask_Command(event_mask=bytes(8)),
        lambda: hci.HCI_LE_Set_Random_Address_Command(random_address=hci.Address('E0:E0:E0:E0:E0:E0')),
        lambda: hci.HCI_Read_Buffer_Size_Command(),
        lambda: hci.HCI_Write_Page_Timeout_Command(page_timeout=0x2000),   # may be unimplemented
        lambda: hci.HCI_Read_Loopback_Mode_Command(),                      # may be unimplemented
        lambda: hci.HCI_Read_Clock_Offset_Command(connection_handle=0x0EFF),  # async, may be unimplemented
        lambda: hci.HCI_Sniff_Subrating_Command(connection_handle=0x0EFF, maximum_latency=2, minimum_remote_timeout=2,
                                                minimum_local_timeout=2),
    ]
    async_cmds = []
    if live is not None:
        async_cmds.append(lambda: hci.HCI_LE_Read_Remote_Features_Command(connection_handle=live))
        async_cmds.append(lambda: hci.HCI_Read_Remote_Version_Information_Command(connection_handle=live))
    ntasks = rng.choice([2, 3, 8, 16])
    start_b = len(rg.boundary_log)

    async def worker(w):
        wr = random.Random(case['seed'] * 31 + w)
        for _ in range(wr.randint(3, 12)):
            mk = wr.choice(sync_cmds + async_cmds * 2)
            cmd = mk()
            try:
                resp = await vloop.vwait(host.send_command(cmd), 120)
            except vloop.Hang:
                r.bad('single/caller-hang/' + ('async' if isinstance(cmd, hci.HCI_AsyncCommand) else 'sync'),
                      f'send_command({cmd.name}) pending after 120 virtual s')
                return
            except hci.HCI_Error:
                r.ev('host_command_raised')
                continue
            except Exception as ex:
                # send_command() without result checking has no reason to raise: the caller did
                # not get the response to its command
                r.ev('oracle_evals')
                r.bad(f'own/caller-got-exception/{type(ex).__name__}',
                      f'send_command({cmd.name}) raised {type(ex).__name__}: {ex} (tasks={ntasks} delay={delay})')
                continue
            r.ev('host_commands')
            r.ev('own_opcode_checks')
            r.ev('oracle_evals')
            if resp.command_opcode != cmd.op_code:
                r.bad('own/foreign-response', f'caller of {cmd.name} ({cmd.op_code:#06x}) was handed a response for '
                                              f'{resp.command_opcode:#06x}')
            if wr.random() < 0.3:
                await asyncio.sleep(0)

    tasks = [asyncio.ensure_future(worker(w)) for w in range(ntasks)]
    # (callers are never cancelled while their command is outstanding: the host then releases its
    # command slot before the controller answered, which breaks the one-outstanding rule, but a caller
    # that gives up is outside this property's quantifier - see DESIGN.md section 5)
    await asyncio.gather(*tasks, return_exceptions=True)
    await rg.quiesce()
    # after the dust settled, fresh concurrent callers must still be served one at a time
    tasks = [asyncio.ensure_future(worker(100 + w)) for w in range(3)]
    await asyncio.gather(*tasks, return_exceptions=True)
    await rg.quiesce()
    # alternation in the host-boundary log
    outstanding = None
    maxq = 0
    for seq, d, direction, pkt, _t in rg.boundary_log[start_b:]:
        if d != 0:
            continue
        if direction == 'h2c' and pkt[0] == 1:
            op = pkt[1] | pkt[2] << 8
            r.ev('oracle_evals')
            if outstanding is not None:
                r.bad('single/two-outstanding', f'command {op:#06x} sent while {outstanding:#06x} was unanswered '
                                                f'(tasks={ntasks} delay={delay})')
            outstanding = op
        elif direction == 'c2h' and pkt[0] == 4 and pkt[1] in (0x0E, 0x0F):
            op = (pkt[4] | pkt[5] << 8) if pkt[1] == 0x0E else (pkt[5] | pkt[6] << 8)
            if outstanding is not None and op == outstanding:
                outstanding = None
            elif op != 0:
                r.ev('oracle_evals')
                r.bad('single/unsolicited-response', f'response for {op:#06x} while outstanding={outstanding}')
    r.ev('oracle_evals')
    if outstanding is not None:
        r.bad('single/unanswered-at-quiescence', f'command {outstanding:#06x} never answered')
    r.sig('host', ntasks, delay, live is not None, case['seed'])
    r.sched.add(rg.schedule_signature)
    r.evals()
    r.sample = {'kind': 'host', 'tasks': ntasks, 'delay': delay, 'live_connection': live is not None}


# -----------------------------------------------------------------------------
async def proc_case(case, r: R):
    from bumble import hci
    from bumble.core import PhysicalTransport
    from vlib import rig as vrig
    p = case['proc']
    rng = random.Random(case['seed'])
    vrig.seed_entropy(case['seed'])
    delay = rng.choice([0, 1, 3])
    rg = vrig.Rig(3, seed=case['seed'], max_delay=delay, classic=True)
    if p.startswith('cis'):
        for c in rg.controllers:
            pass
    await rg.power_on()
    host, ctl = rg.hosts[0], rg.controllers[0]
    absent_le = hci.Address('C7:C7:C7:C7:C7:C7', hci.Address.RANDOM_DEVICE_ADDRESS)
    absent_br = hci.Address('07:07:07:07:07:07', hci.Address.PUBLIC_DEVICE_ADDRESS)
    le = cl = None
    if p in ('disconnect-live', 'disconnect-peer-gone', 'le-features-live', 'le-features-peer-gone', 'le-encrypt-live',
             'le-encrypt-dead', 'cis-setup', 'cis-bad-handle', 'remote-version-live', 'remote-version-dead'):
        le = await rg.connect_le(0, 1)
    if p in ('classic-features-live', 'classic-auth-live', 'remote-name-present'):
        cl = await rg.connect_classic(0, 1)
    await rg.quiesce()
    start = len(rg.hci_log)
    r.ev('proc_cases')

    async def issue(cmd, expect_codes, must_conclude=True, allow_error_status=True, key=p):
        """Send through the real host; then demand status + completion."""
        s0 = len(rg.hci_log)
        try:
            resp = await vloop.vwait(host.send_command(cmd), 120)
        except vloop.Hang:
            r.bad(f'answer/none/proc/{key}', f'{cmd.name}: no Command Status/Complete within 120 virtual s')
            return None
        r.ev('oracle_evals')
        status = getattr(resp, 'status', None)
        if status is None:
            rp = resp.return_parameters
            status = getattr(rp, 'status', 0)
        if isinstance(resp, hci.HCI_Command_Status_Event) and resp.status == 0 and must_conclude:
            r.ev('pending_procedures_followed')
            deadline = asyncio.get_running_loop().time() + vloop.T_V
            while True:
                evs = [e for e in parse_events(rg.hci_log, 0, s0) if e[1] == 'ev' and e[4] in expect_codes]
                if evs:
                    return evs[0]
                if asyncio.get_running_loop().time() >= deadline:
                    break
                await asyncio.sleep(5.0)
                await rg.quiesce()
            r.bad(f'conclude/never/proc/{key}', f'{cmd.name} answered PENDING, no completion event '
                                                f'{sorted(map(str, expect_codes))} within T_v')
        return resp

    if p == 'le-connect-present':
        await vloop.vwait(rg.devices[1].start_advertising(auto_restart=False))
        s0 = len(rg.hci_log)
        try:
            await vloop.vwait(rg.devices[0].connect(rg.devices[1].random_address, timeout=30))
        except vloop.Hang:
            r.bad('conclude/never/proc/le-connect-present', 'connect() to an advertising peer pending at T_v')
        await rg.quiesce()
        evs = parse_events(rg.hci_log, 0, s0)
        st = [e for e in evs if e[1] == 'cs' and e[2] in (0x200D, 0x2043)]
        done = [e for e in evs if e[1] == 'ev' and e[4] in {('le', 0x01), ('le', 0x0A)}]
        r.ev('oracle_evals')
        r.ev('pending_procedures_followed')
        if len(st) != 1 or not done:
            r.bad('conclude/never/proc/le-connect-present', f'{len(st)} status events, {len(done)} completion events')
    elif p in ('le-connect-absent-cancel', 'le-connect-adv-stops'):
        target = absent_le
        if p == 'le-connect-adv-stops':
            await vloop.vwait(rg.devices[1].start_advertising(auto_restart=False, advertising_interval_min=1000,
                                                              advertising_interval_max=1000))
            await rg.quiesce()
            await vloop.vwait(rg.devices[1].stop_advertising())
            target = absent_le
        s0 = len(rg.hci_log)
        await issue(hci.HCI_LE_Create_Connection_Command(
            le_scan_interval=96, le_scan_window=96, initiator_filter_policy=0,
            peer_address_type=1, peer_address=target, own_address_type=1,
            connection_interval_min=12, connection_interval_max=24, max_latency=0, supervision_timeout=72,
            min_ce_length=0, max_ce_length=0), set(), must_conclude=False)
        await asyncio.sleep(rng.choice([0, 1, 10]))
        try:
            await vloop.vwait(host.send_command(hci.HCI_LE_Create_Connection_Cancel_Command()), 120)
        except vloop.Hang:
            r.bad('answer/none/proc/le-create-connection-cancel', 'cancel never answered')
        await asyncio.sleep(2)
        await rg.quiesce()
        evs = [e for e in parse_events(rg.hci_log, 0, s0) if e[1] == 'ev' and e[4] in {('le', 0x01), ('le', 0x0A)}]
        r.ev('oracle_evals')
        r.ev('pending_procedures_followed')
        if not evs:
            r.bad('conclude/never/proc/le-create-connection-cancelled',
                  'LE Create Connection was cancelled but no LE Connection Complete (failed) event concluded it')
        # a later connection attempt must be accepted (the pending one is gone)
        resp = await issue(hci.HCI_LE_Create_Connection_Command(
            le_scan_interval=96, le_scan_window=96, initiator_filter_policy=0,
            peer_address_type=1, peer_address=absent_le, own_address_type=1,
            connection_interval_min=12, connection_interval_max=24, max_latency=0, supervision_timeout=72,
            min_ce_length=0, max_ce_length=0), set(), must_conclude=False)
        r.ev('oracle_evals')
        if resp is not None and getattr(resp, 'status', 0) != 0:
            r.bad('conclude/blocked/proc/le-create-connection-after-cancel',
                  f'a new LE Create Connection after the cancel was refused with status {resp.status}')
    elif p == 'le-connect-cancel-race':
        # The host cancels while an advertising PDU of the target is already on its way to the initiating
        # controller: whichever wins, ONE completion event concludes the one LE Create Connection.
        await vloop.vwait(rg.devices[1].start_advertising(auto_restart=False, advertising_interval_min=200,
                                                          advertising_interval_max=200))
        await rg.quiesce()
        s0 = len(rg.hci_log)
        # (through Device.connect(), so that the Device knows what the completion event is about)
        ctask = asyncio.ensure_future(rg.devices[0].connect(rg.devices[1].random_address, timeout=60))
        st = None
        for _ in range(2000):
            await asyncio.sleep(0)
            cs = [e for e in parse_events(rg.hci_log, 0, s0) if e[1] == 'cs' and e[2] in (0x200D, 0x2043)]
            if cs:
                st = cs[0]
                break
        already = [e for e in parse_events(rg.hci_log, 0, s0) if e[1] == 'ev' and e[4] in {('le', 0x01), ('le', 0x0A)}]
        if st is not None and st[3] == 0 and not already:
            # the cancel is processed `turns` loop turns after the PDU was sent; the PDU is delivered one turn
            # after it was sent (the link's call_soon), so 0 puts the cancel just before the delivery
            turns = case['seed'] % 3
            rg.inboxes[0].max_delay = 0
            cancel = bytes(hci.HCI_LE_Create_Connection_Cancel_Command())
            armed = [True]
            inner = ctl.on_ll_advertising_pdu

            def inject():
                rg.log_hci(0, 'h2c', cancel)
                try:
                    ctl.on_packet(cancel)
                except Exception as e:
                    rg.note_exception('race-cancel', e)

            def on_adv(*a):
                inner(*a)
                if armed[0]:
                    armed[0] = False
                    r.ev('cancel_raced_with_advertising_pdu')
                    r.sig('cancel-race', turns, delay)

                    def later(n):
                        if n == 0:
                            inject()
                        else:
                            asyncio.get_running_loop().call_soon(later, n - 1)
                    later(turns)
            ctl.on_ll_advertising_pdu = on_adv
            deadline = asyncio.get_running_loop().time() + 30
            while armed[0] and asyncio.get_running_loop().time() < deadline:
                await asyncio.sleep(0.05)
            await asyncio.sleep(2)
            await rg.quiesce()
            ctl.on_ll_advertising_pdu = inner
            try:
                await vloop.vwait(ctask, 120)
            except vloop.Hang:
                r.bad('conclude/never/proc/le-create-connection-cancel-race', 'connect() still pending 120 s after the race')
            except Exception:
                pass
            evs = parse_events(rg.hci_log, 0, s0)
            done = [e for e in evs if e[1] == 'ev' and e[4] in {('le', 0x01), ('le', 0x0A)}]
            answers = [e for e in evs if e[1] in ('cc', 'cs') and e[2] == 0x200E]
            r.ev('oracle_evals')
            r.ev('pending_procedures_followed')
            if armed[0]:
                pass        # no advertising PDU came by: nothing raced
            elif len(answers) != 1:
                r.bad('answer/' + ('none' if not answers else 'multiple') + '/proc/le-create-connection-cancel-race',
                      f'{len(answers)} answers to the cancel injected {turns} turns after an advertising PDU was sent')
            elif len(done) != 1:
                r.bad('conclude/' + ('never' if not done else 'twice') + '/proc/le-create-connection-cancel-race',
                      f'one LE Create Connection, cancel (answered status {answers[0][3]}) injected {turns} loop turns '
                      f'after an advertising PDU of the target was sent on the link (link delay <= {delay}): '
                      f'{len(done)} LE (Enhanced) Connection Complete events '
                      f'{[rg.hci_log[e[0]][3][:8].hex() for e in done]}')
    elif p in ('classic-connect-present', 'classic-connect-absent'):
        target = rg.devices[1].public_address if p.endswith('present') else absent_br
        await issue(hci.HCI_Create_Connection_Command(
            bd_addr=target, packet_type=0xCC18, page_scan_repetition_mode=2, clock_offset=0, allow_role_switch=1,
            reserved=0), {0x03})
    elif p == 'disconnect-live':
        await issue(hci.HCI_Disconnect_Command(connection_handle=le[0].handle, reason=0x13), {0x05})
        await rg.quiesce()
        evs1 = [e for e in parse_events(rg.hci_log, 1, start) if e[4] == 0x05]
        r.ev('oracle_evals')
        if not evs1:
            r.bad('conclude/never/proc/disconnect-live/peer-side', 'peer controller never reported the disconnection')
    elif p == 'disconnect-unknown':
        h = rng.choice([0x0EFF, 0x0000, 0x0123])
        resp = await issue(hci.HCI_Disconnect_Command(connection_handle=h, reason=0x13), {0x05})
    elif p == 'disconnect-peer-gone':
        await vloop.vwait(le[1].disconnect())
        await rg.quiesce()
        await issue(hci.HCI_Disconnect_Command(connection_handle=le[0].handle, reason=0x13), {0x05})
    elif p in ('le-features-live', 'le-features-peer-gone'):
        if p.endswith('gone'):
            await vloop.vwait(le[1].disconnect())
            await rg.quiesce()
        await issue(hci.HCI_LE_Read_Remote_Features_Command(connection_handle=le[0].handle), {('le', 0x04)})
    elif p in ('remote-name-present', 'remote-name-absent'):
        target = rg.devices[1].public_address if p.endswith('present') else absent_br
        await issue(hci.HCI_Remote_Name_Request_Command(bd_addr=target, page_scan_repetition_mode=2, reserved=0,
                                                        clock_offset=0), {0x07})
    elif p in ('le-encrypt-live', 'le-encrypt-dead'):
        h = le[0].handle if p.endswith('live') else 0x0EFE
        await issue(hci.HCI_LE_Enable_Encryption_Command(connection_handle=h, random_number=bytes(8),
                                                         encrypted_diversifier=0, long_term_key=bytes(16)),
                    {0x08, 0x59, 0x30})
    elif p in ('cis-setup', 'cis-bad-handle'):
        try:
            rp = await vloop.vwait(host.send_sync_command(hci.HCI_LE_Set_CIG_Parameters_Command(
                cig_id=1, sdu_interval_c_to_p=10000, sdu_interval_p_to_c=10000, worst_case_sca=0, packing=0, framing=0,
                max_transport_latency_c_to_p=10, max_transport_latency_p_to_c=10, cis_id=[1], max_sdu_c_to_p=[100],
                max_sdu_p_to_c=[100], phy_c_to_p=[1], phy_p_to_c=[1], rtn_c_to_p=[1], rtn_p_to_c=[1])), 120)
            cis_handle = rp.connection_handle[0]
        except Exception as ex:
            r.ev('cis_setup_unavailable')
            r.add_extra_list('cis_setup_errors', f'{type(ex).__name__}: {ex}')
            return
        # the peer accepts every CIS request
        def on_cis_req(ev):
            pass
        acl = le[0].handle if p == 'cis-setup' else 0x0EFD
        async def accept(cis_link):
            try:
                await rg.devices[1].accept_cis_request(cis_link)
            except Exception:
                pass
        rg.devices[1].on('cis_request', lambda cis_link: asyncio.ensure_future(accept(cis_link)))
        await issue(hci.HCI_LE_Create_CIS_Command(cis_connection_handle=[cis_handle], acl_connection_handle=[acl]),
                    {('le', 0x19)})
    elif p.startswith('classic-accept'):
        # device 1 does not answer connection requests by itself; the harness accepts by hand
        rg.devices[1].classic_accept_any = False
        allow = 0 if p.endswith('refused') else 1
        role = 1 if p.endswith('peripheral') else 0
        s1 = len(rg.hci_log)
        try:
            await vloop.vwait(host.send_command(hci.HCI_Create_Connection_Command(
                bd_addr=rg.devices[1].public_address, packet_type=0xCC18, page_scan_repetition_mode=2, clock_offset=0,
                allow_role_switch=allow, reserved=0)), 120)
        except vloop.Hang:
            r.bad('answer/none/proc/create-connection', 'Create Connection never answered')
        await rg.quiesce()
        reqs = [e for e in parse_events(rg.hci_log, 1, s1) if e[4] == 0x04]
        if not reqs:
            r.ev('accept_no_connection_request_seen')
        else:
            try:
                resp = await vloop.vwait(rg.hosts[1].send_command(hci.HCI_Accept_Connection_Request_Command(
                    bd_addr=rg.devices[0].public_address, role=role)), 120)
            except vloop.Hang:
                r.bad(f'answer/none/proc/{p}', 'Accept Connection Request never answered')
                resp = None
            if resp is not None and getattr(resp, 'status', 1) == 0:
                r.ev('pending_procedures_followed')
                await asyncio.sleep(60)
                await rg.quiesce()
                for dev, who in ((1, 'acceptor'), (0, 'initiator')):
                    done = [e for e in parse_events(rg.hci_log, dev, s1) if e[1] == 'ev' and e[4] == 0x03]
                    r.ev('oracle_evals')
                    if not done:
                        r.bad(f'conclude/never/proc/{p}/{who}',
                              f'the {who} accepted/created the connection as pending but never got a Connection Complete '
                              f'(allow_role_switch={allow}, accept role={role})')
    elif p == 'classic-features-live':
        await issue(hci.HCI_Read_Remote_Supported_Features_Command(connection_handle=cl[0].handle), {0x0B})
    elif p == 'classic-auth-live':
        await issue(hci.HCI_Authentication_Requested_Command(connection_handle=cl[0].handle), {0x06})
    elif p in ('remote-version-live', 'remote-version-dead'):
        h = le[0].handle if p.endswith('live') else 0x0EFC
        await issue(hci.HCI_Read_Remote_Version_Information_Command(connection_handle=h), {0x0C})
    await rg.quiesce()
    for where, ex in rg.exceptions:
        if p.startswith('classic-accept') and where.startswith('c2h'):
            # these scenarios drive the controllers by raw commands behind the Device layer,
            # whose bookkeeping of the not-yet-existing connection is not what is judged
            r.ev('host_side_exceptions_ignored')
            continue
        r.bad(f'answer/exception-later/proc/{p}', f'{where}: {ex}')
    r.sig('proc', p, delay, case['seed'])
    r.sched.add(rg.schedule_signature)
    r.evals()
    r.sample = {'kind': 'proc', 'procedure': p, 'delay': delay}


# -----------------------------------------------------------------------------
# cig: multi-command histories on the controller's CIG / CIS table
def cis_established_events(log, dev, start):
    """(seq, status, handle) of every LE CIS Established event controller `dev` emitted."""
    out = []
    for seq, d, direction, pkt, _t in log[start:]:
        if d == dev and direction == 'c2h' and pkt[0] == 4 and pkt[1] == 0x3E and len(pkt) >= 7 and pkt[3] == 0x19:
            out.append((seq, pkt[4], (pkt[5] | pkt[6] << 8) & 0x0FFF))
    return out


def disconnection_events(log, dev, start):
    out = []
    for seq, d, direction, pkt, _t in log[start:]:
        if d == dev and direction == 'c2h' and pkt[0] == 4 and pkt[1] == 0x05 and len(pkt) >= 7:
            out.append((seq, pkt[3], (pkt[4] | pkt[5] << 8) & 0x0FFF))
    return out


def cig_history(rng):
    """[('set', cig, [cis ids]) | ('remove', cig)], label. CIG and CIS ids are drawn from the same small
    range, so that a CIS id often equals a CIG id (its own or the other one's)."""
    ids = [0, 1, 2, 3]
    a, b = rng.sample(ids, 2)

    def cis_ids(avoid=None):
        k = rng.choice([1, 1, 2, 2, 3])
        pool = list(ids) + [4, 0xEF]
        out = rng.sample(pool, k)
        if rng.random() < 0.5 and a not in out:
            out[rng.randrange(len(out))] = a        # a CIS id that equals the CIG id
        return out

    pattern = rng.choice(['single', 'reconfigured', 'reconfigured', 'reconfigured', 'removed-reconfigured', 'two-cigs',
                          'two-cigs-reconfigured'])
    steps = []
    if pattern == 'single':
        steps = [('set', a, cis_ids())]
    elif pattern == 'reconfigured':
        first = cis_ids()
        steps = [('set', a, first)]
        for _ in range(rng.choice([1, 1, 2])):
            how = rng.choice(['same', 'other', 'grow', 'shrink'])
            prev = steps[-1][2]
            if how == 'same':
                nxt = list(prev)
            elif how == 'grow':
                nxt = list(prev) + [x for x in (5, 6) if x not in prev][:1]
            elif how == 'shrink' and len(prev) > 1:
                nxt = prev[:-1]
            else:
                nxt = cis_ids()
            steps.append(('set', a, nxt))
    elif pattern == 'removed-reconfigured':
        steps = [('set', a, cis_ids()), ('remove', a), ('set', a, cis_ids())]
        if rng.random() < 0.3:
            steps.insert(0, ('remove', a))      # Remove CIG of a CIG that does not exist: answered with an error
    elif pattern == 'two-cigs':
        steps = [('set', a, cis_ids()), ('set', b, cis_ids())]
    else:
        steps = [('set', a, cis_ids()), ('set', b, cis_ids()), ('set', rng.choice([a, b]), cis_ids())]
        if rng.random() < 0.4:
            steps.append(('set', rng.choice([a, b]), cis_ids()))
    return steps, pattern


async def cig_case(case, r: R):
    from bumble import hci
    from bumble.device import CigParameters
    from vlib import rig as vrig
    rng = random.Random(case['seed'])
    vrig.seed_entropy(case['seed'])
    delay = rng.choice([0, 0, 1, 3])
    rg = vrig.Rig(3, seed=case['seed'], max_delay=delay)
    await rg.power_on()
    host, dev0 = rg.hosts[0], rg.devices[0]
    acls = {1: (await rg.connect_le(0, 1))[0]}
    if rng.random() < 0.5:
        acls[2] = (await rg.connect_le(0, 2))[0]
    await rg.quiesce()
    accept_tasks = []

    def acceptor(d):
        async def accept(cis_link):
            try:
                await rg.devices[d].accept_cis_request(cis_link)
            except Exception:
                pass
        rg.devices[d].on('cis_request', lambda cis_link: accept_tasks.append(asyncio.ensure_future(accept(cis_link))))
    for d in acls:
        acceptor(d)

    steps, label = cig_history(rng)
    via = rng.choice(['raw', 'raw', 'device'])
    start = len(rg.hci_log)
    r.ev('cig_histories')
    current = {}        # cig -> [(cis id, handle)] of its LATEST configuration (independent ledger)
    sets_since_remove = {}
    removed_once = set()
    hist = []

    async def command(cmd, what):
        try:
            resp = await vloop.vwait(host.send_command(cmd), 120)
        except vloop.Hang:
            r.bad(f'answer/none/cis/{what}', f'{cmd.name} not answered within 120 virtual s; history {hist}')
            return None
        r.ev('oracle_evals')
        if resp.command_opcode != cmd.op_code:
            r.bad(f'own/foreign-response/cis/{what}', f'{cmd.name} was answered with opcode {resp.command_opcode:#06x}')
            return None
        return resp

    def set_cig_command(cig, ids):
        n = len(ids)
        return hci.HCI_LE_Set_CIG_Parameters_Command(
            cig_id=cig, sdu_interval_c_to_p=rng.choice([7500, 10000]), sdu_interval_p_to_c=10000, worst_case_sca=0,
            packing=0, framing=0, max_transport_latency_c_to_p=10, max_transport_latency_p_to_c=10, cis_id=list(ids),
            max_sdu_c_to_p=[100] * n, max_sdu_p_to_c=[100] * n, phy_c_to_p=[1] * n, phy_p_to_c=[1] * n,
            rtn_c_to_p=[1] * n, rtn_p_to_c=[1] * n)

    for st in steps:
        if st[0] == 'set':
            _, cig, ids = st
            if via == 'device':
                try:
                    handles = list(await vloop.vwait(dev0.setup_cig(CigParameters(
                        cig_id=cig, cis_parameters=[CigParameters.CisParameters(cis_id=i) for i in ids],
                        sdu_interval_c_to_p=10000, sdu_interval_p_to_c=10000)), 120))
                except vloop.Hang:
                    r.bad('answer/none/cis/set-cig-parameters', f'Device.setup_cig pending after 120 virtual s; history {hist}')
                    return
                except Exception as ex:
                    r.ev('cig_setup_refused')
                    r.add_extra_list('cig_errors', f'{type(ex).__name__}: {ex}')
                    return
            else:
                resp = await command(set_cig_command(cig, ids), 'set-cig-parameters')
                if resp is None:
                    return
                rp = resp.return_parameters
                if getattr(rp, 'status', 1) != 0:
                    r.ev('cig_setup_refused')
                    r.add_extra_list('cig_errors', f'Set CIG Parameters {cig} {ids}: status {getattr(rp, "status", None)}')
                    return
                handles = list(rp.connection_handle)
            hist.append(('set', cig, list(ids), [hex(h) for h in handles]))
            others = {h for c, v in current.items() if c != cig for _i, h in v} | {c.handle for c in acls.values()}
            r.ev('oracle_evals')
            if len(handles) != len(ids) or len(set(handles)) != len(handles) or set(handles) & others:
                r.bad(f'conclude/ambiguous-handle/cis/{label}',
                      f'LE Set CIG Parameters for {len(ids)} CIS returned handles {[hex(h) for h in handles]}; handles in '
                      f'use by other CIGs / ACL connections: {sorted(map(hex, others))}; history {hist}')
                return
            current[cig] = list(zip(ids, handles))
            sets_since_remove[cig] = sets_since_remove.get(cig, 0) + 1
        else:
            _, cig = st
            resp = await command(hci.HCI_LE_Remove_CIG_Command(cig_id=cig), 'remove-cig')
            if resp is None:
                return
            hist.append(('remove', cig))
            if cig in current:
                removed_once.add(cig)
            current.pop(cig, None)
            sets_since_remove[cig] = 0

    # ---- Disconnect for a CIS that is configured but was never created: refused, or concluded ------
    if current and rng.random() < 0.3:
        h = rng.choice([hh for v in current.values() for _i, hh in v])
        mark = len(rg.hci_log)
        resp = await command(hci.HCI_Disconnect_Command(connection_handle=h, reason=0x13), 'disconnect-cis')
        if resp is None:
            return
        st = getattr(resp, 'status', 1)
        hist.append(('disconnect-not-created', hex(h), f'status {st}'))
        r.ev('cis_disconnect_before_create')
        if st == 0:
            r.ev('pending_procedures_followed')
            await asyncio.sleep(2.0)
            await rg.quiesce()
            r.ev('oracle_evals')
            if not [e for e in disconnection_events(rg.hci_log, 0, mark) if e[2] == h]:
                r.bad('conclude/never/cis/disconnect-not-established',
                      f'Disconnect for the configured, never created CIS {h:#06x} was answered PENDING; no Disconnection '
                      f'Complete for it follows; history {hist}')

    # ---- LE Create CIS for CIS of the latest configurations -------------------------------
    ever_pending = set()

    async def create(pairs, group_label, raw=False):
        """pairs: [(cis handle, acl handle)]. Returns the handles that were established."""
        mark = len(rg.hci_log)
        task = None
        if via == 'device' and not raw:
            by_handle = {c.handle: c for c in acls.values()}
            task = asyncio.ensure_future(dev0.create_cis([(h, by_handle[a]) for h, a in pairs]))
            status = None
            for _ in range(4000):
                await asyncio.sleep(0)
                cs = [e for e in parse_events(rg.hci_log, 0, mark) if e[1] in ('cs', 'cc') and e[2] == 0x2064]
                if cs:
                    status = cs[0][3] if cs[0][1] == 'cs' else 0xFF
                    break
                if task.done():
                    break
            if status is None:
                r.bad('answer/none/cis/create-cis', f'Device.create_cis: LE Create CIS not answered; history {hist}')
                task.cancel()
                return None
        else:
            resp = await command(hci.HCI_LE_Create_CIS_Command(cis_connection_handle=[h for h, _a in pairs],
                                                               acl_connection_handle=[a for _h, a in pairs]), 'create-cis')
            if resp is None:
                return None
            status = resp.status if isinstance(resp, hci.HCI_Command_Status_Event) else 0xFF
        hist.append(('create', [hex(h) for h, _a in pairs], f'status {status}'))
        if status != 0:
            r.ev('cis_create_refused')
            if task is not None:
                task.cancel()
            return set()
        r.ev('pending_procedures_followed')
        want = [h for h, _a in pairs]
        ever_pending.update(want)
        deadline = asyncio.get_running_loop().time() + vloop.T_V
        while True:
            await rg.quiesce()
            evs = cis_established_events(rg.hci_log, 0, mark)
            if all(any(e[2] == h for e in evs) for h in want):
                break
            if asyncio.get_running_loop().time() >= deadline:
                break
            await asyncio.sleep(5.0)
        evs = cis_established_events(rg.hci_log, 0, mark)
        seen = [e[2] for e in evs]
        for h in want:
            r.ev('cis_handles_followed')
            r.ev('oracle_evals')
            n = seen.count(h)
            if n == 0:
                r.bad(f'conclude/never/cis/{group_label}',
                      f'LE Create CIS for CIS handles {[hex(x) for x in want]} was answered PENDING; no LE CIS Established '
                      f'event carries handle {h:#06x} within T_v (events carry {[hex(x) for x in seen]}); {via} history {hist}')
            elif n > 1:
                r.bad(f'conclude/twice/cis/{group_label}',
                      f'{n} LE CIS Established events for handle {h:#06x}; {via} history {hist}')
        r.ev('oracle_evals')
        foreign = [x for x in seen if x not in ever_pending]
        if foreign:
            r.bad(f'conclude/foreign-handle/cis/{group_label}',
                  f'LE CIS Established for handles {[hex(x) for x in foreign]} that no LE Create CIS named (pending: '
                  f'{[hex(x) for x in want]}); {via} history {hist}')
        if task is not None:
            try:
                await vloop.vwait(task, 60)
            except vloop.Hang:
                task.cancel()
            except Exception:
                pass
        return {e[2] for e in evs if e[1] == 0 and e[2] in want}

    def class_of(cigs):
        if any(sets_since_remove.get(c, 0) >= 2 for c in cigs):
            return 'reconfigured'
        if any(c in removed_once for c in cigs):
            return 'removed-reconfigured'
        if len(current) >= 2:
            return 'two-cigs'
        return 'single'

    acl_of = {cig: rng.choice(sorted(acls)) for cig in current}
    chosen = {}
    for cig, lst in current.items():
        k = rng.randint(1, len(lst))
        chosen[cig] = rng.sample(lst, k)
    groups = []
    if len(chosen) >= 2 and rng.random() < 0.5:
        groups = [sorted(chosen)]               # one LE Create CIS for the CIS of both CIGs
    else:
        groups = [[c] for c in sorted(chosen)]
        rng.shuffle(groups)
    established = {}
    for cigs in groups:
        pairs = [(h, acls[acl_of[c]].handle) for c in cigs for _i, h in chosen[c]]
        cls = class_of(cigs)
        r.ev({'reconfigured': 'cis_created_after_reconfiguration',
              'removed-reconfigured': 'cis_created_after_remove_and_reconfiguration',
              'two-cigs': 'cis_created_in_two_cigs', 'single': 'cis_created_single_configuration'}[cls])
        if len(current) >= 2 and cls != 'two-cigs':
            r.ev('cis_created_in_two_cigs')
        got = await create(pairs, cls)
        if got is None:
            break
        for h in got:
            established[h] = [a for hh, a in pairs if hh == h][0]

    # ---- an established CIS is disconnected and created again (the handle stays configured) -----
    recreate_mark = [None]
    if established and rng.random() < 0.5:
        h = rng.choice(sorted(established))
        mark = recreate_mark[0] = len(rg.hci_log)
        resp = await command(hci.HCI_Disconnect_Command(connection_handle=h, reason=0x13), 'disconnect-cis')
        if resp is not None and getattr(resp, 'status', 1) == 0:
            r.ev('pending_procedures_followed')
            await asyncio.sleep(1.0)
            await rg.quiesce()
            done = [e for e in disconnection_events(rg.hci_log, 0, mark) if e[2] == h]
            r.ev('oracle_evals')
            hist.append(('disconnect', hex(h)))
            if not done:
                r.bad('conclude/never/cis/disconnect-established',
                      f'Disconnect of the established CIS {h:#06x} answered PENDING, no Disconnection Complete for it; '
                      f'history {hist}')
            else:
                if rng.random() < 0.4:
                    # a second Disconnect for the CIS that is down already: refused, or concluded
                    m2 = len(rg.hci_log)
                    resp2 = await command(hci.HCI_Disconnect_Command(connection_handle=h, reason=0x13), 'disconnect-cis')
                    if resp2 is not None and getattr(resp2, 'status', 1) == 0:
                        r.ev('pending_procedures_followed')
                        await asyncio.sleep(2.0)
                        await rg.quiesce()
                        r.ev('oracle_evals')
                        if not [e for e in disconnection_events(rg.hci_log, 0, m2) if e[2] == h]:
                            r.bad('conclude/never/cis/disconnect-not-established',
                                  f'a second Disconnect for CIS {h:#06x} (down already) was answered PENDING; no '
                                  f'Disconnection Complete for it follows; history {hist}')
                r.ev('cis_recreated_after_disconnect')
                # (Device.create_cis needs a new setup_cig for a second use of a handle: the raw command is used)
                await create([(h, established[h])], 'recreated-after-disconnect', raw=True)

    # ---- the peripherals: every LE Accept CIS Request accepted as pending is concluded for ITS handle
    await rg.quiesce()
    for d in acls:
        accepted = []
        outstanding = None
        for seq, dd, direction, pkt, _t in rg.hci_log[start:]:
            if dd != d:
                continue
            if direction == 'h2c' and pkt[0] == 1 and (pkt[1] | pkt[2] << 8) == 0x2066 and len(pkt) >= 6:
                outstanding = (pkt[4] | pkt[5] << 8) & 0x0FFF
            elif direction == 'c2h' and pkt[0] == 4 and pkt[1] == 0x0F and len(pkt) >= 7 and (pkt[5] | pkt[6] << 8) == 0x2066:
                if pkt[3] == 0 and outstanding is not None:
                    accepted.append((seq, outstanding))
                outstanding = None
        evs = cis_established_events(rg.hci_log, d, start)
        for seq, h in accepted:
            r.ev('cis_accepts_followed')
            r.ev('oracle_evals')
            if not any(e[2] == h and e[0] > seq for e in evs):
                lab = 'recreated-after-disconnect' if recreate_mark[0] is not None and seq > recreate_mark[0] else label
                r.bad(f'conclude/never/cis-accept/{lab}',
                      f'peripheral {d}: LE Accept CIS Request for handle {h:#06x} answered PENDING, LE CIS Established events '
                      f'carry {[hex(e[2]) for e in evs]}; history {hist}')
    for t in accept_tasks:
        t.cancel()
    for where, ex in rg.exceptions:
        if where == 'c2h0':
            # raw commands behind Device 0's back: its bookkeeping of CIS it never asked for is not judged
            r.ev('host_side_exceptions_ignored')
            continue
        r.bad(f'answer/exception-later/cis/{label}', f'{where}: {ex}; {via} history {hist}')
    r.sig('cig', via, tuple((s[0], s[1], tuple(s[2]) if len(s) > 2 else ()) for s in steps),
          tuple(tuple(g) for g in groups), tuple(sorted((c, len(v)) for c, v in chosen.items())), len(acls))
    r.sched.add(rg.schedule_signature)
    r.evals()
    r.sample = {'kind': 'cig', 'via': via, 'pattern': label, 'history': [list(map(str, h)) for h in hist][:8]}


# -----------------------------------------------------------------------------
# train: commands whose handling depends on what an earlier command of the same train stored
TRAIN_PATTERNS = [
    ['FIRST', 'LAST'], ['FIRST', 'INTERMEDIATE', 'LAST'], ['FIRST', 'INTERMEDIATE', 'INTERMEDIATE', 'INTERMEDIATE', 'LAST'],
    ['COMPLETE'], ['COMPLETE', 'UNCHANGED'], ['FIRST', 'INTERMEDIATE', 'COMPLETE'], ['FIRST', 'COMPLETE', 'UNCHANGED'],
    ['LAST'], ['INTERMEDIATE', 'LAST'], ['FIRST', 'LAST', 'FIRST', 'INTERMEDIATE', 'LAST'], ['COMPLETE', 'INTERMEDIATE', 'LAST'],
    ['COMPLETE', 'LAST'], ['FIRST', 'FIRST', 'LAST'], ['UNCHANGED'], ['FIRST', 'LAST', 'UNCHANGED'],
    ['COMPLETE', 'COMPLETE', 'FIRST', 'LAST'],
]
OPERATION = {'INTERMEDIATE': 0, 'FIRST': 1, 'LAST': 2, 'COMPLETE': 3, 'UNCHANGED': 4}


async def train_case(case, r: R):
    from bumble import hci
    from vlib import rig as vrig
    rng = random.Random(case['seed'])
    vrig.seed_entropy(case['seed'])
    delay = rng.choice([0, 0, 1, 3])
    rg = vrig.Rig(2, seed=case['seed'], max_delay=delay)
    if rng.random() < 0.7:
        rg.controllers[0].le_features = rg.controllers[0].le_features | hci.LeFeatureMask.LE_EXTENDED_ADVERTISING
    await rg.power_on()
    host = rg.hosts[0]
    r.ev('train_cases')
    handles = rng.sample([0, 1, 2, 0x10, 0xEF], 2)
    created = {}

    def params_cmd(h):
        return hci.HCI_LE_Set_Extended_Advertising_Parameters_Command(
            advertising_handle=h, advertising_event_properties=rng.choice([0x0013, 0x0001, 0x0000, 0x0002]),
            primary_advertising_interval_min=160, primary_advertising_interval_max=160, primary_advertising_channel_map=7,
            own_address_type=1, peer_address_type=0, peer_address=hci.Address.ANY, advertising_filter_policy=0,
            advertising_tx_power=0, primary_advertising_phy=1, secondary_advertising_max_skip=0, secondary_advertising_phy=1,
            advertising_sid=0, scan_request_notification_enable=0)

    def addr_cmd(h):
        return hci.HCI_LE_Set_Advertising_Set_Random_Address_Command(
            advertising_handle=h, random_address=hci.Address(f'C{h & 7}:0{h & 7}:11:22:33:F{h & 7}', hci.Address.RANDOM_DEVICE_ADDRESS))

    script = []     # (label, command, stream key, operation, previous operation of the stream)
    for h in handles:
        how = rng.choice(['params+addr', 'params+addr', 'params', 'addr', 'none'])
        created[h] = how
        if 'params' in how:
            script.append(('set-ext-adv-params', params_cmd(h), None, None, None))
        if 'addr' in how:
            script.append(('set-adv-set-random-address', addr_cmd(h), None, None, None))

    def data_cmd(kind, h, op, data):
        if kind == 'ext-adv-data':
            return hci.HCI_LE_Set_Extended_Advertising_Data_Command(advertising_handle=h, operation=op,
                                                                    fragment_preference=rng.choice([0, 1]), advertising_data=data)
        if kind == 'ext-scan-response-data':
            return hci.HCI_LE_Set_Extended_Scan_Response_Data_Command(advertising_handle=h, operation=op,
                                                                      fragment_preference=rng.choice([0, 1]), scan_response_data=data)
        return hci.HCI_LE_Set_Periodic_Advertising_Data_Command(advertising_handle=h, operation=op, advertising_data=data)

    streams = []
    combos = [(k, h) for k in ('ext-adv-data', 'ext-scan-response-data', 'periodic-adv-data') for h in handles]
    rng.shuffle(combos)
    first = ('ext-adv-data' if rng.random() < 0.5 else rng.choice(['ext-scan-response-data', 'periodic-adv-data']), handles[0])
    picks = [first] + [c for c in combos if c != first][:rng.choice([0, 1, 1, 2, 3])]
    for kind, h in picks:
        ops = list(rng.choice(TRAIN_PATTERNS))
        if rng.random() < 0.3:
            ops += list(rng.choice(TRAIN_PATTERNS))
        long_train = rng.random() < 0.12
        if long_train:
            # more than the 1650 bytes the controller reports as its maximum advertising data length
            ops = ['FIRST'] + ['INTERMEDIATE'] * rng.choice([6, 7, 9]) + ['LAST']
            r.ev('train_longer_than_maximum_data_length')
        items = []
        prev = 'start'
        for op in ops:
            ln = 0 if op == 'UNCHANGED' else 251 if long_train else rng.choice([0, 1, 31, 200, 251])
            data = bytes(rng.getrandbits(8) for _ in range(ln))
            items.append((kind, data_cmd(kind, h, OPERATION[op], data), (kind, h), op, prev))
            prev = op
        streams.append(items)
    # interleave the trains (per-train order kept), unrelated and set-level commands in between
    order = [i for i, st in enumerate(streams) for _ in st]
    if rng.random() < 0.7:
        rng.shuffle(order)
    its = [iter(st) for st in streams]
    body = [next(its[i]) for i in order]
    extras = [rng.choice(['bd-addr', 'legacy-adv-data', 'legacy-scan-response-data', 'enable', 'remove-set', 'params-again',
                          'clear-sets', 'periodic-params']) for _ in range(rng.choice([0, 1, 2, 3]))]
    for x in sorted(extras, key=lambda v: v == 'enable'):      # 'enable' last: its three commands stay adjacent
        h = rng.choice(handles)
        if x == 'bd-addr':
            item = ('read-bd-addr', hci.HCI_Read_BD_ADDR_Command(), None, None, None)
        elif x == 'legacy-adv-data':
            item = ('legacy-adv-data', hci.HCI_LE_Set_Advertising_Data_Command(advertising_data=bytes(rng.choice([0, 31]))), None, None, None)
        elif x == 'legacy-scan-response-data':
            item = ('legacy-scan-response-data', hci.HCI_LE_Set_Scan_Response_Data_Command(scan_response_data=bytes(rng.choice([0, 31]))),
                    None, None, None)
        elif x == 'enable':
            # a set that has parameters and an address is enabled in the middle of the trains, disabled at the end
            at = rng.randint(0, len(body))
            body[at:at] = [('set-ext-adv-params', params_cmd(h), None, None, None),
                           ('set-adv-set-random-address', addr_cmd(h), None, None, None),
                           ('ext-adv-enable', hci.HCI_LE_Set_Extended_Advertising_Enable_Command(
                               enable=1, advertising_handles=[h], durations=[0], max_extended_advertising_events=[0]), None, None, None)]
            body.append(('ext-adv-disable', hci.HCI_LE_Set_Extended_Advertising_Enable_Command(
                enable=0, advertising_handles=[], durations=[], max_extended_advertising_events=[]), None, None, None))
            continue
        elif x == 'remove-set':
            item = ('remove-advertising-set', hci.HCI_LE_Remove_Advertising_Set_Command(advertising_handle=h), None, None, None)
        elif x == 'clear-sets':
            item = ('clear-advertising-sets', hci.HCI_LE_Clear_Advertising_Sets_Command(), None, None, None)
        elif x == 'periodic-params':
            item = ('periodic-adv-params', hci.HCI_LE_Set_Periodic_Advertising_Parameters_Command(
                advertising_handle=h, periodic_advertising_interval_min=80, periodic_advertising_interval_max=80,
                periodic_advertising_properties=0), None, None, None)
        else:
            item = ('set-ext-adv-params', params_cmd(h), None, None, None)
        body.insert(rng.randint(0, len(body)), item)
    script += body
    script.append(('followup-read-bd-addr', hci.HCI_Read_BD_ADDR_Command(), None, None, None))
    script.append(('followup-le-rand', hci.HCI_LE_Rand_Command(), None, None, None))

    def key_of(item):
        label, _cmd, stream, op, prev = item
        return f'{label}/{op}-after-{prev}' if stream else label

    trace = []
    blocked = False
    for item in script:
        label, cmd, stream, op, prev = item
        mark = len(rg.hci_log)
        dl = len(getattr(cmd, 'advertising_data', None) or getattr(cmd, 'scan_response_data', None) or b'')
        trace.append(key_of(item) + (f'[h{stream[1]:#x},{dl}B]' if stream else ''))
        try:
            resp = await vloop.vwait(host.send_command(cmd), 120)
        except vloop.Hang:
            resp = None
        except Exception as ex:
            r.bad(f'own/caller-got-exception/train/{key_of(item)}', f'{type(ex).__name__}: {ex}; commands so far {trace}')
            break
        await rg.quiesce()
        r.ev('train_commands')
        if stream and op in ('INTERMEDIATE', 'LAST', 'UNCHANGED'):
            r.ev('train_continuation_fragments')
        r.ev('oracle_evals', 2)
        evs = [e for e in parse_events(rg.hci_log, 0, mark) if e[1] in ('cc', 'cs')]
        mine = [e for e in evs if e[2] == cmd.op_code]
        other = [e for e in evs if e[2] not in (cmd.op_code, 0)]
        excs = [f'{w}: {e}' for w, e in rg.exceptions]
        if len(mine) != 1:
            r.bad(f'answer/{"none" if not mine else "multiple"}/train/{key_of(item)}',
                  f'{len(mine)} Command Complete/Status events for {cmd.name} ({cmd.op_code:#06x}); commands so far {trace}; '
                  f'exceptions in the stack: {excs[:2]}')
            blocked = True
        if other:
            r.bad(f'answer/foreign-opcode/train/{key_of(item)}',
                  f'{cmd.name} was followed by a reply for {[hex(e[2]) for e in other]}; commands so far {trace}')
        if resp is None and len(mine) == 1:
            r.bad(f'single/caller-hang/train/{key_of(item)}', f'the answer to {cmd.name} was emitted but its caller still waits')
            blocked = True
        if resp is not None:
            r.ev('own_opcode_checks')
            if resp.command_opcode != cmd.op_code:
                r.bad(f'own/foreign-response/train/{key_of(item)}',
                      f'caller of {cmd.name} was handed a response for {resp.command_opcode:#06x}')
        if blocked:
            break
        if label.startswith('followup'):
            r.ev('train_followups_answered')
    if not blocked:
        for where, ex in rg.exceptions:
            r.bad('answer/exception-later/train', f'{where}: {ex}; commands {trace}')
    r.sig('train', tuple(created.values()), tuple(key_of(i) for i in script if i[2]), tuple(order))
    r.sched.add(rg.schedule_signature)
    r.evals()
    r.sample = {'kind': 'train', 'sets': {hex(h): v for h, v in created.items()}, 'commands': trace[:14]}


# -----------------------------------------------------------------------------
# capability sets: one le_features bit / one supported command removed on one controller
def capability_space():
    """The default capability set of the virtual controller, as (feature bits, command opcodes)."""
    from bumble import hci
    from bumble.controller import Controller
    bits = [b for b in hci.LeFeatureMask if Controller.le_features & b]
    # (commands every controller must implement are not taken away: a host cannot be expected to work without them)
    mandatory = {hci.HCI_RESET_COMMAND, hci.HCI_READ_BUFFER_SIZE_COMMAND, hci.HCI_READ_BD_ADDR_COMMAND,
                 hci.HCI_READ_LOCAL_VERSION_INFORMATION_COMMAND, hci.HCI_READ_LOCAL_SUPPORTED_FEATURES_COMMAND,
                 hci.HCI_SET_EVENT_MASK_COMMAND, hci.HCI_LE_SET_EVENT_MASK_COMMAND, hci.HCI_LE_READ_BUFFER_SIZE_COMMAND,
                 hci.HCI_LE_READ_LOCAL_SUPPORTED_FEATURES_COMMAND}
    return bits, sorted(Controller.supported_commands - mandatory)


def apply_capability(rg, cap):
    """cap: None | {'side': i, 'kind': 'feature'|'command', 'index': k}; applied BEFORE power_on, so that the host
    learns the reduced set from the controller itself. Returns a description."""
    if not cap or cap.get('kind') in (None, 'none'):
        return 'default capabilities'
    bits, cmds = capability_space()
    c = rg.controllers[cap['side']]
    if cap['kind'] == 'feature':
        b = bits[cap['index'] % len(bits)]
        c.le_features = c.le_features & ~b
        return f'controller {cap["side"]} without LE feature {b.name}'
    op = cmds[cap['index'] % len(cmds)]
    c.supported_commands = set(c.supported_commands) - {op}
    return f'controller {cap["side"]} without supported command {op:#06x}'


def random_capability(rng, sides):
    how = rng.choice(['none', 'feature', 'feature', 'command'])
    if how == 'none':
        return None
    return {'side': rng.choice(sides), 'kind': how, 'index': rng.randrange(1000)}


def completions(log, dev, start):
    """(seq, code, status, handle) for the completion events of controller `dev` whose parameters start with
    (status, connection handle): Disconnection Complete, Encryption Change (v1/v2), Key Refresh, Read Remote
    (Supported|Extended) Features / Version, and the LE meta events Connection Update, Read Remote Features, PHY
    Update, CIS Established, Subrate Change."""
    out = []
    for seq, d, direction, pkt, _t in log[start:]:
        if d != dev or direction != 'c2h' or pkt[0] != 4:
            continue
        code = pkt[1]
        if code == 0x3E and len(pkt) >= 7 and pkt[3] in (0x03, 0x04, 0x0C, 0x19, 0x23):
            out.append((seq, ('le', pkt[3]), pkt[4], (pkt[5] | pkt[6] << 8) & 0x0FFF))
        elif code in (0x05, 0x08, 0x59, 0x30, 0x0B, 0x0C, 0x23) and len(pkt) >= 6:
            out.append((seq, code, pkt[3], (pkt[4] | pkt[5] << 8) & 0x0FFF))
    return out


def le_connection_completes(log, dev, start):
    """(seq, status, handle, role) of LE (Enhanced) Connection Complete events of controller `dev`."""
    out = []
    for seq, d, direction, pkt, _t in log[start:]:
        if d == dev and direction == 'c2h' and pkt[0] == 4 and pkt[1] == 0x3E and len(pkt) >= 8 and pkt[3] in (0x01, 0x0A, 0x29):
            out.append((seq, pkt[4], (pkt[5] | pkt[6] << 8) & 0x0FFF, pkt[7]))
    return out


async def issue_checked(r, rg, dev, cmd, key, ctx, foreign=True):
    """One command through the real host of device `dev`: exactly one Command Complete / Command Status naming its
    opcode leaves controller `dev`, the caller is handed it. Returns (kind 'cc'|'cs', status, seq) or None when the
    command slot is lost (the scenario cannot go on)."""
    mark = len(rg.hci_log)
    try:
        resp = await vloop.vwait(rg.hosts[dev].send_command(cmd), 120)
    except vloop.Hang:
        resp = None
    except Exception as ex:
        r.ev('oracle_evals')
        r.bad(f'own/caller-got-exception/{key}', f'send_command({cmd.name}) raised {type(ex).__name__}: {ex}; {ctx()}')
        return None
    try:
        # (replies are logged when the controller emits them: a bounded settle is enough to see a second one; an
        # advertiser enabled with a zero interval keeps the link busy for ever)
        await rg.quiesce(max_turns=600)
    except vloop.Hang:
        r.ev('no_quiescence_after_command')
    r.ev('oracle_evals', 2)
    evs = [e for e in parse_events(rg.hci_log, dev, mark) if e[1] in ('cc', 'cs')]
    mine = [e for e in evs if e[2] == cmd.op_code]
    if len(mine) != 1:
        excs = [f'{w}: {e}' for w, e in rg.exceptions][-2:]
        r.bad(f'answer/{"none" if not mine else "multiple"}/{key}',
              f'{len(mine)} Command Complete/Status events for {cmd.name} ({cmd.op_code:#06x}); {ctx()}; exceptions in the '
              f'stack: {excs}')
        return None
    other = [e for e in evs if e[2] not in (cmd.op_code, 0)]
    if other and foreign:
        r.bad(f'answer/foreign-opcode/{key}', f'{cmd.name} was followed by a reply for {[hex(e[2]) for e in other]}; {ctx()}')
    if resp is None:
        r.bad(f'single/caller-hang/{key}', f'the answer to {cmd.name} was emitted but its caller still waits; {ctx()}')
        return None
    r.ev('own_opcode_checks')
    if resp.command_opcode != cmd.op_code:
        r.bad(f'own/foreign-response/{key}', f'caller of {cmd.name} was handed a response for {resp.command_opcode:#06x}')
    return mine[0][1], mine[0][3], mine[0][0]


async def wait_for_event(rg, pred, t_v=None):
    """Virtual time passes (in steps) until pred() is true; False when T_v went by."""
    deadline = asyncio.get_running_loop().time() + (vloop.T_V if t_v is None else t_v)
    while True:
        await rg.quiesce()
        if pred():
            return True
        if asyncio.get_running_loop().time() >= deadline:
            return False
        await asyncio.sleep(5.0)


# -----------------------------------------------------------------------------
# advstate: commands of the stateful families issued in states where a precondition is missing
async def advstate_case(case, r: R):
    from bumble import hci
    from vlib import rig as vrig
    rng = random.Random(case['seed'] ^ 0xAD5)
    vrig.seed_entropy(case['seed'])
    delay = rng.choice([0, 0, 1, 3])
    rg = vrig.Rig(2, seed=case['seed'], max_delay=delay)
    capability = apply_capability(rg, random_capability(rng, [0]))
    await rg.power_on()
    r.ev('advstate_cases')
    handles = rng.sample([0, 1, 2, 0x10, 0xEF], 3)
    sets = {}           # ledger: handle -> {'own': own address type | None, 'addr': bool, 'enabled': bool}
    removed = set()
    legacy = {'enabled': False, 'scan': False, 'connecting': False, 'fal': set(), 'params': False}
    absent = hci.Address('C5:C5:C5:C5:C5:C5', hci.Address.RANDOM_DEVICE_ADDRESS)
    trace = []
    forced = []         # commands that must come next

    def state_of(h):
        s = sets.get(h)
        if s is None:
            return 'removed-set' if h in removed else 'unknown-set'
        if s['enabled']:
            return 'enabled-set'
        if s['own'] is None:
            return 'set-without-parameters'
        if s['own'] in (1, 3) and not s['addr']:
            return 'set-without-address'
        if s['own'] == 2 and not s['addr']:
            return 'set-with-public-or-resolvable-address-only'
        return 'ready-set'

    def params_cmd(h, own):
        return hci.HCI_LE_Set_Extended_Advertising_Parameters_Command(
            advertising_handle=h, advertising_event_properties=rng.choice([0x0013, 0x0001, 0x0000, 0x0002]),
            primary_advertising_interval_min=rng.choice([32, 160]), primary_advertising_interval_max=160,
            primary_advertising_channel_map=7, own_address_type=own, peer_address_type=0, peer_address=hci.Address.ANY,
            advertising_filter_policy=0, advertising_tx_power=0, primary_advertising_phy=1, secondary_advertising_max_skip=0,
            secondary_advertising_phy=1, advertising_sid=h & 0x0F, scan_request_notification_enable=0)

    def create_connection_cmd():
        return hci.HCI_LE_Create_Connection_Command(
            le_scan_interval=96, le_scan_window=96, initiator_filter_policy=0, peer_address_type=1, peer_address=absent,
            own_address_type=1, connection_interval_min=12, connection_interval_max=24, max_latency=0,
            supervision_timeout=72, min_ce_length=0, max_ce_length=0)

    def pick():
        """(label, state class, command, ledger update)"""
        h = rng.choice(handles)
        st = state_of(h)
        if forced:
            op = forced.pop(0)
            if isinstance(op, tuple):
                op, h = op
                st = state_of(h)
        else:
            op = pick_op()
        return build(op, h, st)

    def pick_op():
        return rng.choices(
            ['ext-adv-enable', 'ext-adv-enable', 'ext-adv-enable', 'ext-adv-enable-two', 'ext-adv-disable', 'ext-adv-disable-all',
             'set-ext-adv-params', 'set-ext-adv-params', 'set-adv-set-random-address', 'remove-advertising-set',
             'clear-advertising-sets', 'ext-adv-data', 'ext-scan-response-data', 'periodic-adv-params', 'periodic-adv-data',
             'periodic-adv-enable', 'legacy-adv-params', 'legacy-adv-enable', 'legacy-adv-disable', 'legacy-adv-data',
             'scan-enable', 'scan-disable', 'ext-scan-enable', 'ext-scan-disable', 'le-create-connection',
             'le-create-connection-cancel', 'filter-accept-list-add', 'filter-accept-list-remove', 'filter-accept-list-clear',
             'set-random-address', 'remove-cig', 'create-cis', 'accept-cis', 'reject-cis', 'setup-iso-data-path',
             'remove-iso-data-path', 'terminate-big', 'create-big', 'disconnect', 'le-read-remote-features',
             'ltk-request-reply', 'set-data-length', 'periodic-sync-cancel', 'periodic-sync-terminate', 'resolving-list-clear'])[0]

    def build(op, h, st):
        upd = None
        if op in ('ext-adv-enable', 'ext-adv-enable-two'):
            hs = [h] if op == 'ext-adv-enable' else rng.sample(handles, 2)
            cls = '+'.join(sorted({state_of(x) for x in hs}))
            cmd = hci.HCI_LE_Set_Extended_Advertising_Enable_Command(
                enable=1, advertising_handles=hs, durations=[rng.choice([0, 0, 100])] * len(hs),
                max_extended_advertising_events=[0] * len(hs))

            def upd(status):
                for x in hs:
                    if x in sets:
                        sets[x]['enabled'] = True
            for x in hs:
                r.ev('advstate_enable_' + state_of(x).replace('-', '_'))
            return 'ext-adv-enable', cls, cmd, upd
        if op == 'ext-adv-disable':
            cmd = hci.HCI_LE_Set_Extended_Advertising_Enable_Command(enable=0, advertising_handles=[h], durations=[0],
                                                                     max_extended_advertising_events=[0])
            r.ev('advstate_disable_' + st.replace('-', '_'))
            return op, st, cmd, lambda status: sets.get(h, {}).update(enabled=False) if h in sets else None
        if op == 'ext-adv-disable-all':
            cmd = hci.HCI_LE_Set_Extended_Advertising_Enable_Command(enable=0, advertising_handles=[], durations=[],
                                                                     max_extended_advertising_events=[])
            return op, 'no-sets' if not sets else 'some-sets', cmd, lambda status: [s.update(enabled=False) for s in sets.values()]
        if op == 'set-ext-adv-params':
            own = rng.choice([0, 1, 1, 1, 2, 3])

            def upd(status):
                sets.setdefault(h, {'own': None, 'addr': False, 'enabled': False})['own'] = own
                removed.discard(h)
            return op, st, params_cmd(h, own), upd
        if op == 'set-adv-set-random-address':
            cmd = hci.HCI_LE_Set_Advertising_Set_Random_Address_Command(
                advertising_handle=h, random_address=hci.Address(f'C{h & 7}:0{h & 7}:11:22:33:F{h & 7}', hci.Address.RANDOM_DEVICE_ADDRESS))

            def upd(status):
                sets.setdefault(h, {'own': None, 'addr': False, 'enabled': False})['addr'] = True
                removed.discard(h)
            return op, st, cmd, upd
        if op == 'remove-advertising-set':
            def upd(status):
                if sets.pop(h, None) is not None:
                    removed.add(h)
            return op, st, hci.HCI_LE_Remove_Advertising_Set_Command(advertising_handle=h), upd
        if op == 'clear-advertising-sets':
            def upd(status):
                removed.update(sets)
                sets.clear()
            cls = 'some-enabled' if any(s['enabled'] for s in sets.values()) else 'none-enabled'
            return op, cls, hci.HCI_LE_Clear_Advertising_Sets_Command(), upd
        if op == 'ext-adv-data':
            return op, st, hci.HCI_LE_Set_Extended_Advertising_Data_Command(
                advertising_handle=h, operation=rng.choice([0, 1, 2, 3, 4]), fragment_preference=0,
                advertising_data=bytes(rng.choice([0, 5, 31]))), None
        if op == 'ext-scan-response-data':
            return op, st, hci.HCI_LE_Set_Extended_Scan_Response_Data_Command(
                advertising_handle=h, operation=rng.choice([0, 1, 2, 3]), fragment_preference=0,
                scan_response_data=bytes(rng.choice([0, 5, 31]))), None
        if op == 'periodic-adv-params':
            return op, st, hci.HCI_LE_Set_Periodic_Advertising_Parameters_Command(
                advertising_handle=h, periodic_advertising_interval_min=80, periodic_advertising_interval_max=80,
                periodic_advertising_properties=0), None
        if op == 'periodic-adv-data':
            return op, st, hci.HCI_LE_Set_Periodic_Advertising_Data_Command(advertising_handle=h, operation=rng.choice([0, 1, 2, 3]),
                                                                         advertising_data=bytes(rng.choice([0, 7]))), None
        if op == 'periodic-adv-enable':
            return op, st, hci.HCI_LE_Set_Periodic_Advertising_Enable_Command(enable=rng.choice([0, 1]), advertising_handle=h), None
        if op == 'legacy-adv-params':
            return op, 'advertising' if legacy['enabled'] else 'idle', hci.HCI_LE_Set_Advertising_Parameters_Command(
                advertising_interval_min=rng.choice([32, 160]), advertising_interval_max=160, advertising_type=rng.choice([0, 0, 2, 3]),
                own_address_type=rng.choice([0, 1, 2, 3]), peer_address_type=0, peer_address=hci.Address.ANY,
                advertising_channel_map=7, advertising_filter_policy=0), lambda status: legacy.update(params=True)
        if op in ('legacy-adv-enable', 'legacy-adv-disable'):
            en = op == 'legacy-adv-enable'
            cls = 'advertising' if legacy['enabled'] else 'idle'
            if en and not legacy['params']:
                # no LE Set Advertising Parameters yet: the virtual controller then advertises with a zero interval,
                # which keeps the link busy for ever; the advertiser is disabled again by the next command
                cls += '-without-parameters'
                forced.append('legacy-adv-disable')
            r.ev(f'advstate_{op}_{cls}'.replace('-', '_'))
            return op, cls, hci.HCI_LE_Set_Advertising_Enable_Command(advertising_enable=int(en)), lambda status: legacy.update(enabled=en)
        if op == 'legacy-adv-data':
            return op, 'advertising' if legacy['enabled'] else 'idle', hci.HCI_LE_Set_Advertising_Data_Command(
                advertising_data=bytes(rng.choice([0, 31]))), None
        if op in ('scan-enable', 'scan-disable', 'ext-scan-enable', 'ext-scan-disable'):
            en = op.endswith('enable')
            cls = 'scanning' if legacy['scan'] else 'idle'
            if op.startswith('ext'):
                cmd = hci.HCI_LE_Set_Extended_Scan_Enable_Command(enable=int(en), filter_duplicates=0, duration=0, period=0)
            else:
                cmd = hci.HCI_LE_Set_Scan_Enable_Command(le_scan_enable=int(en), filter_duplicates=rng.choice([0, 1]))
            return op, cls, cmd, lambda status: legacy.update(scan=en)
        if op == 'le-create-connection':
            cls = 'already-pending' if legacy['connecting'] else 'idle'
            return op, cls, create_connection_cmd(), lambda status: legacy.update(connecting=True) if status == 0 else None
        if op == 'le-create-connection-cancel':
            cls = 'pending' if legacy['connecting'] else 'nothing-pending'
            r.ev('advstate_cancel_' + cls.replace('-', '_'))
            return op, cls, hci.HCI_LE_Create_Connection_Cancel_Command(), lambda status: legacy.update(connecting=False)
        if op in ('filter-accept-list-add', 'filter-accept-list-remove'):
            a = rng.choice([absent, rg.devices[1].random_address])
            cls = 'listed' if bytes(a) in legacy['fal'] else 'not-listed'
            if op.endswith('add'):
                return op, cls, hci.HCI_LE_Add_Device_To_Filter_Accept_List_Command(address_type=1, address=a), \
                    lambda status: legacy['fal'].add(bytes(a))
            return op, cls, hci.HCI_LE_Remove_Device_From_Filter_Accept_List_Command(address_type=1, address=a), \
                lambda status: legacy['fal'].discard(bytes(a))
        if op == 'filter-accept-list-clear':
            return op, 'any', hci.HCI_LE_Clear_Filter_Accept_List_Command(), lambda status: legacy['fal'].clear()
        if op == 'set-random-address':
            cls = 'advertising-or-scanning' if legacy['enabled'] or legacy['scan'] or legacy['connecting'] else 'idle'
            return op, cls, hci.HCI_LE_Set_Random_Address_Command(random_address=rg.devices[0].random_address), None
        # families whose object (CIG, CIS, BIG, sync, connection) does not exist
        nothing = 'no-such-object'
        hh = rng.choice([0x0001, 0x0010, 0x0EFF])
        if op == 'remove-cig':
            return op, nothing, hci.HCI_LE_Remove_CIG_Command(cig_id=rng.choice([0, 1, 0xEF])), None
        if op == 'create-cis':
            return op, nothing, hci.HCI_LE_Create_CIS_Command(cis_connection_handle=[hh], acl_connection_handle=[hh ^ 1]), None
        if op == 'accept-cis':
            return op, nothing, hci.HCI_LE_Accept_CIS_Request_Command(connection_handle=hh), None
        if op == 'reject-cis':
            return op, nothing, hci.HCI_LE_Reject_CIS_Request_Command(connection_handle=hh, reason=0x0D), None
        if op == 'setup-iso-data-path':
            return op, nothing, hci.HCI_LE_Setup_ISO_Data_Path_Command(
                connection_handle=hh, data_path_direction=rng.choice([0, 1]), data_path_id=0,
                codec_id=hci.CodingFormat(hci.CodecID.TRANSPARENT), controller_delay=0, codec_configuration=b''), None
        if op == 'remove-iso-data-path':
            return op, nothing, hci.HCI_LE_Remove_ISO_Data_Path_Command(connection_handle=hh, data_path_direction=rng.choice([1, 2, 3])), None
        if op == 'terminate-big':
            return op, nothing, hci.HCI_LE_Terminate_BIG_Command(big_handle=rng.choice([0, 1, 0xEF]), reason=0x16), None
        if op == 'create-big':
            return op, st, hci.HCI_LE_Create_BIG_Command(
                big_handle=1, advertising_handle=h, num_bis=1, sdu_interval=10000, max_sdu=100, max_transport_latency=10, rtn=2,
                phy=1, packing=0, framing=0, encryption=0, broadcast_code=bytes(16)), None
        if op == 'disconnect':
            return op, nothing, hci.HCI_Disconnect_Command(connection_handle=hh, reason=0x13), None
        if op == 'le-read-remote-features':
            return op, nothing, hci.HCI_LE_Read_Remote_Features_Command(connection_handle=hh), None
        if op == 'ltk-request-reply':
            return op, nothing, hci.HCI_LE_Long_Term_Key_Request_Reply_Command(connection_handle=hh, long_term_key=bytes(16)), None
        if op == 'set-data-length':
            return op, nothing, hci.HCI_LE_Set_Data_Length_Command(connection_handle=hh, tx_octets=27, tx_time=328), None
        if op == 'periodic-sync-cancel':
            return op, nothing, hci.HCI_LE_Periodic_Advertising_Create_Sync_Cancel_Command(), None
        if op == 'periodic-sync-terminate':
            return op, nothing, hci.HCI_LE_Periodic_Advertising_Terminate_Sync_Command(sync_handle=hh), None
        return 'resolving-list-clear', 'any', hci.HCI_LE_Clear_Resolving_List_Command(), None

    def ctx():
        return f'{capability}; commands so far {trace[-12:]}'

    blocked = False
    labels = []
    for h in handles:
        how = rng.choice(['params', 'params', 'params+addr', 'params+addr', 'addr', 'none'])
        if 'params' in how:
            forced.append(('set-ext-adv-params', h))
        if 'addr' in how:
            forced.append(('set-adv-set-random-address', h))
    for h in rng.sample(handles, 2):
        forced.append(('ext-adv-enable', h))
    budget = rng.randint(8, 16)
    while forced or budget > 0:
        if not forced:
            budget -= 1
        try:
            label, cls, cmd, upd = pick()
        except Exception as ex:         # a command class this bumble does not have: not part of the family here
            r.ev('advstate_commands_unavailable')
            r.add_extra_list('advstate_unavailable', f'{type(ex).__name__}: {ex}'[:120])
            continue
        trace.append(f'{label}[{cls}]')
        labels.append((label, cls))
        mark = len(rg.hci_log)
        got = await issue_checked(r, rg, 0, cmd, f'advstate/{label}/{cls}', ctx)
        r.ev('advstate_commands')
        if got is None:
            blocked = True
            break
        kind, status, seq = got
        if kind == 'cs' and status == 0 and cmd.op_code in PROCEDURES and cmd.op_code not in OPEN_ENDED:
            name, codes = PROCEDURES[cmd.op_code]
            r.ev('pending_procedures_followed')
            ok = await wait_for_event(rg, lambda: any(e[0] > seq and e[1] == 'ev' and e[4] in codes
                                                      for e in parse_events(rg.hci_log, 0, mark)))
            r.ev('oracle_evals')
            if not ok:
                r.bad(f'conclude/never/advstate/{label}/{cls}', f'{name} answered PENDING, no completion event within T_v; {ctx()}')
        if label == 'le-create-connection-cancel' and status == 0:
            r.ev('pending_procedures_followed')
            r.ev('oracle_evals')
            if not le_connection_completes(rg.hci_log, 0, mark):
                r.bad(f'conclude/never/advstate/le-create-connection-cancelled/{cls}',
                      f'the cancel was answered with success but no LE Connection Complete concludes the attempt; {ctx()}')
        if upd is not None:
            upd(status)
    if not blocked:
        # later commands are served, also after the advertising timers ran for a while
        for phase in ('at-once', 'after-one-second'):
            if phase == 'after-one-second':
                await asyncio.sleep(1.0)
                try:
                    await rg.quiesce(max_turns=20000)
                except vloop.Hang:
                    r.ev('advstate_no_quiescence')
            for cmd in (hci.HCI_Read_BD_ADDR_Command(), hci.HCI_LE_Rand_Command()):
                if await issue_checked(r, rg, 0, cmd, f'advstate/followup/{phase}', ctx) is None:
                    blocked = True
                    break
                r.ev('advstate_followups_answered')
            if blocked:
                break
    if not blocked:
        for where, ex in rg.exceptions:
            r.bad('answer/exception-later/advstate', f'{where}: {ex}; {ctx()}')
    r.sig('advstate', tuple(labels))
    r.sched.add(rg.schedule_signature)
    r.evals()
    r.sample = {'kind': 'advstate', 'capabilities': capability, 'commands': trace[:16]}


# -----------------------------------------------------------------------------
# hist: pending procedures followed through HISTORIES (establish - tear down - establish again - fault before
# completion), issued by either role, under reduced capability sets
async def hist_case(case, r: R):
    fam = case['family']
    r.ev('hist_cases')
    if fam == 'cis':
        return await hist_cis(case, r)
    if fam == 'features':
        return await hist_features(case, r)
    if fam == 'classic':
        return await hist_classic(case, r)
    return await hist_acl(case, r)


def lose_feature_requests(rg, dev):
    """From now on the LL feature requests addressed to controller `dev` are lost on the air (the link is about to
    go away: the peer never gets to answer). Everything else, LL_TERMINATE_IND included, is delivered. Returns the
    list of lost PDUs and a function that restores the link."""
    from bumble import ll
    ctl = rg.controllers[dev]
    inner = ctl.on_ll_control_pdu
    lost = []

    def on_pdu(sender, packet):
        if isinstance(packet, (ll.FeatureReq, ll.PeripheralFeatureReq)):
            lost.append(packet)
        else:
            inner(sender, packet)
    ctl.on_ll_control_pdu = on_pdu

    def restore():
        ctl.on_ll_control_pdu = inner
    return lost, restore


async def hist_features(case, r: R):
    from bumble import hci
    from vlib import rig as vrig
    rng = random.Random(case['seed'] ^ 0xFEA7)
    vrig.seed_entropy(case['seed'])
    delay = rng.choice([0, 0, 1, 3])
    rg = vrig.Rig(2, seed=case['seed'], max_delay=delay)
    capability = apply_capability(rg, case.get('cap'))
    await rg.power_on()
    r.ev('hist_feature_histories')
    if case.get('cap'):
        r.ev('hist_reduced_capability_sets')
    hist = []

    def ctx():
        return f'{capability}; history {hist}'

    role = case['role']                 # role of device 0 on the first connection; 'alternating' swaps it every round
    rounds = rng.choice([2, 2, 3])
    fault = rng.choice(['none', 'peer-drops-acl-mid-procedure', 'local-drops-acl-mid-procedure', 'peer-drops-acl-mid-procedure'])
    procs = {
        'le-read-remote-features': (lambda h: hci.HCI_LE_Read_Remote_Features_Command(connection_handle=h), {('le', 0x04)}),
        'le-enable-encryption': (lambda h: hci.HCI_LE_Enable_Encryption_Command(
            connection_handle=h, random_number=bytes(8), encrypted_diversifier=0, long_term_key=bytes(16)), {0x08, 0x59, 0x30}),
        'le-subrate-request': (lambda h: hci.HCI_LE_Subrate_Request_Command(
            connection_handle=h, subrate_min=1, subrate_max=2, max_latency=2, continuation_number=1, supervision_timeout=200),
            {('le', 0x23)}),
        'read-remote-version': (lambda h: hci.HCI_Read_Remote_Version_Information_Command(connection_handle=h), {0x0C}),
        'le-connection-update': (lambda h: hci.HCI_LE_Connection_Update_Command(
            connection_handle=h, connection_interval_min=12, connection_interval_max=24, max_latency=0, supervision_timeout=72,
            min_ce_length=0, max_ce_length=0), {('le', 0x03)}),
        'le-set-phy': (lambda h: hci.HCI_LE_Set_PHY_Command(connection_handle=h, all_phys=0, tx_phys=1, rx_phys=1, phy_options=0),
                       {('le', 0x0C)}),
    }

    async def run_proc(name, dev, handle, my_role, hclass):
        """Issue `name` through host `dev`; a PENDING answer is followed to the completion event for `handle`."""
        mk, codes = procs[name]
        mark = len(rg.hci_log)
        key = f'hist/{name}/by-{my_role}/{hclass}'
        got = await issue_checked(r, rg, dev, mk(handle), key, ctx, foreign=False)
        if got is None:
            return False
        kind, status, seq = got
        hist.append((name, f'by-{my_role}', f'status {status}'))
        if kind != 'cs' or status != 0:
            r.ev('hist_procedures_refused')
            return True
        r.ev('pending_procedures_followed')
        r.ev('hist_procedures_followed')
        r.ev(f'hist_procedures_by_{my_role}')
        if case.get('cap'):
            r.ev(f'hist_procedures_by_{my_role}_reduced_capabilities')
        ok = await wait_for_event(rg, lambda: any(e[0] > seq and e[1] in codes and e[3] == handle
                                                  for e in completions(rg.hci_log, dev, mark)))
        r.ev('oracle_evals')
        if not ok:
            r.bad(f'conclude/never/{key}',
                  f'{name} for handle {handle:#06x} issued by the {my_role} was answered PENDING; no completion event '
                  f'{sorted(map(str, codes))} for that handle within T_v; {ctx()}')
        return True

    try:
        for rnd in range(rounds):
            my_role = role if role != 'alternating' else ('central', 'peripheral')[rnd % 2]
            if my_role == 'central':
                mine, theirs = await rg.connect_le(0, 1)
            else:
                theirs, mine = await rg.connect_le(1, 0)
            await rg.quiesce()
            hist.append(('connected', f'device-0-is-{my_role}'))
            hclass = 'first-connection' if rnd == 0 else \
                'after-reconnection-roles-swapped' if role == 'alternating' else 'after-reconnection'
            if rnd:
                r.ev('hist_procedures_after_reconnection_rounds')
            last = rnd == rounds - 1
            names = rng.sample(sorted(procs), rng.choice([2, 3, 4]))
            if 'le-read-remote-features' not in names:
                names[rng.randrange(len(names))] = 'le-read-remote-features'
            for name in names:
                # (from either end: the procedure under test is issued by device 0 in its role, and sometimes by its peer)
                if not await run_proc(name, 0, mine.handle, my_role, hclass):
                    return
                if rng.random() < 0.5:
                    peer_role = 'peripheral' if my_role == 'central' else 'central'
                    if not await run_proc(name, 1, theirs.handle, peer_role, hclass):
                        return
            if last and fault != 'none':
                # the request is on the air, the peer has not answered yet, and the ACL connection goes away
                held, release = lose_feature_requests(rg, 1)
                mark = len(rg.hci_log)
                key = 'hist/le-read-remote-features/acl-lost-mid-procedure'
                got = await issue_checked(r, rg, 0, hci.HCI_LE_Read_Remote_Features_Command(connection_handle=mine.handle),
                                          key, ctx, foreign=False)
                if got is None:
                    release()
                    return
                hist.append(('le-read-remote-features', f'by-{my_role}', f'status {got[1]}', fault))
                dropper = theirs if fault.startswith('peer') else mine
                await vloop.vwait(dropper.disconnect())
                await rg.quiesce()
                release()
                await rg.quiesce()
                if got[0] == 'cs' and got[1] == 0 and held:
                    r.ev('pending_procedures_followed')
                    r.ev('hist_faults_mid_procedure')
                    ok = await wait_for_event(rg, lambda: any(e[0] > got[2] and e[1] == ('le', 0x04) and e[3] == mine.handle
                                                              for e in completions(rg.hci_log, 0, mark)), 60)
                    r.ev('oracle_evals')
                    if not ok:
                        r.bad(f'conclude/never/{key}',
                              f'LE Read Remote Features for handle {mine.handle:#06x} issued by the {my_role} was answered PENDING, '
                              f'then the ACL connection went away ({fault}) before the peer answered: no LE Read Remote Features Complete '
                              f'(with an error status) follows; events for the handle: '
                              f'{[(str(e[1]), e[2]) for e in completions(rg.hci_log, 0, mark) if e[3] == mine.handle]}; {ctx()}')
                break
            # tear down by either side
            by = rng.choice(['device-0', 'device-1'])
            await vloop.vwait((mine if by == 'device-0' else theirs).disconnect())
            await rg.quiesce()
            hist.append(('disconnected', f'by-{by}'))
    except vloop.Hang:
        r.bad('hang/hist/features', f'a connect() / disconnect() of the scenario was still pending at T_v; {ctx()}')
    for where, ex in rg.exceptions:
        r.bad('answer/exception-later/hist/features', f'{where}: {ex}; {ctx()}')
    r.sig('hist-features', role, str(case.get('cap')), tuple(h[:2] for h in hist), fault)
    r.sched.add(rg.schedule_signature)
    r.evals()
    r.sample = {'kind': 'hist', 'family': 'features', 'capabilities': capability, 'history': [list(map(str, h)) for h in hist][:10]}


async def hist_classic(case, r: R):
    """BR/EDR: remote feature / name reads and role switches issued by the initiator and by the acceptor of a
    connection, again after disconnection and reconnection (same or swapped direction), finally a feature read whose
    request is lost on the air while the ACL connection goes away."""
    from bumble import hci, lmp
    from vlib import rig as vrig
    rng = random.Random(case['seed'] ^ 0xC1A5)
    vrig.seed_entropy(case['seed'])
    rg = vrig.Rig(2, seed=case['seed'], max_delay=rng.choice([0, 0, 1, 3]), classic=True)
    capability = apply_capability(rg, case.get('cap'))
    await rg.power_on()
    r.ev('hist_classic_histories')
    hist = []

    def ctx():
        return f'{capability}; history {hist}'

    role = case['role']         # 'central' = device 0 initiates the connection
    peer_addr = {0: rg.devices[1].public_address, 1: rg.devices[0].public_address}
    procs = {
        'read-remote-supported-features': (lambda d, h: hci.HCI_Read_Remote_Supported_Features_Command(connection_handle=h), {0x0B}, True),
        'read-remote-extended-features': (lambda d, h: hci.HCI_Read_Remote_Extended_Features_Command(
            connection_handle=h, page_number=rng.choice([0, 1, 2])), {0x23}, True),
        'read-remote-version': (lambda d, h: hci.HCI_Read_Remote_Version_Information_Command(connection_handle=h), {0x0C}, True),
        'remote-name-request': (lambda d, h: hci.HCI_Remote_Name_Request_Command(
            bd_addr=peer_addr[d], page_scan_repetition_mode=2, reserved=0, clock_offset=0), {0x07}, False),
        'switch-role': (lambda d, h: hci.HCI_Switch_Role_Command(bd_addr=peer_addr[d], role=rng.choice([0, 1])), {0x12}, False),
    }

    async def run_proc(name, dev, handle, my_role, hclass):
        mk, codes, by_handle = procs[name]
        mark = len(rg.hci_log)
        key = f'hist/{name}/by-{my_role}/{hclass}'
        got = await issue_checked(r, rg, dev, mk(dev, handle), key, ctx, foreign=False)
        if got is None:
            return False
        kind, status, seq = got
        hist.append((name, f'by-{my_role}', f'status {status}'))
        if kind != 'cs' or status != 0:
            r.ev('hist_procedures_refused')
            return True
        r.ev('pending_procedures_followed')
        r.ev('hist_procedures_followed')
        r.ev(f'hist_classic_procedures_by_{my_role}')

        def concluded():
            if by_handle:
                return any(e[0] > seq and e[1] in codes and e[3] == handle for e in completions(rg.hci_log, dev, mark))
            return any(e[0] > seq and e[1] == 'ev' and e[4] in codes for e in parse_events(rg.hci_log, dev, mark))
        ok = await wait_for_event(rg, concluded)
        r.ev('oracle_evals')
        if not ok:
            r.bad(f'conclude/never/{key}', f'{name} issued by the {my_role} (handle {handle:#06x}) was answered PENDING; no completion '
                                           f'event {sorted(map(str, codes))} within T_v; {ctx()}')
        return True

    rounds = rng.choice([2, 2, 3])
    fault = rng.choice(['none', 'peer-drops-acl-mid-procedure', 'local-drops-acl-mid-procedure'])
    try:
        for rnd in range(rounds):
            my_role = role if role != 'alternating' else ('central', 'peripheral')[rnd % 2]
            if my_role == 'central':
                mine, theirs = await rg.connect_classic(0, 1)
            else:
                theirs, mine = await rg.connect_classic(1, 0)
            await rg.quiesce()
            hist.append(('connected', f'device-0-is-{"initiator" if my_role == "central" else "acceptor"}'))
            hclass = 'first-connection' if rnd == 0 else \
                'after-reconnection-roles-swapped' if role == 'alternating' else 'after-reconnection'
            for name in rng.sample(sorted(procs), rng.choice([2, 3, 4])):
                if not await run_proc(name, 0, mine.handle, my_role, hclass):
                    return
                if rng.random() < 0.4:
                    if not await run_proc(name, 1, theirs.handle, 'peripheral' if my_role == 'central' else 'central', hclass):
                        return
            if rnd == rounds - 1 and fault != 'none':
                ctl = rg.controllers[1]
                inner = ctl.on_lmp_packet
                lost = []
                ctl.on_lmp_packet = lambda sender, packet: lost.append(packet) \
                    if isinstance(packet, (lmp.LmpFeaturesReq, lmp.LmpFeaturesReqExt)) else inner(sender, packet)
                mark = len(rg.hci_log)
                key = 'hist/read-remote-features-bredr/acl-lost-mid-procedure'
                which = rng.choice(['read-remote-supported-features', 'read-remote-extended-features'])
                code = 0x0B if which.endswith('supported-features') else 0x23
                got = await issue_checked(r, rg, 0, procs[which][0](0, mine.handle), key, ctx, foreign=False)
                if got is None:
                    ctl.on_lmp_packet = inner
                    return
                hist.append((which, f'by-{my_role}', f'status {got[1]}', fault))
                await vloop.vwait((theirs if fault.startswith('peer') else mine).disconnect())
                await rg.quiesce()
                ctl.on_lmp_packet = inner
                if got[0] == 'cs' and got[1] == 0 and lost:
                    r.ev('pending_procedures_followed')
                    r.ev('hist_faults_mid_procedure')
                    r.ev('hist_classic_faults_mid_procedure')
                    ok = await wait_for_event(rg, lambda: any(e[0] > got[2] and e[1] == code and e[3] == mine.handle
                                                              for e in completions(rg.hci_log, 0, mark)), 60)
                    r.ev('oracle_evals')
                    if not ok:
                        r.bad(f'conclude/never/{key}',
                              f'{which} for handle {mine.handle:#06x} issued by the {my_role} was answered PENDING, then the ACL '
                              f'connection went away ({fault}) before the peer answered: no completion event {code:#04x} for '
                              f'the handle follows; {ctx()}')
                break
            await vloop.vwait(rng.choice([mine, theirs]).disconnect())
            await rg.quiesce()
            hist.append(('disconnected',))
    except vloop.Hang:
        r.bad('hang/hist/classic', f'a connect() / disconnect() of the scenario was still pending at T_v; {ctx()}')
    for where, ex in rg.exceptions:
        r.bad('answer/exception-later/hist/classic', f'{where}: {ex}; {ctx()}')
    r.sig('hist-classic', role, str(case.get('cap')), tuple(h[:2] for h in hist), fault)
    r.sched.add(rg.schedule_signature)
    r.evals()
    r.sample = {'kind': 'hist', 'family': 'classic', 'capabilities': capability, 'history': [list(map(str, h)) for h in hist][:10]}


def cis_requests(log, dev, start):
    """(seq, acl handle, cis handle, cig id, cis id) of the LE CIS Request events of controller `dev`."""
    out = []
    for seq, d, direction, pkt, _t in log[start:]:
        if d == dev and direction == 'c2h' and pkt[0] == 4 and pkt[1] == 0x3E and len(pkt) >= 10 and pkt[3] == 0x1A:
            out.append((seq, (pkt[4] | pkt[5] << 8) & 0x0FFF, (pkt[6] | pkt[7] << 8) & 0x0FFF, pkt[8], pkt[9]))
    return out


async def hist_cis(case, r: R):
    """One CIS handle used several times: created, accepted, disconnected, created again, and the ACL connection
    lost (by either side) while the peer's host has not answered the request."""
    from bumble import hci
    from vlib import rig as vrig
    rng = random.Random(case['seed'] ^ 0xC15)
    vrig.seed_entropy(case['seed'])
    delay = rng.choice([0, 0, 1, 3])
    rg = vrig.Rig(2, seed=case['seed'], max_delay=delay)
    capability = apply_capability(rg, case.get('cap'))
    await rg.power_on()
    r.ev('hist_cis_histories')
    hist = []

    def ctx():
        return f'{capability}; history {hist}'

    try:
        cc, pc = await rg.connect_le(0, 1)
        await rg.quiesce()
        ids = rng.sample([0, 1, 2, 5, 0xEF], rng.choice([1, 1, 2]))
        n = len(ids)
        got = None
        mark = len(rg.hci_log)
        try:
            rp = await vloop.vwait(rg.hosts[0].send_sync_command(hci.HCI_LE_Set_CIG_Parameters_Command(
                cig_id=rng.choice([0, 1, 3]), sdu_interval_c_to_p=10000, sdu_interval_p_to_c=10000, worst_case_sca=0, packing=0,
                framing=0, max_transport_latency_c_to_p=10, max_transport_latency_p_to_c=10, cis_id=list(ids),
                max_sdu_c_to_p=[100] * n, max_sdu_p_to_c=[100] * n, phy_c_to_p=[1] * n, phy_p_to_c=[1] * n, rtn_c_to_p=[1] * n,
                rtn_p_to_c=[1] * n)), 120)
            handles = list(rp.connection_handle)
        except Exception as ex:
            r.ev('cig_setup_refused')
            r.add_extra_list('cig_errors', f'{type(ex).__name__}: {ex}')
            return
        hist.append(('set-cig', [hex(h) for h in handles]))
        hclass = 'first-create'
        rounds = rng.choice([2, 3, 3, 4])
        for rnd in range(rounds):
            last = rnd == rounds - 1
            what = rng.choice(['accept', 'accept', 'peer-drops-acl-before-accept', 'local-drops-acl-before-accept']
                              if rnd else ['accept', 'accept', 'accept', 'peer-drops-acl-before-accept'])
            use = rng.sample(handles, rng.randint(1, len(handles)))
            mark = len(rg.hci_log)
            key = f'hist/cis/{hclass}/{what}'
            got = await issue_checked(r, rg, 0, hci.HCI_LE_Create_CIS_Command(
                cis_connection_handle=use, acl_connection_handle=[cc.handle] * len(use)), key, ctx, foreign=False)
            if got is None:
                return
            hist.append(('create-cis', [hex(h) for h in use], f'status {got[1]}', hclass))
            if got[0] != 'cs' or got[1] != 0:
                r.ev('cis_create_refused')
                return
            r.ev('pending_procedures_followed')
            r.ev('hist_cis_creates_followed')
            if rnd:
                r.ev('hist_cis_created_again')
            reqs = cis_requests(rg.hci_log, 1, mark)
            if what == 'accept':
                for _seq, _acl, ph, _cig, _cis in reqs:
                    m2 = len(rg.hci_log)
                    a = await issue_checked(r, rg, 1, hci.HCI_LE_Accept_CIS_Request_Command(connection_handle=ph),
                                            f'hist/cis-accept/{hclass}', ctx, foreign=False)
                    if a is None:
                        return
                    if a[0] == 'cs' and a[1] == 0:
                        r.ev('pending_procedures_followed')
                        r.ev('cis_accepts_followed')
                        ok = await wait_for_event(rg, lambda: any(e[2] == ph and e[0] > a[2]
                                                                  for e in cis_established_events(rg.hci_log, 1, m2)), 60)
                        r.ev('oracle_evals')
                        if not ok:
                            r.bad(f'conclude/never/hist/cis-accept/{hclass}',
                                  f'LE Accept CIS Request for {ph:#06x} answered PENDING, no LE CIS Established for it; {ctx()}')
            else:
                r.ev('hist_cis_acl_lost_before_accept')
                if rnd:
                    r.ev('hist_cis_created_again_acl_lost_before_accept')
                dropper = pc if what.startswith('peer') else cc
                await vloop.vwait(dropper.disconnect())
                await rg.quiesce()
                hist.append(('acl-disconnected', what))
            # every CIS handle accepted as pending is concluded by an LE CIS Established event carrying it
            await wait_for_event(rg, lambda: all(any(e[2] == h and e[0] > got[2] for e in cis_established_events(rg.hci_log, 0, mark))
                                                 for h in use), 60 if what != 'accept' or reqs else 10)
            evs = [e for e in cis_established_events(rg.hci_log, 0, mark) if e[0] > got[2]]
            established = []
            for h in use:
                r.ev('cis_handles_followed')
                r.ev('oracle_evals')
                mine = [e for e in evs if e[2] == h]
                if not mine:
                    others = [(str(e[1]), hex(e[3])) for e in completions(rg.hci_log, 0, mark)]
                    r.bad(f'conclude/never/{key}',
                          f'LE Create CIS for {[hex(x) for x in use]} was answered PENDING ({what}); no LE CIS Established event '
                          f'carries handle {h:#06x}; other completion events of the central: {others}; {ctx()}')
                    return
                if len(mine) > 1:
                    r.bad(f'conclude/twice/{key}', f'{len(mine)} LE CIS Established events for {h:#06x}; {ctx()}')
                if what != 'accept':
                    r.ev('oracle_evals')
                    if mine[0][1] == 0:
                        r.bad(f'conclude/success-without-peer/{key}',
                              f'LE CIS Established reports SUCCESS for {h:#06x} although the ACL connection went away before the '
                              f'peer accepted; {ctx()}')
                elif mine[0][1] == 0:
                    established.append(h)
            if last:
                break
            if what == 'accept':
                # tear the CIS down: Disconnect by either side, or the ACL connection goes away under it
                how = rng.choice(['central-disconnects-cis', 'peripheral-disconnects-cis', 'acl-lost'])
                if how == 'acl-lost' or not established:
                    await vloop.vwait(rng.choice([cc, pc]).disconnect())
                    await rg.quiesce()
                    hist.append(('acl-disconnected', 'with-cis-up'))
                    hclass = 'created-again-after-acl-loss'
                    cc, pc = await rg.connect_le(0, 1)
                    await rg.quiesce()
                    hist.append(('acl-connected-again',))
                else:
                    for h in established:
                        m3 = len(rg.hci_log)
                        if how.startswith('central'):
                            dev, dh = 0, h
                        else:
                            ph = [q[2] for q in reqs if (q[3], q[4]) in {(c[3], c[4]) for c in reqs}]
                            # the peripheral's handle of this CIS: the request for the same position in the command
                            idx = use.index(h)
                            dev, dh = 1, (reqs[idx][2] if idx < len(reqs) else None)
                            if dh is None:
                                dev, dh = 0, h
                        d = await issue_checked(r, rg, dev, hci.HCI_Disconnect_Command(connection_handle=dh, reason=0x13),
                                                f'hist/cis-disconnect/{how}', ctx, foreign=False)
                        if d is None:
                            return
                        if d[0] == 'cs' and d[1] == 0:
                            r.ev('pending_procedures_followed')
                            ok = await wait_for_event(rg, lambda: any(e[2] == dh and e[0] > d[2]
                                                                      for e in disconnection_events(rg.hci_log, dev, m3)), 60)
                            r.ev('oracle_evals')
                            if not ok:
                                r.bad(f'conclude/never/hist/cis-disconnect/{how}',
                                      f'Disconnect for the established CIS {dh:#06x} answered PENDING, no Disconnection Complete; {ctx()}')
                        hist.append(('cis-disconnected', hex(h), how))
                    await rg.quiesce()
                    hclass = 'created-again-after-cis-disconnect'
            else:
                hclass = 'created-again-after-acl-loss'
                cc, pc = await rg.connect_le(0, 1)
                await rg.quiesce()
                hist.append(('acl-connected-again',))
    except vloop.Hang:
        r.bad('hang/hist/cis', f'a connect() / disconnect() of the scenario was still pending at T_v; {ctx()}')
    for where, ex in rg.exceptions:
        if where.startswith('c2h'):
            r.ev('host_side_exceptions_ignored')    # raw CIS commands behind the Devices' backs
            continue
        r.bad('answer/exception-later/hist/cis', f'{where}: {ex}; {ctx()}')
    r.sig('hist-cis', str(case.get('cap')), tuple(h[0] + ':' + str(h[-1]) for h in hist))
    r.sched.add(rg.schedule_signature)
    r.evals()
    r.sample = {'kind': 'hist', 'family': 'cis', 'capabilities': capability, 'history': [list(map(str, h)) for h in hist][:10]}


async def hist_acl(case, r: R):
    """LE connection creation by raw commands, several times between the same two controllers: created, disconnected
    (by either side), created again while the peer is silent (cancelled), created again when it advertises."""
    from bumble import hci
    from vlib import rig as vrig
    rng = random.Random(case['seed'] ^ 0xAC1)
    vrig.seed_entropy(case['seed'])
    delay = rng.choice([0, 0, 1, 3])
    rg = vrig.Rig(2, seed=case['seed'], max_delay=delay)
    capability = apply_capability(rg, case.get('cap'))
    ext = rng.random() < 0.4
    if ext:
        rg.controllers[0].le_features = rg.controllers[0].le_features | hci.LeFeatureMask.LE_EXTENDED_ADVERTISING
    await rg.power_on()
    r.ev('hist_acl_histories')
    hist = []
    peer = rg.devices[1]
    pub = rng.random() < 0.3

    def ctx():
        return f'{capability}; history {hist}'

    def create_cmd():
        target = peer.public_address if pub else peer.random_address
        if ext:
            return hci.HCI_LE_Extended_Create_Connection_Command(
                initiator_filter_policy=0, own_address_type=rng.choice([0, 1]), peer_address_type=target.address_type & 1,
                peer_address=target, initiating_phys=1, scan_intervals=[96], scan_windows=[96], connection_interval_mins=[12],
                connection_interval_maxs=[24], max_latencies=[0], supervision_timeouts=[72], min_ce_lengths=[0], max_ce_lengths=[0])
        return hci.HCI_LE_Create_Connection_Command(
            le_scan_interval=96, le_scan_window=96, initiator_filter_policy=0, peer_address_type=target.address_type & 1,
            peer_address=target, own_address_type=rng.choice([0, 1]), connection_interval_min=12, connection_interval_max=24,
            max_latency=0, supervision_timeout=72, min_ce_length=0, max_ce_length=0)

    async def advertise():
        await vloop.vwait(peer.start_advertising(
            auto_restart=False, own_address_type=hci.OwnAddressType.PUBLIC if pub else hci.OwnAddressType.RANDOM,
            advertising_interval_min=40, advertising_interval_max=40))

    hclass = 'first-create'
    try:
        for rnd in range(rng.choice([2, 3, 4])):
            what = rng.choice(['peer-advertises', 'peer-advertises', 'peer-silent-cancel', 'peer-advertises-late'])
            if what == 'peer-advertises':
                await advertise()
            mark = len(rg.hci_log)
            key = f'hist/le-create-connection/{hclass}/{what}'
            got = await issue_checked(r, rg, 0, create_cmd(), key, ctx, foreign=False)
            if got is None:
                return
            hist.append(('le-create-connection', what, f'status {got[1]}', hclass))
            if got[0] != 'cs' or got[1] != 0:
                r.ev('oracle_evals')
                r.bad(f'conclude/blocked/{key}', f'LE Create Connection was refused with status {got[1]} although no attempt is '
                                                 f'pending and no connection to that peer exists; {ctx()}')
                return
            r.ev('pending_procedures_followed')
            r.ev('hist_acl_creates_followed')
            if rnd:
                r.ev('hist_acl_created_again')
            if what == 'peer-silent-cancel':
                await asyncio.sleep(rng.choice([0, 1, 10]))
                c = await issue_checked(r, rg, 0, hci.HCI_LE_Create_Connection_Cancel_Command(),
                                        f'hist/le-create-connection-cancel/{hclass}', ctx, foreign=False)
                if c is None:
                    return
                await asyncio.sleep(1)
            elif what == 'peer-advertises-late':
                await asyncio.sleep(rng.choice([0, 1, 10]))
                await advertise()
            ok = await wait_for_event(rg, lambda: any(e[0] > got[2] for e in le_connection_completes(rg.hci_log, 0, mark)), 60)
            done = [e for e in le_connection_completes(rg.hci_log, 0, mark) if e[0] > got[2]]
            r.ev('oracle_evals', 2)
            if not done:
                r.bad(f'conclude/never/{key}', f'LE Create Connection answered PENDING ({what}); no LE Connection Complete event '
                                               f'follows; {ctx()}')
                return
            if len(done) > 1:
                r.bad(f'conclude/twice/{key}', f'{len(done)} LE Connection Complete events for one attempt; {ctx()}')
            if what == 'peer-silent-cancel':
                if done[0][1] == 0:
                    r.bad(f'conclude/success-without-peer/{key}', f'a cancelled attempt to a silent peer completed with SUCCESS; {ctx()}')
                hclass = 'created-again-after-cancel'
                continue
            if done[0][1] != 0:
                r.bad(f'conclude/failed-with-peer-present/{key}',
                      f'the peer advertises the requested address, LE Connection Complete carries status {done[0][1]:#x}; {ctx()}')
                return
            handle = done[0][2]
            await rg.quiesce()
            pconns = [c for c in peer.connections.values()]
            # tear down by either side, by raw Disconnect (device 0) or through the peer's Device
            m2 = len(rg.hci_log)
            by = rng.choice(['central', 'peripheral']) if pconns else 'central'
            if by == 'central':
                d = await issue_checked(r, rg, 0, hci.HCI_Disconnect_Command(connection_handle=handle, reason=0x13),
                                        f'hist/disconnect/by-central/{hclass}', ctx, foreign=False)
                if d is None:
                    return
            else:
                await vloop.vwait(pconns[0].disconnect())
            ok = await wait_for_event(rg, lambda: any(e[2] == handle for e in disconnection_events(rg.hci_log, 0, m2)), 60)
            r.ev('pending_procedures_followed')
            r.ev('oracle_evals')
            if not ok:
                r.bad(f'conclude/never/hist/disconnect/by-{by}/{hclass}',
                      f'the connection {handle:#06x} was disconnected by the {by}; the central controller never reported '
                      f'Disconnection Complete; {ctx()}')
                return
            hist.append(('disconnected', f'by-{by}'))
            hclass = 'created-again-after-disconnect'
    except vloop.Hang:
        r.bad('hang/hist/acl', f'a call of the scenario was still pending at T_v; {ctx()}')
    for where, ex in rg.exceptions:
        if where == 'c2h0':
            r.ev('host_side_exceptions_ignored')    # raw connection commands behind Device 0's back
            continue
        r.bad('answer/exception-later/hist/acl', f'{where}: {ex}; {ctx()}')
    r.sig('hist-acl', ext, pub, str(case.get('cap')), tuple(h[:2] for h in hist))
    r.sched.add(rg.schedule_signature)
    r.evals()
    r.sample = {'kind': 'hist', 'family': 'acl', 'capabilities': capability, 'history': [list(map(str, h)) for h in hist][:10]}


# -----------------------------------------------------------------------------
# hostfault / hostreset: ERROR PATHS at the hand-over of a command to the next layer
class FaultySink:
    """Sits between Host.send_hci_packet and the rig's h2c pipe. Command packets are counted in the order the host tries
    to hand them over; the ones whose index is planned are NOT handed over: an exception factory -> the write raises
    synchronously, 'lose' -> the packet silently disappears. `handed` is what the controller side actually received."""

    def __init__(self, host, inner):
        self.host = host
        self.inner = inner
        self.count = 0
        self.plan = {}
        self.handed = []      # (index, opcode, command object)
        self.failed = []      # (index, opcode, command object, exception)
        self.lost = []        # (index, opcode, command object)
        self.via_snooper = False

    def decide(self, packet):
        """None (hand over), 'lose', or an exception instance to raise."""
        i = self.count
        self.count += 1
        op = packet[1] | packet[2] << 8
        who = self.host.pending_command     # only to label which caller's command this is
        act = self.plan.pop(i, None)
        if act == 'lose':
            self.lost.append((i, op, who))
            return 'lose'
        if act is not None:
            ex = act(f'injected hand-over failure of command #{i} ({op:#06x})')
            self.failed.append((i, op, who, ex))
            return ex
        self.handed.append((i, op, who))
        return None

    # the sink protocol
    def on_packet(self, packet):
        packet = bytes(packet)
        if packet[0] == 1 and not self.via_snooper:
            act = self.decide(packet)
            if act == 'lose':
                return
            if act is not None:
                raise act
        self.inner.on_packet(packet)

    # the snooper protocol (Host.send_hci_packet calls the snooper before the sink)
    def snoop(self, packet, direction):
        if int(direction) == 0 and self.via_snooper and packet[0] == 1:
            act = self.decide(bytes(packet))
            if act is not None and act != 'lose':
                raise act


def check_alternation(r, rg, dev, start_b, prefix, ctx):
    """In the host-boundary log (commands as handed over, responses as delivered): one command outstanding at a time,
    every command handed over is answered."""
    outstanding = None
    for seq, d, direction, pkt, _t in rg.boundary_log[start_b:]:
        if d != dev:
            continue
        if direction == 'h2c' and pkt[0] == 1:
            op = pkt[1] | pkt[2] << 8
            r.ev('oracle_evals')
            if outstanding is not None:
                r.bad(f'{prefix}/two-outstanding', f'command {op:#06x} handed over while {outstanding:#06x} was unanswered; {ctx}')
            outstanding = op
        elif direction == 'c2h' and pkt[0] == 4 and pkt[1] in (0x0E, 0x0F):
            op = (pkt[4] | pkt[5] << 8) if pkt[1] == 0x0E else (pkt[5] | pkt[6] << 8)
            if outstanding is not None and op == outstanding:
                outstanding = None
            elif op != 0:
                r.ev('oracle_evals')
                r.bad(f'{prefix}/unsolicited-response', f'response for {op:#06x} while outstanding={outstanding}; {ctx}')
    r.ev('oracle_evals')
    if outstanding is not None:
        r.bad(f'{prefix}/unanswered-at-quiescence', f'command {outstanding:#06x} was handed over and never answered; {ctx}')


def host_command_makers(hci, live):
    mk = [
        lambda: hci.HCI_Read_BD_ADDR_Command(),
        lambda: hci.HCI_Read_Local_Version_Information_Command(),
        lambda: hci.HCI_Read_Local_Name_Command(),
        lambda: hci.HCI_LE_Rand_Command(),
        lambda: hci.HCI_LE_Read_Buffer_Size_Command(),
        lambda: hci.HCI_Read_Buffer_Size_Command(),
        lambda: hci.HCI_LE_Read_Local_Supported_Features_Command(),
        lambda: hci.HCI_Write_Page_Timeout_Command(page_timeout=0x2000),
        lambda: hci.HCI_Read_Loopback_Mode_Command(),
        lambda: hci.HCI_Read_Clock_Offset_Command(connection_handle=0x0EFF),   # asynchronous: Command Status
        lambda: hci.HCI_LE_Set_Random_Address_Command(random_address=hci.Address('E0:E0:E0:E0:E0:E0')),
    ]
    if live is not None:
        mk.append(lambda: hci.HCI_LE_Read_Remote_Features_Command(connection_handle=live))
        mk.append(lambda: hci.HCI_Read_Remote_Version_Information_Command(connection_handle=live))
    return mk


FAULT_EXCEPTIONS = ('OSError', 'RuntimeError', 'ValueError', 'ConnectionResetError', 'TimeoutError', 'KeyError')


async def hostfault_case(case, r: R):
    import builtins
    from bumble import hci
    from vlib import rig as vrig
    rng = random.Random(case['seed'] ^ 0xFA17)
    vrig.seed_entropy(case['seed'])
    delay = rng.choice([0, 1, 3, 8])
    mode = case['mode']                       # sink-raises | snooper-raises | sink-loses
    rg = vrig.Rig(2, seed=case['seed'], max_delay=delay)
    await rg.power_on()
    live = None
    if rng.random() < 0.4:
        cl, _pl = await rg.connect_le(0, 1)
        live = cl.handle
    await rg.quiesce()
    host = rg.hosts[0]
    sink = FaultySink(host, host.hci_sink)
    host.set_packet_sink(sink)
    if mode == 'snooper-raises':
        sink.via_snooper = True
        host.snooper = sink
    makers = host_command_makers(hci, live)
    ntasks = case['tasks']
    per = rng.randint(2, 5) if ntasks > 4 else rng.randint(2, 8)
    total = ntasks * per
    rounds = case['rounds']
    timeout = 20 if mode == 'sink-loses' else None
    r.ev('hostfault_cases')
    wedged = [False]

    def ctx():
        return (f'mode={mode} tasks={ntasks} commands/task={per} pipe delay<={delay} faults so far: '
                f'{[(i, hex(op), type(ex).__name__) for i, op, _c, ex in sink.failed][-4:]} lost: '
                f'{[(i, hex(op)) for i, op, _c in sink.lost][-4:]}')

    async def call(cmd, phase):
        """One caller. Returns True when the caller was released (response or exception)."""
        # (not vloop.vwait: a TimeoutError handed to the caller - the response timeout, or the injected exception - is
        # a release of the caller, not a hang)
        task = asyncio.ensure_future(host.send_command(cmd, response_timeout=timeout))
        done, _pending = await asyncio.wait([task], timeout=120)
        try:
            if not done:
                task.cancel()
                raise vloop.Hang('still pending after 120 virtual seconds')
            resp = task.result()
        except vloop.Hang:
            wedged[0] = True
            r.ev('oracle_evals')
            if any(c is cmd for _i, _o, c, _e in sink.failed) or any(c is cmd for _i, _o, c in sink.lost):
                r.bad(f'host/{mode}/caller-hang', f'the hand-over of {cmd.name} failed and its caller still waits after 120 '
                                                  f'virtual s; {ctx()}')
            elif not any(c is cmd for _i, _o, c in sink.handed):
                r.bad(f'host/{mode}/later-command-blocked',
                      f'{cmd.name} ({phase}) was never handed to the controller: its caller still waits after 120 virtual s '
                      f'(command semaphore locked={host.command_semaphore.locked()}, pending_command='
                      f'{getattr(host.pending_command, "name", None)}); {ctx()}')
            else:
                r.bad(f'host/{mode}/caller-hang-after-hand-over', f'{cmd.name} ({phase}) was handed over, its caller still '
                                                                  f'waits after 120 virtual s; {ctx()}')
            return False
        except Exception as ex:
            r.ev('oracle_evals')
            mine = [e for _i, _o, c, e in sink.failed if c is cmd]
            if mine:
                r.ev('hostfault_failed_callers_released')
                if ex is not mine[0]:
                    r.ev('hostfault_failed_caller_got_other_exception')
            elif any(c is cmd for _i, _o, c in sink.lost):
                r.ev('hostfault_failed_callers_released')
                r.ev('hostfault_lost_command_caller_timed_out')
            else:
                r.bad(f'host/{mode}/foreign-exception/{type(ex).__name__}',
                      f'send_command({cmd.name}) ({phase}) raised {type(ex).__name__}: {ex} although its own hand-over did not '
                      f'fail; {ctx()}')
            return True
        r.ev('oracle_evals', 2)
        r.ev('own_opcode_checks')
        r.ev('hostfault_commands_answered')
        if phase != 'before':
            r.ev('hostfault_later_commands_answered')
        if resp.command_opcode != cmd.op_code:
            r.bad(f'host/{mode}/foreign-response', f'caller of {cmd.name} ({cmd.op_code:#06x}) ({phase}) was handed a response '
                                                   f'for {resp.command_opcode:#06x}; {ctx()}')
        if not any(c is cmd for _i, _o, c in sink.handed):
            r.bad(f'host/{mode}/response-without-hand-over', f'caller of {cmd.name} got a response although its command was '
                                                             f'never handed to the controller; {ctx()}')
        return True

    async def worker(w, rnd, n, phase_of):
        wr = random.Random(case['seed'] * 131 + rnd * 17 + w)
        for _ in range(n):
            cmd = wr.choice(makers)()
            if not await call(cmd, phase_of()):
                return
            if wr.random() < 0.3:
                await asyncio.sleep(0)

    for rnd in range(rounds):
        # fault position p (relative to this round), k consecutive commands fail, then the sink works again
        p = (total - 1) * rnd // max(1, rounds - 1) if rounds > 1 else rng.randrange(total)
        p = min(total - 1, max(0, p + rng.choice([0, 0, 1, -1])))
        k = rng.choice([1, 1, 1, 2, 3])
        base = sink.count
        exc_name = FAULT_EXCEPTIONS[(case['seed'] + rnd) % len(FAULT_EXCEPTIONS)]
        exc = getattr(builtins, exc_name)
        n_failed0 = len(sink.failed) + len(sink.lost)
        for j in range(k):
            sink.plan[base + p + j] = 'lose' if mode == 'sink-loses' else exc
        start_b = len(rg.boundary_log)
        phase_of = lambda: 'before' if len(sink.failed) + len(sink.lost) == n_failed0 else 'after a failed hand-over'
        tasks = [asyncio.ensure_future(worker(w, rnd, per, phase_of)) for w in range(ntasks)]
        await asyncio.gather(*tasks)
        await rg.quiesce()
        injected = len(sink.failed) + len(sink.lost) - n_failed0
        r.ev('hostfault_rounds')
        r.ev('hostfault_hand_overs_failed', injected)
        if injected:
            r.ev(f'hostfault_rounds_{mode.replace("-", "_")}')
            r.sig('hostfault', mode, ntasks, p * 8 // total, k, exc_name, delay)
            if k > 1:
                r.ev('hostfault_consecutive_failures', injected)
        sink.plan.clear()
        if wedged[0]:
            break
        # fresh callers from several tasks: each is served, one at a time
        tasks = [asyncio.ensure_future(worker(100 + w, rnd, 2, lambda: 'fresh caller after the round')) for w in range(3)]
        await asyncio.gather(*tasks)
        await rg.quiesce()
        check_alternation(r, rg, 0, start_b, f'host/{mode}', ctx())
        if wedged[0]:
            break
        # what the controller received is exactly what the sink let through
        r.ev('oracle_evals')
    for where, ex in rg.exceptions:
        r.ev('hostfault_exceptions_in_stack_not_judged')
    r.sched.add(rg.schedule_signature)
    r.evals()
    r.sample = {'kind': 'hostfault', 'mode': mode, 'tasks': ntasks, 'commands_per_task': per, 'rounds': rounds, 'delay': delay,
                'failed_hand_overs': [(i, hex(op), type(ex).__name__) for i, op, _c, ex in sink.failed][:6],
                'lost': [(i, hex(op)) for i, op, _c in sink.lost][:6]}


async def hostreset_case(case, r: R):
    """One task calls Host.reset() (which issues HCI commands itself) while other tasks have commands outstanding /
    queued: every caller is released with the response to its own command, reset() returns, later commands are served."""
    from bumble import hci
    from vlib import rig as vrig
    rng = random.Random(case['seed'] ^ 0x5E5E7)
    vrig.seed_entropy(case['seed'])
    delay = rng.choice([0, 1, 3, 8])
    rg = vrig.Rig(1, seed=case['seed'], max_delay=delay)
    await rg.power_on()
    await rg.quiesce()
    host = rg.hosts[0]
    makers = host_command_makers(hci, None)
    ntasks = rng.choice([1, 1, 2, 3, 5])
    per = rng.randint(1, 4)
    turns = rng.choice([0, 1, 2, 3, 5, 8, 13, 21])
    r.ev('hostreset_cases')
    state = {}
    hung = [False]

    def ctx():
        return (f'{ntasks} task(s) x {per} command(s), pipe delay<={delay}, reset() called {turns} loop turns after the tasks '
                f'started, with {state.get("outstanding")} outstanding and the command semaphore '
                f'{"locked" if state.get("locked") else "free"}')

    async def worker(w):
        wr = random.Random(case['seed'] * 37 + w)
        for _ in range(per):
            cmd = wr.choice(makers)()
            try:
                resp = await vloop.vwait(host.send_command(cmd), 120)
            except vloop.Hang:
                hung[0] = True
                r.ev('oracle_evals')
                r.bad('host/reset-while-command-outstanding/caller-hang',
                      f'caller of {cmd.name} still waits after 120 virtual s (host.ready={host.ready}); {ctx()}')
                return
            except Exception as ex:
                r.bad(f'host/reset-while-command-outstanding/caller-got-exception/{type(ex).__name__}',
                      f'send_command({cmd.name}) raised {type(ex).__name__}: {ex}; {ctx()}')
                continue
            r.ev('oracle_evals')
            r.ev('own_opcode_checks')
            r.ev('hostreset_commands_answered')
            if resp.command_opcode != cmd.op_code:
                r.bad('host/reset-while-command-outstanding/foreign-response',
                      f'caller of {cmd.name} was handed a response for {resp.command_opcode:#06x}; {ctx()}')

    async def resetter():
        for _ in range(turns):
            await asyncio.sleep(0)
        state['outstanding'] = getattr(host.pending_command, 'name', None)
        state['locked'] = host.command_semaphore.locked()
        if host.pending_command is not None:
            r.ev('hostreset_with_command_outstanding')
            r.sig('hostreset', ntasks, per, turns, delay)
        else:
            r.ev('hostreset_with_no_command_outstanding')
        try:
            await vloop.vwait(host.reset(driver_factory=None), 120)
            r.ev('hostreset_resets_returned')
        except vloop.Hang:
            hung[0] = True
            r.bad('host/reset-while-command-outstanding/reset-hang', f'reset() still pending after 120 virtual s; {ctx()}')
        except Exception as ex:
            r.bad(f'host/reset-while-command-outstanding/reset-raised/{type(ex).__name__}', f'{ex}; {ctx()}')
        r.ev('oracle_evals')

    start_b = len(rg.boundary_log)
    tasks = [asyncio.ensure_future(worker(w)) for w in range(ntasks)] + [asyncio.ensure_future(resetter())]
    await asyncio.gather(*tasks)
    await rg.quiesce()
    if not hung[0]:
        tasks = [asyncio.ensure_future(worker(100 + w)) for w in range(2)]
        await asyncio.gather(*tasks)
        await rg.quiesce()
        check_alternation(r, rg, 0, start_b, 'host/reset-while-command-outstanding', ctx())
    r.sched.add(rg.schedule_signature)
    r.evals()
    r.sample = {'kind': 'hostreset', 'tasks': ntasks, 'commands_per_task': per, 'turns_before_reset': turns, 'delay': delay,
                'outstanding_at_reset': state.get('outstanding')}


# -----------------------------------------------------------------------------
# pair: a second command (or a peer's procedure) that depends on what an earlier command stored, unusual but legal octets
def name_variants(rng):
    """(label, parameter octets of Write_Local_Name)"""
    def pad(b):
        return b + bytes(248 - len(b))
    rnd = bytes(rng.getrandbits(8) for _ in range(248))
    return [
        ('empty', bytes(248)),
        ('ascii-max-length', bytes(rng.randrange(0x20, 0x7F) for _ in range(248))),
        ('utf8-2-octet-max-length', 'é'.encode() * 124),
        ('utf8-3-octet-246+2', '€'.encode() * 82 + b'ab'),
        ('utf8-4-octet-max-length', '\U0001F600'.encode() * 62),
        ('non-utf8/latin-1', pad(b'Caf\xe9 du March\xe9')),
        ('non-utf8/ff-max-length', b'\xff' * 248),
        ('non-utf8/lone-continuation', pad(b'abc\x80def')),
        ('non-utf8/overlong', pad(b'\xc0\x80x')),
        ('non-utf8/surrogate', pad(b'\xed\xa0\x80')),
        ('non-utf8/truncated-2-octet-at-247', b'a' * 247 + b'\xc3'),
        ('non-utf8/truncated-3-octet-at-246', b'a' * 246 + b'\xe2\x82'),
        ('inner-nul/then-non-utf8', b'good\x00\xff\xfe' + rnd[:241]),
        ('inner-nul/then-text', pad(b'ab\x00cd')),
        ('inner-nul/first-octet', b'\x00' + b'\xff' * 247),
        ('non-utf8/before-inner-nul', pad(b'\xe9\x00abc')),
        ('random-octets', rnd),
        ('random-octets-high', bytes(b | 0x80 for b in rnd)),
        ('short-parameter/non-utf8', b'Caf\xe9'),
        ('short-parameter/text', b'short'),
        ('plain', pad(b'a plain name')),
    ]


def expected_name(param):
    """The name a Write_Local_Name parameter denotes: the octets before the first 0x00 - when they are UTF-8 (the
    spec's encoding of the name); None otherwise (what a controller keeps then is not stated)."""
    name = param[:param.index(0)] if 0 in param else param
    try:
        name.decode('utf-8')
    except UnicodeDecodeError:
        return None
    return name


def field_octets(rng, size):
    c = rng.randrange(6)
    if c == 0:
        return bytes(size)
    if c == 1:
        return b'\xff' * size
    if c == 2:
        return (1).to_bytes(size, 'little')
    if c == 3:
        return bytes([0x80] * size)
    return bytes(rng.getrandbits(8) for _ in range(size))


# (write command, parameter field sizes, [(read / dependent command, parameter octets or callable(rng))])
PAIRS = [
    ('Write_Class_Of_Device', [3], [('Read_Class_Of_Device', b'')]),
    ('Write_Page_Timeout', [2], [('Read_Page_Timeout', b'')]),
    ('Write_Scan_Enable', [1], [('Read_Scan_Enable', b'')]),
    ('Write_Authentication_Enable', [1], [('Read_Authentication_Enable', b'')]),
    ('Write_Synchronous_Flow_Control_Enable', [1], [('Read_Synchronous_Flow_Control_Enable', b'')]),
    ('Write_Simple_Pairing_Mode', [1], [('Read_Local_Supported_Features', b''), ('Read_Local_Extended_Features', b'\x00'),
                                        ('Read_Local_Extended_Features', b'\x01')]),
    ('Write_Secure_Connections_Host_Support', [1], [('Read_Local_Extended_Features', b'\x01'),
                                                    ('Read_Local_Extended_Features', b'\x02'),
                                                    ('Read_Local_Extended_Features', b'\xff')]),
    ('Write_LE_Host_Support', [1, 1], [('Read_LE_Host_Support', b''), ('Read_Local_Extended_Features', b'\x01'),
                                       ('Read_Local_Supported_Features', b'')]),
    ('Set_Event_Mask', [8], [('Read_BD_ADDR', b''), ('Read_Local_Name', b''), ('LE_Rand', b'')]),
    ('Set_Event_Mask_Page_2', [8], [('Read_BD_ADDR', b''), ('Read_Local_Version_Information', b'')]),
    ('LE_Set_Event_Mask', [8], [('LE_Rand', b''), ('LE_Read_Buffer_Size', b''), ('LE_Read_Local_Supported_Features', b'')]),
    ('LE_Set_Random_Address', [6], [('LE_Set_Advertising_Set_Random_Address', lambda g: b'\x00' + field_octets(g, 6)),
                                    ('LE_Read_Advertising_Physical_Channel_Tx_Power', b'')]),
    ('LE_Write_Suggested_Default_Data_Length', [2, 2], [('LE_Read_Suggested_Default_Data_Length', b''),
                                                        ('LE_Read_Maximum_Data_Length', b'')]),
    ('LE_Set_Default_PHY', [1, 1, 1], [('LE_Read_PHY', lambda g: field_octets(g, 2))]),
    ('LE_Set_Host_Feature', [1, 1], [('LE_Read_Local_Supported_Features', b''), ('LE_Read_All_Local_Supported_Features', b'')]),
    ('LE_Set_Address_Resolution_Enable', [1], [('LE_Read_Resolving_List_Size', b'')]),
    ('LE_Set_Resolvable_Private_Address_Timeout', [2], [('LE_Read_Resolving_List_Size', b'')]),
    ('LE_Add_Device_To_Filter_Accept_List', [1, 6], [('LE_Read_Filter_Accept_List_Size', b''),
                                                     ('LE_Clear_Filter_Accept_List', b'')]),
    ('LE_Add_Device_To_Resolving_List', [1, 6, 16, 16], [('LE_Read_Resolving_List_Size', b''), ('LE_Clear_Resolving_List', b'')]),
    ('Write_Extended_Inquiry_Response', [1, 240], [('Read_Extended_Inquiry_Response', b'')]),
    ('Write_Loopback_Mode', [1], [('Read_Loopback_Mode', b'')]),
    ('Write_Page_Scan_Activity', [2, 2], [('Read_Page_Scan_Activity', b'')]),
    ('Write_Page_Scan_Type', [1], [('Read_Page_Scan_Type', b'')]),
    ('Write_Voice_Setting', [2], [('Read_Voice_Setting', b'')]),
    ('Write_Default_Link_Policy_Settings', [2], [('Read_Default_Link_Policy_Settings', b'')]),
    ('Write_Connection_Accept_Timeout', [2], [('Read_Connection_Accept_Timeout', b'')]),
    ('Write_Inquiry_Mode', [1], [('Read_Inquiry_Mode', b'')]),
    ('Host_Buffer_Size', [2, 1, 2, 2], [('Read_Buffer_Size', b'')]),
    ('Set_Controller_To_Host_Flow_Control', [1], [('Read_Buffer_Size', b''), ('Read_Synchronous_Flow_Control_Enable', b'')]),
    ('LE_Set_Default_Subrate', [2, 2, 2, 2, 2], [('LE_Read_Local_Supported_Features', b'')]),
]


def cc_return_parameters(rg, seq):
    """Return parameters (after the status octet handling is left to the caller) of the Command Complete logged at seq."""
    pkt = rg.hci_log[seq][3]
    return pkt[6:] if pkt[1] == 0x0E else None


async def pair_issue(r, rg, dev, name, params, role, ctx):
    """One command, built from its opcode and parameter octets, through the real host of `dev`. Exactly one Command
    Complete / Status with its opcode leaves the controller and the caller is handed it. Returns (kind, status, seq) |
    None (violated) | 'skip'."""
    from bumble import hci
    op = getattr(hci, f'HCI_{name.upper()}_COMMAND', None)
    if op is None:
        r.ev('pair_commands_unknown_to_hci_skipped')
        return 'skip'
    pkt = ref.command_packet(op, params)
    try:
        cmd = hci.HCI_Packet.from_bytes(pkt)
        if bytes(cmd) != pkt:
            r.ev('pair_commands_rewritten_by_host_encoder')
    except Exception:
        r.ev('pair_commands_unparseable_by_host_skipped')
        return 'skip'
    suffix = {'read': 'after-unusual-write', 'write': 'unusual-parameters', 'later': 'later-command'}[role]
    mark = len(rg.hci_log)
    n_exc = len(rg.exceptions)
    try:
        resp = await vloop.vwait(rg.hosts[dev].send_command(cmd), 120)
    except vloop.Hang:
        resp = None
    except Exception as ex:
        r.ev('oracle_evals')
        r.bad(f'pair/caller-got-exception/{name}/{suffix}', f'send_command({name}) raised {type(ex).__name__}: {ex}; {ctx()}')
        return None
    try:
        await rg.quiesce(max_turns=2000)
    except vloop.Hang:
        r.ev('no_quiescence_after_command')
    r.ev('oracle_evals', 2)
    r.ev('pair_commands')
    evs = [e for e in parse_events(rg.hci_log, dev, mark) if e[1] in ('cc', 'cs')]
    mine = [e for e in evs if e[2] == op]
    if len(mine) != 1:
        excs = [f'{w}: {e}' for w, e in rg.exceptions[n_exc:]][-2:]
        r.bad(f'pair/answer/{"none" if not mine else "multiple"}/{name}/{suffix}',
              f'{len(mine)} Command Complete/Status events for {name} ({op:#06x}) parameters {params[:24].hex()}'
              f'{"..." if len(params) > 24 else ""}; exceptions in the stack: {excs}; {ctx()}')
        return None
    if resp is None:
        r.bad(f'pair/caller-hang/{name}/{suffix}', f'the answer to {name} was emitted but its caller still waits; {ctx()}')
        return None
    r.ev('own_opcode_checks')
    if resp.command_opcode != op:
        r.bad(f'pair/foreign-response/{name}/{suffix}', f'caller of {name} was handed a response for {resp.command_opcode:#06x}')
    return mine[0][1], mine[0][3], mine[0][0]


def before_nul(b):
    return b[:b.index(0)] if 0 in b else b


async def pair_case(case, r: R):
    from vlib import rig as vrig
    rng = random.Random(case['seed'] ^ 0x9A12)
    vrig.seed_entropy(case['seed'])
    delay = rng.choice([0, 0, 1, 3])
    rg = vrig.Rig(3, seed=case['seed'], max_delay=delay, classic=True)
    await rg.power_on()
    connected = rng.random() < 0.3
    if connected:
        await rg.connect_classic(1, 0)
    await rg.quiesce()
    r.ev('pair_cases')
    addr0 = bytes(reversed(bytes.fromhex(rg.addresses[0].replace(':', ''))))
    trail = []
    known = {}       # what the controller is known to hold (independent ledger): 'name', 'sfc', 'le_host', 'ddl'

    def ctx():
        return f'history on device 0 (pipe delay<={delay}, BR/EDR connection to device 1: {connected}): {trail[-6:]}'

    variants = name_variants(rng)
    steps = case['steps']
    for s in range(steps):
        pick = rng.random()
        if pick < 0.45 or (s == 0 and case.get('name_first')):
            label, param = variants[(case['seed'] + s * 7 + rng.randrange(3)) % len(variants)]
            trail.append(f'Write_Local_Name[{label}]')
            res = await pair_issue(r, rg, 0, 'Write_Local_Name', param, 'write', ctx)
            if res is None or res == 'skip':
                break
            r.ev('pair_unusual_writes')
            r.ev('pair_names_written')
            for cls in ('non-utf8', 'inner-nul', 'max-length', 'empty', 'short-parameter', 'random-octets'):
                if cls in label:
                    r.ev('pair_names_written_' + cls.replace('-', '_'))
            r.sig('pair-name', label, delay, connected, s)
            if res[1] == 0:
                exp = expected_name(param)
                known['name'] = exp
            # (1) the same host reads the name back
            trail.append('Read_Local_Name')
            res = await pair_issue(r, rg, 0, 'Read_Local_Name', b'', 'read', ctx)
            if res is None:
                # the peer's procedure is still followed; then the history ends
                pass
            elif res != 'skip':
                r.ev('pair_reads_after_unusual_write')
                r.ev('pair_name_reads_answered')
                rp = cc_return_parameters(rg, res[2])
                if rp is not None and known.get('name') is not None and rp[:1] == b'\x00':
                    r.ev('oracle_evals')
                    r.ev('pair_value_checks')
                    if len(rp) != 249 or before_nul(rp[1:]) != known['name']:
                        r.bad('pair/value/Read_Local_Name', f'Read_Local_Name returned {len(rp) - 1} octets '
                              f'{before_nul(rp[1:])[:40].hex()}..., the name written was {known["name"][:40].hex()}... '
                              f'({len(known["name"])} octets); {ctx()}')
            # (2) another device reads it over the air
            reader = rng.choice([1, 1, 2])
            trail.append(f'Remote_Name_Request by device {reader}')
            mark = len(rg.hci_log)
            n_exc = len(rg.exceptions)
            res2 = await pair_issue(r, rg, reader, 'Remote_Name_Request', addr0 + b'\x02\x00\x00\x00', 'read', ctx)
            if res2 not in (None, 'skip') and res2[0] == 'cs' and res2[1] == 0:
                r.ev('pending_procedures_followed')
                r.ev('pair_remote_name_requests_followed')

                def done():
                    return [rec for rec in rg.hci_log[mark:] if rec[1] == reader and rec[2] == 'c2h' and rec[3][0] == 4
                            and rec[3][1] == 0x07]
                await wait_for_event(rg, lambda: bool(done()))
                await rg.quiesce()
                evs = done()
                r.ev('oracle_evals')
                if len(evs) != 1:
                    excs = [f'{w}: {e}' for w, e in rg.exceptions[n_exc:]][-2:]
                    r.bad(f'pair/conclude/{"never" if not evs else "twice"}/Remote_Name_Request/after-unusual-name',
                          f'Remote Name Request of device {reader} for device 0 was accepted as pending; {len(evs)} Remote Name '
                          f'Request Complete events within T_v; exceptions in the stack: {excs}; {ctx()}')
                else:
                    r.ev('pair_remote_name_requests_concluded')
                    ev = evs[0][3]
                    if ev[3] == 0 and known.get('name') is not None:
                        r.ev('oracle_evals')
                        r.ev('pair_value_checks')
                        if ev[4:10] != addr0 or before_nul(ev[10:]) != known['name']:
                            r.bad('pair/value/Remote_Name_Request', f'Remote Name Request Complete carries address '
                                  f'{ev[4:10].hex()} name {before_nul(ev[10:])[:40].hex()}..., the name written was '
                                  f'{known["name"][:40].hex()}...; {ctx()}')
            if res is None or res2 is None:
                break
        elif pick < 0.55:
            # advertising / scan response data with arbitrary octets, read by a scanning peer
            adv = bytes([rng.choice([0, 1, 31, 31, rng.randrange(32)])]) + field_octets(rng, 31)
            rsp = bytes([rng.choice([0, 31, rng.randrange(32)])]) + field_octets(rng, 31)
            seq = [(0, 'LE_Set_Advertising_Parameters', struct.pack('<HHBBB6sBB', 0x0800, 0x0800, rng.choice([0, 2, 3]), 0, 0,
                                                                    bytes(6), 7, 0), 'write'),
                   (0, 'LE_Set_Advertising_Data', adv, 'write'),
                   (0, 'LE_Set_Scan_Response_Data', rsp, 'write'),
                   (1, 'LE_Set_Scan_Parameters', struct.pack('<BHHBB', 1, 0x10, 0x10, 0, 0), 'later'),
                   (1, 'LE_Set_Scan_Enable', b'\x01\x00', 'later'),
                   (0, 'LE_Set_Advertising_Enable', b'\x01', 'read')]
            trail.append(f'advertising data {adv[:6].hex()}.. scan response {rsp[:6].hex()}..')
            ok = True
            for dev, name, params, role in seq:
                res = await pair_issue(r, rg, dev, name, params, role, ctx)
                ok = ok and res is not None
            r.ev('pair_unusual_writes', 2)
            await asyncio.sleep(3.0)
            try:
                await rg.quiesce(max_turns=5000)
            except vloop.Hang:
                r.ev('no_quiescence_after_command')
            for dev, name, params, role in ((0, 'LE_Set_Advertising_Enable', b'\x00', 'read'), (1, 'LE_Set_Scan_Enable', b'\x00\x00', 'later')):
                res = await pair_issue(r, rg, dev, name, params, role, ctx)
                ok = ok and res is not None
                if res not in (None, 'skip') and role == 'read':
                    r.ev('pair_reads_after_unusual_write')
            r.ev('pair_advertising_data_read_by_scanner')
            r.sig('pair-adv', adv[0], rsp[0], delay)
            if not ok:
                break
        else:
            w, sizes, reads = PAIRS[(case['seed'] * 3 + s * 5 + rng.randrange(len(PAIRS))) % len(PAIRS)]
            params = b''.join(field_octets(rng, n) for n in sizes)
            trail.append(f'{w}[{params[:10].hex()}{".." if len(params) > 10 else ""}]')
            res = await pair_issue(r, rg, 0, w, params, 'write', ctx)
            if res is None:
                break
            if res != 'skip':
                r.ev('pair_unusual_writes')
                r.sig('pair', w, params[:8], delay)
                accepted = res[0] == 'cc' and res[1] == 0
                if w == 'Write_Synchronous_Flow_Control_Enable' and accepted and params[0] in (0, 1):
                    known['sfc'] = params[0]
                if w == 'Write_LE_Host_Support' and accepted and params[0] in (0, 1):
                    known['le_host'] = params[0]
                if w == 'LE_Write_Suggested_Default_Data_Length' and accepted:
                    o, t = struct.unpack('<HH', params)
                    if 0x1B <= o <= 0xFB and 0x148 <= t <= 0x4290:
                        known['ddl'] = params
                    else:
                        known.pop('ddl', None)
            stop = False
            for rname, rparams in reads:
                if callable(rparams):
                    rparams = rparams(rng)
                trail.append(rname)
                res = await pair_issue(r, rg, 0, rname, rparams, 'read', ctx)
                if res is None:
                    stop = True
                    break
                if res == 'skip':
                    continue
                r.ev('pair_reads_after_unusual_write')
                rp = cc_return_parameters(rg, res[2])
                want = None
                if rname == 'Read_Synchronous_Flow_Control_Enable' and 'sfc' in known:
                    want = bytes([0, known['sfc']])
                elif rname == 'Read_LE_Host_Support' and 'le_host' in known:
                    want = bytes([0, known['le_host']])
                    rp = rp[:2] if rp is not None else rp      # (the second octet, Simultaneous LE Host, is unused)
                elif rname == 'LE_Read_Suggested_Default_Data_Length' and 'ddl' in known:
                    want = b'\x00' + known['ddl']
                if want is not None and rp is not None:
                    r.ev('oracle_evals')
                    r.ev('pair_value_checks')
                    if rp != want:
                        r.bad(f'pair/value/{rname}', f'{rname} returned {rp.hex()}, expected {want.hex()} after {trail[-4:]}; {ctx()}')
            if stop:
                break
    # later commands from the same host are served
    for name in ('Read_BD_ADDR', 'LE_Rand'):
        res = await pair_issue(r, rg, 0, name, b'', 'later', ctx)
        if res not in (None, 'skip'):
            r.ev('pair_later_commands_answered')
    for where, ex in rg.exceptions:
        if where.startswith('c2h'):
            r.ev('host_side_exceptions_ignored')      # how a host digests what it reads (a name, a report) is not C03's
            continue
        r.ev('pair_exceptions_in_controller')
    r.sched.add(rg.schedule_signature)
    r.evals()
    r.sample = {'kind': 'pair', 'history': trail[:12], 'delay': delay}


def run_case(case, r: R):
    k = case['kind']
    if k == 'hostfault':
        return hostfault_case(case, r)
    if k == 'hostreset':
        return hostreset_case(case, r)
    if k == 'pair':
        return pair_case(case, r)
    if k == 'sweep':
        return sweep(case, r)
    if k == 'sweep-unknown':
        return sweep_unknown(case, r)
    if k == 'host':
        return host_case(case, r)
    if k == 'cig':
        return cig_case(case, r)
    if k == 'train':
        return train_case(case, r)
    if k == 'advstate':
        return advstate_case(case, r)
    if k == 'hist':
        return hist_case(case, r)
    return proc_case(case, r)


LEVEL_TEXT = ('Offline checkers over the tapped HCI log: exactly-one-reply per command packet for every registered '
              'command class and unregistered opcodes in two controller states with generated parameters, completion '
              'of every PENDING procedure within 300 virtual seconds, strict command/response alternation and '
              'own-opcode delivery under 2-16 concurrent callers with delayed pipes, 24 scripted procedure '
              'scenarios, generated CIG configuration histories (every CIS handle accepted as pending concluded by an '
              'event carrying that handle, on both sides) and generated fragment trains of advertising / scan response / '
              'periodic advertising data (each command answered once under its own opcode), generated sequences of '
              'advertising / scanning / connection / ISO commands in states where a precondition is missing (set without '
              'address or parameters, removed, enabled twice, nothing pending), and procedure histories (establish, tear '
              'down, establish again, ACL lost before completion) for CIS, LE connection creation and feature reads issued by '
              'either role with one capability bit removed on either controller; failing hand-overs of a command (sink or snooper '
              'raises, packet lost) at positions spread over histories of 1-16 concurrent callers, Host.reset() by one task while '
              'others have commands outstanding, and write/read command pairs with unusual but legal parameter octets (local '
              'name read back by the host and by another device over the link). Sampling of parameters, '
              'histories and schedules; not proof.')
LEVEL_NOTE = ('Trusted: vlib/ref_hci.py generator/encoder (from C01), the event parser and PROCEDURES table in '
              'checks/c03.py, rig taps, virtual-time loop.')
TECHNIQUE = 'runtime monitoring: offline request/response and procedure-completion checker over tapped HCI log'
