"""C05 — L2CAP PDUs of any size cross the ACL link intact for any buffer geometry.

Monitors
  frag     over the sender's HCI log: every ACL fragment <= the controller's advertised data
           length for that transport, first fragment pb=00 (host->controller first
           non-flushable), later ones pb=01, independent reassembly == the PDU that was sent
  deliver  the receiver's L2CAP layer gets exactly the sent (cid, payload) sequence
  malform  malformed fragment sequences injected into the receiving host between good PDUs:
           only the affected PDU is lost, the next good PDU arrives intact
  iso      Host.send_iso_sdu fragments: length bound, pb flags, SDU length, sequence number
  hostwire a real Host initialised by its own reset() against a real Controller whose three pools
           (BR/EDR ACL, LE ACL or shared, ISO; v2/v1 buffer-size commands) have different data
           lengths, data side played by hand (vlib/hostwire.py): every emitted ACL / ISO packet
           fits the length advertised for the pool of ITS link, markers, reassembly per link,
           also after a second reset with another geometry
  life     one pair of devices through life-cycle events: the peripheral reached through its controller's random
           address, its PUBLIC address, or an extended advertising set with its own random / the public address;
           Host.reset() of either host with the ACL link still up (same controller, same geometry); a bulk transfer
           (more fragments than the controller has buffers, unacknowledged) cut by a disconnection of either side,
           then a NEW connection. After every event PDUs that need more fragments than there are buffers must arrive
           intact, exactly once, in order at the peer HOST's 'l2cap_pdu' event, under the handle of the connection,
           with well-formed fragments
"""
from __future__ import annotations

import asyncio
import random
import struct

from vlib import vloop
from vlib.result import R

ID = 'C05'
LEVEL = 'exploration'
RULE = ('seeded cases over (transport, ACL length and buffer count per controller, PDU size sequence, delay); '
        'a transfer is non-trivial when at least one PDU needed >= 2 fragments; malformed cases are one per '
        '(malformation kind, geometry); ISO cases one per (packet length, SDU size list); distinct = distinct tuple. '
        'hostwire histories (Host.reset() against a Controller with three different pools, hand-played BR/EDR, LE, '
        'CIS and BIS links with PDU/SDU sizes around each pool\'s length, optionally a second reset with another '
        'geometry) are non-trivial when a unit needed >= 2 fragments; distinct = distinct (geometries, operations); '
        'life: one per (transport, geometry, address kinds, sequence of reset / cut bulk transfer / reconnection)')
ASSUMPTIONS = [
    'the virtual link is lossless',
    'an exception escaping Host.on_packet for a malformed fragment is tolerated (counted) as long as the next '
    'well-formed PDU is delivered intact',
    'a zero-length ISO SDU producing no packet is counted, not judged (the statement speaks of emitted fragments)',
    'hostwire: the maximum data length of a link is the one the controller wrote into its (LE_)Read_Buffer_Size[_V2] '
    'Command Complete for the pool of that link (LE link -> LE pool unless its length/count is zero, then the BR/EDR '
    'pool; CIS/BIS -> ISO pool); every link is gone before Host.reset() is called a second time',
    'life: Host.reset() called again while a link is up is taken to be inside "every combination of buffer length and '
    'count" only as far as the unchanged stack supports it: the virtual controller keeps its connections over HCI_Reset '
    'and the Host keeps Host.connections, so what the reset host SENDS afterwards on that link is judged (delivery at the '
    "peer, fragments); what it RECEIVES is not, because its Device dropped its Connection objects at the flush. The "
    "controller's geometry is the same before and after. PDUs of a bulk transfer that is cut by a disconnection may be "
    'lost; the transfers on the connection made afterwards may not',
]
# hostwire: deciding counters (about half of what a run produces)
HOSTWIRE_MIN = {'hostwire_histories': 2400, 'hostwire_fragments_checked': 100000, 'hostwire_fragments_le': 35000,
                'hostwire_fragments_bredr': 15000, 'hostwire_fragments_cis': 15000, 'hostwire_fragments_bis': 8000,
                'hostwire_packets_shared': 10000, 'hostwire_second_resets': 900,
                'hostwire_fragments_after_second_reset': 40000, 'hostwire_fragments_at_length_limit': 45000,
                'hostwire_multi_fragment_units': 40000, 'hostwire_pdus_rebuilt': 35000, 'hostwire_sdus_rebuilt': 20000}
LIFE_MIN = {'life_cases': 220, 'life_transfers': 600, 'life_fragments_checked': 35000, 'life_second_resets_with_link_up': 120,
            'life_transfers_after_second_reset': 120, 'life_bulk_transfers_cut': 120, 'life_transfers_after_cut_bulk_transfer': 120,
            'life_bulk_transfers_cut_far_beyond_buffers': 90, 'life_connections_public': 200, 'life_connections_set_random': 60,
            'life_connections_set_public': 35, 'life_reconnections': 300}
MIN_EVENTS = {
    'quick': {'fragments_checked': 35000, 'pdus_delivered': 5000, 'malformed_injected': 1200, 'iso_fragments': 20000,
              'max_size_pdus': 30, **HOSTWIRE_MIN, **LIFE_MIN},
    'thorough': {'fragments_checked': 250000, 'pdus_delivered': 25000, 'malformed_injected': 9000,
                 'iso_fragments': 200000, 'max_size_pdus': 150, **{k: 16 * v for k, v in HOSTWIRE_MIN.items()},
                 **{k: 7 * v for k, v in LIFE_MIN.items()}},
}
CASE_TIMEOUT = 600

CID = 0x0072
LENS = [27, 28, 31, 64, 251, 1021]


def plan(tier, seed):
    cases = []
    n = 1600 if tier == 'quick' else 8000
    for i in range(n):
        cases.append({'kind': 'xfer', 'seed': seed * 1000003 + i, 'big': i % 20 == 0, 'tier': tier})
    for i in range(800 if tier == 'quick' else 6000):
        cases.append({'kind': 'malformed', 'seed': seed * 1000003 + i})
    for i in range(400 if tier == 'quick' else 3200):
        cases.append({'kind': 'iso', 'seed': seed * 1000003 + i})
    for i in range(240 if tier == 'quick' else 2000):
        cases.append({'kind': 'life', 'seed': seed * 1000003 + i})
    for i in range(96 if tier == 'quick' else 960):
        cases.append({'kind': 'hostwire', 'seed': seed * 1000003 + i, 'histories': 25 if tier == 'quick' else 40})
    return cases


def sizes_for(rng, L, big):
    k = lambda m: m * L
    pool = [0, 1, 2]
    for m in (1, 2, 3):
        pool += [max(0, k(m) - 4 + d) for d in (-1, 0, 1)]   # payload + 4-byte header lands on m*L-1..m*L+1
    pool += [1000, rng.randint(0, 3000)]
    if big:
        pool += [65531, 65532, 65535, 65530]
    n = rng.randint(1, 6)
    out = [rng.choice(pool) for _ in range(n)]
    if big:
        out[rng.randrange(n)] = rng.choice([65531, 65532, 65535])
    return out


def payload_for(idx, size):
    return bytes(((idx * 29 + i * 5 + (i >> 8) * 11) & 0xFF) for i in range(size))


async def xfer(case, r: R):
    from vlib import rig as vrig
    rng = random.Random(case['seed'])
    vrig.seed_entropy(case['seed'])
    classic = rng.random() < 0.4
    lens = [rng.choice(LENS) for _ in range(2)]
    nums = [rng.choice([1, 2, 3, 8]) for _ in range(2)]
    if case['big'] and case['tier'] == 'quick':
        lens = [rng.choice([251, 1021]) for _ in range(2)]
    delay = rng.choice([0, 0, 1, 4])
    kw = dict(acl_len=lens, acl_num=nums) if classic else dict(le_acl_len=lens, le_acl_num=nums)
    rg = vrig.Rig(2, seed=case['seed'], max_delay=delay, classic=classic, **kw)
    await rg.power_on()
    if classic:
        ca, cb = await rg.connect_classic(0, 1)
    else:
        ca, cb = await rg.connect_le(0, 1)
    await rg.quiesce()
    got = {0: [], 1: []}
    for i in (0, 1):
        rg.devices[i].l2cap_channel_manager.register_fixed_channel(
            CID, lambda h, pdu, _i=i: got[_i].append(bytes(pdu)))
    sent = {0: [], 1: []}
    plan_ = [(0, s) for s in sizes_for(rng, lens[0], case['big'])]
    if rng.random() < 0.5:
        plan_ += [(1, s) for s in sizes_for(rng, lens[1], False)]
        rng.shuffle(plan_)
    start_log = len(rg.hci_log)
    for who, size in plan_:
        p = payload_for(len(sent[who]) + who * 7, size)
        conn = ca if who == 0 else cb
        try:
            rg.devices[who].send_l2cap_pdu(conn.handle, CID, p)
        except Exception as e:
            r.bad(f'send/raises/{"bredr" if classic else "le"}/size={"max" if size > 65531 else "normal"}',
                  f'send_l2cap_pdu({size} bytes) raised {type(e).__name__}: {e}')
            continue
        sent[who].append(p)
        if size > 65531:
            r.ev('max_size_pdus')
        if rng.random() < 0.4:
            for _ in range(rng.randint(1, 5)):
                await asyncio.sleep(0)

    async def done():
        while len(got[1]) < len(sent[0]) or len(got[0]) < len(sent[1]):
            await asyncio.sleep(0.05)
    tr = 'bredr' if classic else 'le'
    try:
        await vloop.vwait(done())
    except vloop.Hang:
        big = any(len(p) > 65531 for p in sent[0])
        r.bad(f'deliver/lost/{tr}' + ('/payload>65531' if big and len(got[1]) < len(sent[0]) else ''),
              f'peer got {len(got[1])}/{len(sent[0])} and {len(got[0])}/{len(sent[1])} PDUs at T_v; lens={lens} nums={nums} '
              f'sizes={[len(p) for p in sent[0]]} exceptions={rg.exceptions[:2]}')
    await rg.quiesce()
    for src, dst in ((0, 1), (1, 0)):
        r.ev('oracle_evals')
        r.ev('pdus_delivered', len(got[dst]))
        if got[dst] != sent[src] and len(got[dst]) >= len(sent[src]):
            if sorted(got[dst]) == sorted(sent[src]):
                r.bad(f'deliver/reordered/{tr}', f'dev{dst} received the PDUs in another order')
            elif len(got[dst]) > len(sent[src]):
                r.bad(f'deliver/duplicated/{tr}', f'dev{dst} got {len(got[dst])} PDUs for {len(sent[src])} sent')
            else:
                k = next(i for i in range(len(sent[src])) if got[dst][i] != sent[src][i])
                r.bad(f'deliver/corrupt/{tr}', f'PDU #{k}: got {len(got[dst][k])} bytes, sent {len(sent[src][k])}; lens={lens}')
    # fragment oracle over each sender's emitted packets
    multi = False
    for dev in (0, 1):
        conn = ca if dev == 0 else cb
        L = lens[dev]
        ref = vrig.RefReassembler()
        rebuilt = []
        in_pdu = False
        for seq, d, direction, pkt, _t in rg.hci_log[start_log:]:
            if d != dev or direction != vrig.H2C or pkt[0] != 2:
                continue
            handle, pb, bc, data = vrig.parse_acl(pkt)
            declared = struct.unpack_from('<H', pkt, 3)[0]
            r.ev('fragments_checked')
            r.ev('oracle_evals', 2)
            if declared != len(pkt) - 5:
                r.bad(f'frag/length-field/{tr}', f'ACL header says {declared}, packet carries {len(pkt) - 5}')
            if len(data) > L:
                r.bad(f'frag/too-long/{tr}', f'ACL fragment of {len(data)} bytes > controller data length {L}')
            if bc != 0:
                r.bad(f'frag/bc-flag/{tr}', f'host->controller fragment with broadcast flag {bc}')
            if not in_pdu:
                if pb != 0:
                    r.bad(f'frag/first-marker/{tr}', f'first fragment of a PDU carries pb={pb:02b}, expected 00')
                    pb = 0
            else:
                multi = True
                if pb != 1:
                    r.bad(f'frag/continuation-marker/{tr}', f'later fragment carries pb={pb:02b}, expected 01')
                    pb = 1
            for cid, payload in ref.feed((dev, handle), pb, data):
                if cid == CID:
                    rebuilt.append(payload)
            in_pdu = (dev, handle) in ref.buf
        r.ev('oracle_evals')
        if rebuilt != sent[dev]:
            r.bad(f'frag/reassembly-mismatch/{tr}',
                  f'independent reassembly of dev{dev} fragments gives {len(rebuilt)} PDUs, {len(sent[dev])} were sent '
                  f'(lens={lens})')
    for where, e in rg.exceptions:
        r.bad(f'deliver/exception-in-stack/{tr}', f'{where}: {e}; lens={lens} sizes={[len(p) for p in sent[0]]}')
    if multi:
        r.sig('xfer', classic, tuple(lens), tuple(nums), tuple(len(p) for p in sent[0]), tuple(len(p) for p in sent[1]))
    r.sched.add(rg.schedule_signature)
    r.evals()
    r.sample = {'kind': 'xfer', 'transport': tr, 'acl_len': lens, 'acl_num': nums, 'delay': delay,
                'pdu_sizes_0to1': [len(p) for p in sent[0]], 'pdu_sizes_1to0': [len(p) for p in sent[1]]}


def acl(handle, pb, data, bc=0, declared=None):
    return bytes([2]) + struct.pack('<HH', handle | (pb << 12) | (bc << 14), len(data) if declared is None else declared) + data


def l2(cid, payload, declared=None):
    return struct.pack('<HH', len(payload) if declared is None else declared, cid) + payload


MALFORMED = ['cont-without-start', 'start-exceeds-length', 'start-start', 'truncated-start-1', 'truncated-start-0',
             'unknown-pb', 'cont-overruns', 'short-then-good', 'header-split']


async def malformed(case, r: R):
    from vlib import rig as vrig
    rng = random.Random(case['seed'])
    vrig.seed_entropy(case['seed'])
    classic = rng.random() < 0.3
    rg = vrig.Rig(2, seed=case['seed'], max_delay=0, classic=classic)
    await rg.power_on()
    ca, cb = await (rg.connect_classic(0, 1) if classic else rg.connect_le(0, 1))
    await rg.quiesce()
    got = []
    rg.devices[1].l2cap_channel_manager.register_fixed_channel(CID, lambda h, pdu: got.append(bytes(pdu)))
    host = rg.hosts[1]
    h = cb.handle
    tr = 'bredr' if classic else 'le'

    def inject(pkt):
        try:
            host.on_packet(pkt)
        except Exception as e:
            r.ev('malformed_raised')
            r.add_extra_list('malformed_exceptions', f'{type(e).__name__}')

    def good(i, frag):
        p = payload_for(i, rng.choice([0, 1, 5, 40, 200]))
        whole = l2(CID, p)
        if frag:
            # the first fragment always carries the complete 2-byte L2CAP length field
            # (whether a shorter start fragment is legal is contested; it is not used)
            cut = rng.randint(2, len(whole) - 1)
            inject(acl(h, 2, whole[:cut]))
            inject(acl(h, 1, whole[cut:]))
        else:
            inject(acl(h, 2, whole))
        return p

    if rng.random() < 0.7:
        kinds = [rng.choice(MALFORMED)] * rng.randint(1, 3)
        label = kinds[0]
    else:
        kinds = [rng.choice(MALFORMED) for _ in range(rng.randint(2, 5))]
        label = 'mixed'
    expect = []
    expect.append(good(0, rng.random() < 0.5))
    for n, kind in enumerate(kinds):
        r.ev('malformed_injected')
        junk = bytes(rng.getrandbits(8) for _ in range(rng.randint(1, 30)))
        if kind == 'cont-without-start':
            inject(acl(h, 1, junk))
        elif kind == 'start-exceeds-length':
            inject(acl(h, 2, l2(CID, junk, declared=max(0, len(junk) - rng.randint(1, len(junk))))))
        elif kind == 'start-start':
            inject(acl(h, 2, l2(CID, junk, declared=len(junk) + 10)))
        elif kind == 'truncated-start-1':
            inject(acl(h, 2, b'\x05'))
        elif kind == 'truncated-start-0':
            inject(acl(h, 2, b''))
        elif kind == 'unknown-pb':
            inject(acl(h, 3, junk))
        elif kind == 'cont-overruns':
            inject(acl(h, 2, l2(CID, junk, declared=len(junk) + 3)))
            inject(acl(h, 1, bytes(10)))
        elif kind == 'short-then-good':
            inject(acl(h, 2, l2(CID, junk, declared=len(junk) + 50)))
        elif kind == 'header-split':
            # a *well-formed* PDU whose 4-byte L2CAP header is split across fragments
            p = payload_for(50 + n, rng.choice([0, 3, 30]))
            whole = l2(CID, p)
            cut = rng.choice([2, 3])
            inject(acl(h, 2, whole[:cut]))
            inject(acl(h, 1, whole[cut:]))
            expect.append(p)
        expect.append(good(n + 1, rng.random() < 0.5))
    await rg.quiesce()
    r.ev('oracle_evals')
    if got != expect:
        missing = [i for i, p in enumerate(expect) if p not in got]
        r.bad(f'malform/next-pdu-affected/{tr}/after-{label}',
              f'kinds={kinds}: delivered {len(got)} PDUs, expected {len(expect)}; missing indexes {missing}; '
              f'extra={[g[:8].hex() for g in got if g not in expect][:3]}')
    # the connection must still be there
    r.ev('oracle_evals')
    if cb.handle not in rg.hosts[1].connections:
        r.bad(f'malform/connection-lost/{tr}', f'connection vanished after {kinds}')
    r.sig('malformed', classic, tuple(kinds))
    r.evals()
    r.sample = {'kind': 'malformed', 'transport': tr, 'sequence': kinds}


def iso_case(case, r: R):
    async def go():
        from bumble.host import Host, DataPacketQueue, IsoLink
        rng = random.Random(case['seed'])
        L = rng.choice([5, 6, 27, 64, 251, 960])
        out = []
        host = Host()
        q = DataPacketQueue(max_packet_size=L, max_in_flight=10 ** 6, send=lambda p: out.append(bytes(p)))
        host.iso_packet_queue = q
        handle = rng.choice([0x010, 0xEFF, 0x123])
        link = IsoLink(handle=handle, packet_queue=q)
        if rng.random() < 0.5:
            host.cis_links[handle] = link
        else:
            host.bis_links[handle] = link
        start_seq = rng.choice([0, 1, 0xFFFE, 0xFFFF, 7])
        link.packet_sequence_number = start_seq
        sizes = [rng.choice([0, 1, L - 5, L - 4, L - 3, L, L + 1, 2 * L - 4, 2 * L - 3, 3 * L, 4095, rng.randint(0, 4095)])
                 for _ in range(rng.randint(1, 8))]
        sizes = [max(0, s) for s in sizes]
        seq = start_seq
        for n, size in enumerate(sizes):
            sdu = payload_for(n, size)
            before = len(out)
            host.send_iso_sdu(handle, sdu)
            pk = out[before:]
            if size == 0 and not pk:
                r.ev('iso_empty_sdu_no_packet')
                seq = (seq + 1) & 0xFFFF
                continue
            rebuilt = b''
            for i, p in enumerate(pk):
                r.ev('iso_fragments')
                r.ev('oracle_evals', 3)
                if p[0] != 5:
                    r.bad('iso/packet-type', f'type byte {p[0]}')
                    continue
                hf, ln = struct.unpack_from('<HH', p, 1)
                body = p[5:]
                pb, ts = (hf >> 12) & 3, (hf >> 14) & 1
                if hf & 0xFFF != handle:
                    r.bad('iso/handle', f'handle {hf & 0xFFF:#x} != {handle:#x}')
                if ln & 0x3FFF != len(body):
                    r.bad('iso/length-field', f'data_total_length {ln & 0x3FFF} != {len(body)}')
                if len(body) > L:
                    r.bad('iso/too-long', f'ISO data load {len(body)} > controller ISO data length {L}')
                first, last = i == 0, i == len(pk) - 1
                want_pb = 0b10 if first and last else 0b00 if first else 0b11 if last else 0b01
                if pb != want_pb:
                    r.bad('iso/pb-flag', f'fragment {i + 1}/{len(pk)} has pb={pb:02b}, expected {want_pb:02b}')
                off = 0
                if ts:
                    off += 4
                if first:
                    psn, info = struct.unpack_from('<HH', body, off)
                    off += 4
                    if psn != seq:
                        r.bad('iso/sequence-number', f'packet sequence number {psn}, expected {seq}')
                    if info & 0xFFF != size:
                        r.bad('iso/sdu-length', f'ISO_SDU_Length {info & 0xFFF}, SDU has {size}')
                    if info >> 14:
                        r.bad('iso/status-flag', f'host-sent packet status flag {info >> 14}')
                rebuilt += body[off:]
            r.ev('oracle_evals')
            if rebuilt != sdu:
                r.bad('iso/sdu-mismatch', f'fragments rebuild {len(rebuilt)} bytes, SDU has {size} (L={L})')
            seq = (seq + 1) & 0xFFFF
        r.sig('iso', L, start_seq, tuple(sizes))
        r.evals()
        r.sample = {'kind': 'iso', 'iso_data_packet_length': L, 'start_seq': start_seq, 'sdu_sizes': sizes}
    return go()


# =============================================================================
# life: delivery and fragmentation across life-cycle events
# =============================================================================
ADDRESS_KINDS = ['random', 'public', 'set-random', 'set-public']


async def life_connect(rg, kind, init_public, round_):
    """Device 0 connects to device 1, which is reached through its controller's random address, its PUBLIC address,
    or an extended advertising set with its own random address / the public address. Returns (central conn,
    peripheral conn)."""
    from bumble import hci
    from bumble.device import AdvertisingParameters, AdvertisingEventProperties
    c, p = rg.devices[0], rg.devices[1]
    fut = rg.loop.create_future()
    p.once('connection', lambda conn: fut.done() or fut.set_result(conn))
    if kind.startswith('set'):
        own = hci.OwnAddressType.PUBLIC if kind == 'set-public' else hci.OwnAddressType.RANDOM
        set_address = hci.Address(f'C{round_ & 7}:5E:75:E7:00:F{round_ & 7}', hci.Address.RANDOM_DEVICE_ADDRESS)
        await vloop.vwait(p.create_advertising_set(
            advertising_parameters=AdvertisingParameters(
                advertising_event_properties=AdvertisingEventProperties(is_connectable=True, is_scannable=False),
                primary_advertising_interval_min=40, primary_advertising_interval_max=40, own_address_type=own),
            random_address=set_address, auto_start=True))
        target = p.public_address if kind == 'set-public' else set_address
    else:
        own = hci.OwnAddressType.PUBLIC if kind == 'public' else hci.OwnAddressType.RANDOM
        await vloop.vwait(p.start_advertising(auto_restart=False, own_address_type=own, advertising_interval_min=40,
                                              advertising_interval_max=40))
        target = p.public_address if kind == 'public' else p.random_address
    iown = hci.OwnAddressType.PUBLIC if init_public else hci.OwnAddressType.RANDOM
    cc = await vloop.vwait(c.connect(target, own_address_type=iown, timeout=30))
    pc = await vloop.vwait(fut)
    return cc, pc


async def life(case, r: R):
    """One pair of devices through a life: connection (peripheral reached through one of four kinds of address),
    transfer, Host.reset() of either host with the link still up (same controller, same geometry), a bulk transfer
    (more fragments than the controller has buffers, unacknowledged) cut by a disconnection of either side, a NEW
    connection (same or another kind of address) - after each event a transfer in both directions must arrive
    intact, exactly once, in order (observed at the Hosts' 'l2cap_pdu' events) with well-formed fragments."""
    from bumble import hci
    from bumble.core import PhysicalTransport
    from vlib import rig as vrig
    rng = random.Random(case['seed'] ^ 0x11FE)
    vrig.seed_entropy(case['seed'])
    classic = rng.random() < 0.2
    lens = [rng.choice(LENS) for _ in range(2)]
    nums = [rng.choice([1, 2, 3, 8, 64]) for _ in range(2)]
    delay = rng.choice([0, 0, 1, 4])
    kw = dict(acl_len=lens, acl_num=nums) if classic else dict(le_acl_len=lens, le_acl_num=nums)
    rg = vrig.Rig(2, seed=case['seed'], max_delay=delay, classic=classic, **kw)
    ext = (not classic) and rng.random() < 0.5
    if ext:
        for c in rg.controllers:
            c.le_features = c.le_features | hci.LeFeatureMask.LE_EXTENDED_ADVERTISING
    await rg.power_on()
    tr = 'bredr' if classic else 'le'
    got = {0: [], 1: []}        # (handle, payload) seen by each HOST
    for i in (0, 1):
        rg.hosts[i].on('l2cap_pdu', lambda handle, cid, pdu, _i=i: got[_i].append((handle, bytes(pdu))) if cid == CID else None)
    hist = []
    counter = [0]
    r.ev('life_cases')

    def kinds():
        if classic:
            return ['public']
        return ADDRESS_KINDS if ext else ADDRESS_KINDS[:2]

    async def connect(round_):
        if classic:
            cc, pc = await rg.connect_classic(0, 1)
            kind = 'public'
        else:
            kind = rng.choice(kinds())
            cc, pc = await life_connect(rg, kind, rng.random() < 0.3, round_)
        await rg.quiesce()
        hist.append(f'connected/{kind}')
        r.ev(f'life_connections_{kind.replace("-", "_")}')
        return cc, pc, kind

    async def transfer(cc, pc, kind, phase, senders=(0, 1)):
        """PDUs both ways (or from `senders` only); True when everything arrived intact."""
        marks = {i: len(got[i]) for i in (0, 1)}
        start_log = len(rg.hci_log)
        sent = {0: [], 1: []}
        plan_ = [(w, s) for w in senders for s in sizes_for(rng, lens[w], False)]
        # per direction, more fragments than the sender's controller has buffers
        for who in senders:
            need = nums[who] + 2
            while need > 0:
                size = min(lens[who] * need - 4 + rng.choice([-1, 0, 1]), 20000)
                plan_.append((who, size))
                need -= -(-(size + 4) // lens[who])
        rng.shuffle(plan_)
        for who, size in plan_:
            counter[0] += 1
            p = payload_for(counter[0], size)
            rg.hosts[who].send_l2cap_pdu((cc if who == 0 else pc).handle, CID, p)
            sent[who].append(p)
            if rng.random() < 0.3:
                await asyncio.sleep(0)

        async def done():
            while len(got[1]) - marks[1] < len(sent[0]) or len(got[0]) - marks[0] < len(sent[1]):
                await asyncio.sleep(0.05)
        key = f'{tr}/{phase}/peripheral-{kind}'
        r.ev('life_transfers')
        r.ev(f'life_transfers_{phase.replace("-", "_")}')
        try:
            await vloop.vwait(done(), 120)
        except vloop.Hang:
            pending = [getattr(h.connections.get(c.handle), 'acl_packet_queue', None) for h, c in ((rg.hosts[0], cc), (rg.hosts[1], pc))]
            r.bad(f'deliver/lost/life/{key}',
                  f'host 1 got {len(got[1]) - marks[1]}/{len(sent[0])} and host 0 got {len(got[0]) - marks[0]}/{len(sent[1])} PDUs '
                  f'120 virtual s after they were sent; lens={lens} nums={nums} sizes={[len(p) for p in sent[0]]}/'
                  f'{[len(p) for p in sent[1]]}; packets still queued in the hosts: {[q.pending if q else None for q in pending]}; '
                  f'history {hist}; exceptions={rg.exceptions[:2]}')
            return False
        await rg.quiesce()
        ok = True
        for src, dst, dconn in ((0, 1, pc), (1, 0, cc)):
            have = got[dst][marks[dst]:]
            r.ev('oracle_evals')
            r.ev('pdus_delivered', len(have))
            r.ev('life_pdus_delivered', len(have))
            want = [(dconn.handle, p) for p in sent[src]]
            if have != want:
                ok = False
                hp = [p for _h, p in have]
                if hp == sent[src]:
                    r.bad(f'deliver/wrong-handle/life/{key}', f'host {dst} attributes the PDUs to handle {[hex(h) for h, _ in have][:3]}, '
                                                              f'the connection has {dconn.handle:#x}; history {hist}')
                elif sorted(hp) == sorted(sent[src]):
                    r.bad(f'deliver/reordered/life/{key}', f'host {dst} received the PDUs in another order; history {hist}')
                elif len(hp) > len(sent[src]):
                    r.bad(f'deliver/duplicated/life/{key}', f'host {dst} got {len(hp)} PDUs for {len(sent[src])} sent; history {hist}')
                else:
                    k = next(i for i in range(len(hp)) if hp[i] != sent[src][i])
                    r.bad(f'deliver/corrupt/life/{key}', f'PDU #{k}: got {len(hp[k])} bytes, sent {len(sent[src][k])}; lens={lens}; '
                                                         f'history {hist}')
        # fragment oracle over what each host emitted during this transfer
        for dev, conn in ((0, cc), (1, pc)):
            L = lens[dev]
            ref = vrig.RefReassembler()
            rebuilt = []
            in_pdu = False
            for seq, d, direction, pkt, _t in rg.hci_log[start_log:]:
                if d != dev or direction != vrig.H2C or pkt[0] != 2:
                    continue
                handle, pb, bc, data = vrig.parse_acl(pkt)
                r.ev('fragments_checked')
                r.ev('life_fragments_checked')
                r.ev('oracle_evals', 3)
                if handle != conn.handle:
                    ok = False
                    r.bad(f'frag/foreign-handle/life/{key}', f'dev{dev} emitted an ACL packet for handle {handle:#x} while its only '
                                                             f'connection has {conn.handle:#x}; history {hist}')
                    continue
                if len(data) > L:
                    ok = False
                    r.bad(f'frag/too-long/life/{key}', f'ACL fragment of {len(data)} bytes > controller data length {L}; history {hist}')
                want_pb = 1 if in_pdu else 0
                if pb != want_pb:
                    ok = False
                    r.bad(f'frag/{"continuation" if in_pdu else "first"}-marker/life/{key}',
                          f'fragment carries pb={pb:02b}, expected {want_pb:02b}; history {hist}')
                    pb = want_pb
                for cid, payload in ref.feed((dev, handle), pb, data):
                    if cid == CID:
                        rebuilt.append(payload)
                in_pdu = (dev, handle) in ref.buf
            r.ev('oracle_evals')
            if rebuilt != sent[dev]:
                ok = False
                r.bad(f'frag/reassembly-mismatch/life/{key}',
                      f'independent reassembly of dev{dev} fragments gives {len(rebuilt)} PDUs, {len(sent[dev])} were sent '
                      f'(lens={lens}); history {hist}')
        return ok

    try:
        cc, pc, kind = await connect(0)
        if not await transfer(cc, pc, kind, 'first-connection'):
            return
        steps = rng.sample(['reset', 'reset', 'cut', 'cut', 'reconnect'], rng.choice([2, 3, 3, 4]))
        for n, step in enumerate(steps):
            if step == 'reset':
                # the application restarts its stack on a controller that stays up: the link is still there
                who = rng.choice([0, 1])
                await rg.quiesce()
                await vloop.vwait(rg.hosts[who].reset())
                await rg.quiesce()
                hist.append(f'host-{who}-reset')
                r.ev('life_second_resets_with_link_up')
                r.ev('oracle_evals')
                if (cc if who == 0 else pc).handle not in rg.hosts[who].connections:
                    r.ev('life_reset_dropped_the_connection')       # then nothing is demanded of it
                    return
                # (the Device of the host that was reset has dropped its Connection objects at the flush: what that
                # host RECEIVES afterwards is not judged, what it SENDS on the link it still has is)
                if not await transfer(cc, pc, kind, 'after-second-reset', senders=(who,)):
                    return
                hist.append('not-usable-towards-the-reset-host')
                # the scenario goes on with a new connection
                await vloop.vwait((pc if who == 0 else cc).disconnect())
                await rg.quiesce()
                cc, pc, kind = await connect(n + 1)
                r.ev('life_reconnections')
                if not await transfer(cc, pc, kind, 'after-reconnection'):
                    return
                continue
            if step == 'cut':
                # a bulk transfer (more fragments than the controller has buffers), cut by a disconnection
                who = rng.choice([0, 1])
                conn = cc if who == 0 else pc
                total = 0
                while total < nums[who] + rng.choice([2, 10, 70]):
                    size = min(lens[who] * rng.choice([3, 8, 70]) - 4, 20000)
                    counter[0] += 1
                    rg.hosts[who].send_l2cap_pdu(conn.handle, CID, payload_for(counter[0], size))
                    total += -(-(size + 4) // lens[who])
                for _ in range(rng.choice([0, 1, 3, 10, 40])):
                    await asyncio.sleep(0)
                by = rng.choice(['sender', 'receiver'])
                dropper = conn if by == 'sender' else (pc if who == 0 else cc)
                before = len([x for x in rg.hci_log if x[1] == who and x[2] == vrig.H2C and x[3][0] == 2])
                await vloop.vwait(dropper.disconnect())
                await rg.quiesce()
                hist.append(f'bulk-{total}-fragments-from-{who}-cut-by-{by}')
                r.ev('life_bulk_transfers_cut')
                if total >= nums[who] + 10:
                    r.ev('life_bulk_transfers_cut_far_beyond_buffers')
            else:
                await vloop.vwait(rng.choice([cc, pc]).disconnect())
                await rg.quiesce()
                hist.append('disconnected')
            # everything the hosts saw so far belongs to the old connection
            cc, pc, kind = await connect(n + 1)
            r.ev('life_reconnections')
            phase = 'after-cut-bulk-transfer' if step == 'cut' else 'after-reconnection'
            if not await transfer(cc, pc, kind, phase):
                return
    except vloop.Hang:
        r.bad(f'life/hang/{tr}', f'a connect() / disconnect() / reset() was still pending at T_v; history {hist}; '
                                 f'exceptions={rg.exceptions[:2]}')
    except Exception as e:
        from bumble import core
        if isinstance(e, (core.TimeoutError, asyncio.TimeoutError, core.ConnectionError, hci.HCI_Error)):
            r.bad(f'life/call-failed/{tr}/{type(e).__name__}', f'{type(e).__name__}: {e}; history {hist}')
        else:
            raise
    for where, e in rg.exceptions:
        r.bad(f'deliver/exception-in-stack/life/{tr}', f'{where}: {e}; lens={lens} history {hist}')
    r.sig('life', classic, ext, tuple(lens), tuple(nums), tuple(hist))
    r.sched.add(rg.schedule_signature)
    r.evals()
    r.sample = {'kind': 'life', 'transport': tr, 'acl_len': lens, 'acl_num': nums, 'delay': delay, 'history': hist}


# =============================================================================
# hostwire: fragments against the data length of the pool the link belongs to
# =============================================================================
class _FragState:
    __slots__ = ('k', 'ref', 'in_pdu', 'cur', 'lost', 'rebuilt')

    def __init__(self):
        from vlib import rig as vrig
        self.k = 0              # index of the next submitted unit expected to start
        self.ref = vrig.RefReassembler()
        self.in_pdu = False
        self.cur = None         # ISO: bytes of the SDU being rebuilt
        self.lost = False       # framing lost on this link: reported once, not judged further
        self.rebuilt = 0


class HostwireFragJudge:
    def __init__(self, r: R):
        self.r = r

    def on_reset(self, sc): pass
    def on_settle(self, sc, after): pass

    def on_stray(self, sc, pk):
        self.r.ev('hostwire_stray_not_judged_here')

    def on_exception(self, sc, what, e):
        self.r.bad(f'hostwire/raises/{what}', f'{type(e).__name__}: {e}; {sc.context()}')

    def on_emit(self, sc, pk):
        r, link = self.r, pk.link
        pool = link.pool
        L = pool.length
        phase = '' if sc.phase < 2 else '/after-second-reset'
        st = link.state
        if st is None:
            st = link.state = _FragState()
        r.ev('hostwire_fragments_checked')
        r.ev(f'hostwire_fragments_{link.kind}')
        if sc.phase >= 2:
            r.ev('hostwire_fragments_after_second_reset')
        if len(pk.data) == L:
            r.ev('hostwire_fragments_at_length_limit')
        r.ev('oracle_evals', 3)
        if pk.type != (5 if link.is_iso else 2):
            r.bad(f'hostwire/packet-type/{pool.name}', f'{pk.brief()} on {link!r}; {sc.context()}')
            st.lost = True
            return
        if pk.declared != len(pk.data):
            r.bad(f'hostwire/length-field/{pool.name}', f'header says {pk.declared}, packet carries {len(pk.data)}')
        if len(pk.data) > L:
            r.bad(f'hostwire/fragment-too-long/{pool.name}{phase}',
                  f'{pk.brief()} on {link!r}: {len(pk.data)} data bytes > the {L} the controller advertised for pool '
                  f'{pool.name} (pools: { {p.name: (p.length, p.count) for p in sc.pools.values()} }); {sc.context(12)}')
        if st.lost:
            return
        if link.is_iso:
            self._iso(sc, pk, link, st)
        else:
            self._acl(sc, pk, link, st)

    def _acl(self, sc, pk, link, st):
        r, pool = self.r, link.pool
        pb = pk.pb
        r.ev('oracle_evals', 2)
        if pk.bc != 0:
            r.bad(f'hostwire/bc-flag/{pool.name}', f'host->controller fragment with broadcast flag {pk.bc}')
        if not st.in_pdu:
            if pb != 0:
                r.bad(f'hostwire/first-marker/{pool.name}', f'first fragment of a PDU carries pb={pb:02b}, expected 00; '
                                                            f'{sc.context(12)}')
                pb = 0
        else:
            if pb != 1:
                r.bad(f'hostwire/continuation-marker/{pool.name}', f'later fragment carries pb={pb:02b}, expected 01; '
                                                                   f'{sc.context(12)}')
                pb = 1
            elif len(pk.data) == 0:
                r.ev('hostwire_empty_continuation_fragments')
        for cid, payload in st.ref.feed(link, pb, pk.data):
            r.ev('oracle_evals')
            r.ev('hostwire_pdus_rebuilt')
            want = link.units[st.k] if st.k < len(link.units) else None
            if want != (cid, payload):
                r.bad(f'hostwire/reassembly-mismatch/{pool.name}',
                      f'{link!r}: fragments rebuild PDU #{st.k} as cid={cid:#x} {len(payload)} bytes, submitted was '
                      f'{"nothing" if want is None else (hex(want[0]), len(want[1]))}; {sc.context(12)}')
                st.lost = True
            st.k += 1
        st.in_pdu = link in st.ref.buf

    def _iso(self, sc, pk, link, st):
        r = self.r
        r.ev('oracle_evals', 2)
        first = st.cur is None
        if first != (pk.pb in (0b00, 0b10)):
            r.bad('hostwire/iso-pb-flag', f'{pk.brief()} on {link!r}: {"first" if first else "later"} fragment of an SDU '
                                          f'carries pb={pk.pb:02b}; {sc.context(12)}')
            st.lost = True
            return
        if first:
            # an empty SDU may legitimately have produced no packet at all
            while st.k < len(link.units) and not link.units[st.k] and pk.sdu_len:
                st.k += 1
                r.ev('hostwire_iso_empty_sdu_no_packet')
            if st.k >= len(link.units):
                r.bad('hostwire/reassembly-mismatch/iso', f'{link!r}: an SDU starts although all {len(link.units)} '
                                                          f'submitted ones were seen; {sc.context(12)}')
                st.lost = True
                return
            r.ev('oracle_evals', 3)
            if pk.psn is None:
                r.bad('hostwire/iso-header', f'{pk.brief()} on {link!r}: first fragment too short for the SDU header')
                st.lost = True
                return
            if pk.psn != st.k & 0xFFFF:
                r.bad('hostwire/iso-sequence-number', f'{link!r}: packet sequence number {pk.psn} on SDU #{st.k} of '
                                                      f'this link; {sc.context(12)}')
            if pk.sdu_len != len(link.units[st.k]):
                r.bad('hostwire/iso-sdu-length', f'{link!r}: ISO_SDU_Length {pk.sdu_len}, SDU has '
                                                 f'{len(link.units[st.k])}; {sc.context(12)}')
            if pk.status_flag:
                r.bad('hostwire/iso-status-flag', f'host-sent packet status flag {pk.status_flag}')
            st.cur = bytearray()
        st.cur += pk.payload
        want = link.units[st.k]
        last = len(st.cur) >= len(want)
        want_pb = (0b10 if last else 0b00) if first else (0b11 if last else 0b01)
        if pk.pb != want_pb:
            r.bad('hostwire/iso-pb-flag', f'{pk.brief()} on {link!r}: {len(st.cur)}/{len(want)} SDU bytes seen, '
                                          f'expected pb={want_pb:02b}; {sc.context(12)}')
        if last:
            r.ev('oracle_evals')
            r.ev('hostwire_sdus_rebuilt')
            if bytes(st.cur) != want:
                r.bad('hostwire/reassembly-mismatch/iso', f'{link!r}: fragments rebuild SDU #{st.k} as {len(st.cur)} '
                                                          f'bytes, submitted {len(want)}; {sc.context(12)}')
                st.lost = True
            st.k += 1
            st.cur = None

    def on_link_closed(self, sc, link):
        """A discarded link may stop anywhere, but what it emitted is a prefix of what was submitted;
        a link that lived to the end (every buffer returned) emitted everything."""
        r, st = self.r, link.state
        if st is None:
            st = link.state = _FragState()
        if st.lost:
            return
        r.ev('oracle_evals')
        if link.is_iso:
            partial = bytes(st.cur) if st.cur is not None else b''
            want = link.units[st.k] if st.k < len(link.units) else b''
            rest = any(link.units[st.k:]) or st.cur is not None
        else:
            partial = bytes(st.ref.buf.get(link, b''))
            want = b''
            if st.k < len(link.units):
                cid, payload = link.units[st.k]
                want = l2(cid, payload)
            rest = st.k < len(link.units)
        if partial != want[:len(partial)]:
            r.bad(f'hostwire/reassembly-mismatch/{link.pool.name}',
                  f'{link!r}: the unfinished unit #{st.k} does not start like the submitted one; {sc.context(12)}')
        elif link.alive and rest:
            r.bad(f'hostwire/reassembly-incomplete/{link.pool.name}',
                  f'{link!r}: units from #{st.k} on never (completely) emitted although every buffer was returned; '
                  f'{sc.context(12)}')

    def on_finish(self, sc): pass


async def hostwire_case(case, r: R):
    from vlib import hostwire
    rng = random.Random(case['seed'] ^ 0x5057)
    sc = None
    for _ in range(case['histories']):
        sc = await hostwire.run_history(rng, r, HostwireFragJudge(r))
        if sc.multi_fragment_units:
            r.sig('hostwire', *sc.signature())
        r.evals()
    r.sample = sc.summary()


def run_case(case, r: R):
    if case['kind'] == 'hostwire':
        return hostwire_case(case, r)
    if case['kind'] == 'xfer':
        return xfer(case, r)
    if case['kind'] == 'life':
        return life(case, r)
    if case['kind'] == 'malformed':
        return malformed(case, r)
    return iso_case(case, r)


LEVEL_TEXT = ('Fragment-level oracle (length bound, start/continuation markers, independent reassembly) over the '
              "sender's HCI log and exact delivery at the receiver for ~480 (quick) / ~4800 (thorough) generated "
              'geometries and PDU size sequences incl. 65531..65535-byte payloads, LE and BR/EDR; 9 kinds of '
              'malformed fragment sequences injected between good PDUs; ISO SDU fragmentation checked field by field; '
              '2400 (quick) / 38400 (thorough) histories of a real Host reset against a Controller whose BR/EDR, LE '
              '(dedicated or shared) and ISO pools have different lengths, with hand-played BR/EDR / LE / CIS / BIS links '
              'and a second reset with another geometry: every emitted fragment against the length of its own pool; '
              '240 (quick) / 2000 (thorough) device-pair lives (peripheral reached through random / public / advertising-set '
              'addresses, Host.reset() with the link up, bulk transfers cut by a disconnection, new connections) with the '
              'delivery and fragment oracles after every event. '
              'Sampling with boundary-biased sizes, not proof.')
LEVEL_NOTE = ('Trusted: vlib/rig.py taps and RefReassembler (20 lines), the hand-built ACL/L2CAP/ISO headers in '
              'checks/c05.py, the ledger and hand-written HCI events of vlib/hostwire.py, virtual-time loop. In the '
              'iso cases ISO is driven through Host.send_iso_sdu with a capture queue, not '
              'through a CIS on the virtual controller.')
TECHNIQUE = 'runtime monitoring: offline fragment checker over tapped HCI log + delivery equality + malformed-sequence injection'
