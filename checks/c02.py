"""C02 — HCI byte streams are re-framed into the same packets under any chunking.

Monitors (all observe the real bumble framers from outside; the expected framing is
known by construction from vlib/ref_h4.py, which never runs a parser):

  frame    hand-built streams of 1-8 H4 packets x chunkings, fed to
             PacketParser.feed_data            (push; count checked after every chunk)
             PacketReader                      (blocking, io.BufferedReader over a raw
                                                stream that returns short reads)
             AsyncPacketReader                 (asyncio.StreamReader fed chunk-wise)
             Event/Acl/Sco PacketSplitter      (USB endpoints; same-type, no type byte)
           oracle: after every chunk, #emitted == #packets wholly inside the fed prefix
           (none early, none late); final list == built list; all framers agree.
  exhaust  every sequence of 1-3 packets over 5 types x bodies {0,1,2}, every split into
           <= 3 chunks (3-packet sequences in quick: <= 2) and 1-byte chunks, all framers.
           Pull readers additionally get streams that end inside a packet (must report,
           never hand out a packet that was not sent).
  invalid  an unrecognised type byte at every packet boundary (alone / glued to the tail
           of the previous chunk / glued in front of more data / through
           StreamPacketSource.data_received): the push parser must report it, deliver
           everything that was complete before it, and frame what is fed next exactly.
  usbsrc   UsbPacketSource (no hardware: constructed with no device) — three endpoint
           streams chunked independently and interleaved; sink must get typed H4 packets,
           per-endpoint order exact.
  sources  every class of bumble.transport.common that takes bytes in and hands packets to a sink,
           found at run time (PacketParser, ParserSource, StreamPacketSource, PumpedPacketSource,
           PacketPump, SnoopingTransport.Source, + module-level source classes of importable transport
           modules), each driven the way it takes bytes (feed_data / .parser / data_received /
           datagram_received / its receive coroutine / a StreamReader) through the same chunkings with the
           same step oracle; classes that look like sources but cannot be driven are listed
  isolation  2-4 framers of mixed kinds alive at once, their chunk feeds interleaved (so each is mid-packet
           while the others are fed); one of them gets a vendor packet type through
           extended_packet_info before / after the others exist / late: it must frame packets of that type
           (built by hand from the info tuple), every OTHER framer must report that type byte as invalid
           and keep framing, and nothing fed to one may show at another's sink
  client   REAL ws-client (against a raw `websockets` server), tcp-client, unix-client, udp, pty and
           file (on a pty replica) transports opened through their open_* functions; the raw peer sends
           the stream one chunk per message / datagram / write; step oracle at the transport's sink;
           half of the runs have a sibling source with a registered vendor type whose type byte the
           StreamPacketSource-based transports get at a packet boundary
  server   REAL loopback sockets: tcp_server, unix server (mkdtemp), ws_server.  Client 1
           is cut at every byte position of a short stream (half-close / close / reset),
           client 2 sends a known stream; sink must equal complete(client-1 prefix) +
           client-2 packets. Also chains of three clients.
  sinkraise  the error path at the hand-over to the next layer: the packet sink raises (10 exception types,
           InvalidPacketError among them) on the packet at EVERY position of the stream (once), on 2-3 calls in
           a row, on two separate calls, on every call, and works otherwise.  Every driveable source class
           (PacketParser, ParserSource, StreamPacketSource, PumpedPacketSource with its pump task, PacketPump,
           SnoopingTransport.Source, SerialPacketSource), loops around PacketReader / AsyncPacketReader,
           UsbPacketSource with its dequeue task (one endpoint under all chunkings; 2-3 endpoints interleaved),
           and - on real sockets - tcp / unix / ws servers (two clients in a row) and the ws-client / tcp-client /
           unix-client / udp / pty / file transports.  Chunkings: all of the above plus the raising packet ending
           exactly at a chunk end / followed by the rest of the stream in the same chunk / by half a packet.
           oracle: the step oracle over the CALLS the sink received (the packet it raised on was handed over):
           every later packet exactly once, in order, right bytes, none early/late; nothing escapes the source.
"""
from __future__ import annotations

import asyncio
import bisect
import io
import os
import random
import shutil
import socket
import tempfile
import time

from vlib import ref_h4 as H
from vlib import vloop
from vlib.result import R

ID = 'C02'
LEVEL = 'exploration'
RULE = ('streams of 1-8 hand-built H4 packets (5 types; bodies 0,1,2,3,127,128,254,255 and for '
        '16-bit lengths 256,257,511,512,4096,16383,16384,32768,49152,65534,65535; hostile body bytes) x chunkings '
        '(every 2-chunk split for streams <= 3000 B else all offsets within 8 B of a packet '
        'start/end, 1-byte chunks for streams <= 1500 B, per-packet / header-aligned cuts, 3-6 '
        'random cut sets incl. empty chunks, whole stream). A (stream, chunking family) is '
        'non-trivial when some chunk boundary falls strictly inside a packet or a chunk holds '
        '>= 2 packets; distinct = distinct (stream bytes, family, framer set). Exhaustive '
        'sub-space: all 1-3 packet sequences over 5 types x bodies {0,1,2} x every split into '
        '<= 3 chunks (3-packet sequences in quick: <= 2 chunks). Server cases: transport x stream pair x every '
        'cut position x cut style; non-trivial when the cut is inside a packet. Source-class cases: every '
        'driveable class found in bumble.transport.common x streams of 1-5 packets x the same chunking families. '
        'Isolation cases: 2-4 framers (PacketParser / ParserSource / StreamPacketSource / PumpedPacketSource) x '
        'order of registration of a vendor type (owner first / last / late / none) x type byte x info tuple x '
        'random interleaving of their chunk feeds; distinct = (order, type, info, framer kinds, first stream). '
        'Client cases: transport x stream x chunking (whole, per-packet, bytewise for <= 64 B, sampled 2-chunk '
        'splits inside packets, random cut sets) x sibling-with-extension before / after / none. '
        'Sink-raises cases: source x stream of 1-5 packets x set of sink calls that raise (every single position; a run '
        'of 2 and of 3; two separate; all) x exception type x chunking (the families above with every 2-chunk split and '
        '1-byte chunks for streams <= 48 B quick / 96 B thorough, + raising packet ends a chunk / shares its chunk with '
        'all that follows / with half of the next packet); a history counts when the sink did raise and the source '
        'was fed to the end; distinct = (stream bytes, raising calls, family).')
ASSUMPTIONS = [
    'the 16-bit length field of an ISO data packet is framed as 16 bits by every framer (its RFU top bits belong to the ISO layer)',
    'PacketReader is given what its signature names, an io.BufferedReader (blocking read(n) returns n '
    'bytes unless EOF); short reads happen at the raw layer underneath, with buffer sizes 1..8192',
    'bytes that share a chunk with an invalid type byte and follow it may be dropped or framed, but not '
    'partly; everything fed in later calls must be framed exactly',
    'tcp and unix server transports keep a client after an unrecognised type byte (the push parser "frames subsequently '
    'fed well-formed data correctly" is read at the transport boundary): what that client sends next must come out; '
    'the websocket server, which drops the client at the pinned commit, is not judged on this',
    'extended_packet_info[type] = (length-size, length-offset, unpack-type) means: after the type byte, '
    '`length-offset` octets, then the body length in `length-size` octets little-endian, then the body (the same reading as '
    'HCI_PACKET_INFO); it belongs to the parser it was set on and to no other',
    'a PumpedPacketSource ends its pump on an invalid type byte (terminated carries the error) and a datagram / websocket '
    'client transport does not survive one either: for those only "reported, nothing invented" is judged, not what follows',
    'pty and file client cases need a pty device; when the operating system has none they are listed in '
    'coverage.client_transports_unavailable and not required by MIN_EVENTS',
    'a websocket client is "cut at byte position c" by sending the first c bytes in 1-2 binary messages '
    'and then closing or aborting the connection',
    'a packet on which sink.on_packet raised HAS been handed over (the call was made); "none lost, duplicated" is judged on '
    'the calls the sink received: the source need not and must not call again with that packet, and an exception of the '
    'next layer is not a reason to stop, skip, merge or re-frame anything that follows (every source at the pinned commit '
    'logs it and goes on)',
]
MIN_EVENTS = {
    'quick': {'parser_chunks': 1000000, 'reader_packets': 1500000, 'areader_chunks': 1000000,
              'usb_chunks': 700000, 'oracle_evals': 8000000, 'agree_evals': 500000,
              'exhaustive_chunkings': 80000, 'huge_streams': 50, 'truncated_streams': 3000,
              'invalid_injections': 7000, 'invalid_reported': 7000, 'invalid_reported_by_reader': 2400,
              'usbsrc_packets': 4000, 'usbsrc_transfers': 5000, 'usbsrc_empty_iso_packets': 800,
              'server_tcp_cuts': 120, 'server_unix_cuts': 120, 'server_ws_cuts': 90,
              'server_packets_seen': 1000, 'source_sink_reattached_mid_packet': 20000,
              'server_clients_reset_with_unread_data': 60, 'server_invalid_byte_clients': 20,
              'source_class_chunkings': 50000, 'source_chunkings_PumpedPacketSource': 7000,
              'source_chunkings_StreamPacketSource': 7000, 'source_chunkings_ParserSource': 7000,
              'source_chunkings_PacketPump': 7000, 'source_classes_driven': 7,
              'isolation_feeds': 40000, 'isolation_foreign_type_reported': 5000, 'isolation_extensions_registered': 2500,
              'client_ws-client_chunkings': 50, 'client_tcp-client_chunkings': 50, 'client_unix-client_chunkings': 50,
              'client_udp_chunkings': 50, 'client_foreign_type_bytes': 60,
              'sinkraise_histories': 90000, 'sinkraise_packets_after_raise': 190000, 'sinkraise_raises_observed': 170000,
              'sinkraise_histories_PacketParser': 10000, 'sinkraise_histories_ParserSource': 10000,
              'sinkraise_histories_StreamPacketSource': 10000, 'sinkraise_histories_PumpedPacketSource': 10000,
              'sinkraise_histories_PacketPump': 10000, 'sinkraise_histories_SnoopingTransport.Source': 10000,
              'sinkraise_histories_PacketReader-loop': 6000, 'sinkraise_histories_AsyncPacketReader-loop': 6000,
              'sinkraise_histories_UsbPacketSource': 6000, 'sinkraise_histories_UsbPacketSource-endpoints-interleaved': 350,
              'sinkraise_raise_at_chunk_end': 24000, 'sinkraise_raise_mid_chunk_packets_follow': 48000,
              'sinkraise_raise_mid_chunk_partial_follows': 20000, 'sinkraise_bytewise_histories': 1900,
              'sinkraise_histories_several_raises': 44000, 'sinkraise_raise_on_last_packet': 12000,
              'sinkraise_socket_histories': 50, 'sinkraise_histories_server-tcp': 4, 'sinkraise_histories_server-unix': 4,
              'sinkraise_histories_server-ws': 4, 'sinkraise_histories_transport-tcp-client': 9,
              'sinkraise_histories_transport-unix-client': 9, 'sinkraise_histories_transport-ws-client': 9,
              'sinkraise_histories_transport-udp': 9},
    'thorough': {'parser_chunks': 20000000, 'reader_packets': 30000000, 'areader_chunks': 20000000,
                 'usb_chunks': 15000000, 'oracle_evals': 150000000, 'agree_evals': 10000000,
                 'exhaustive_chunkings': 400000, 'huge_streams': 2000, 'truncated_streams': 100000,
                 'invalid_injections': 150000, 'invalid_reported': 150000, 'invalid_reported_by_reader': 50000,
                 'usbsrc_packets': 100000, 'usbsrc_transfers': 100000, 'usbsrc_empty_iso_packets': 15000,
                 'server_tcp_cuts': 1200, 'server_unix_cuts': 1200, 'server_ws_cuts': 1200,
                 'server_packets_seen': 12000, 'source_sink_reattached_mid_packet': 400000,
                 'server_clients_reset_with_unread_data': 600, 'server_invalid_byte_clients': 250,
                 'source_class_chunkings': 1500000, 'source_chunkings_PumpedPacketSource': 200000,
                 'source_chunkings_StreamPacketSource': 200000, 'source_chunkings_ParserSource': 200000,
                 'source_chunkings_PacketPump': 200000, 'source_classes_driven': 7,
                 'isolation_feeds': 1500000, 'isolation_foreign_type_reported': 200000, 'isolation_extensions_registered': 100000,
                 'client_ws-client_chunkings': 1200, 'client_tcp-client_chunkings': 1200, 'client_unix-client_chunkings': 1200,
                 'client_udp_chunkings': 1200, 'client_foreign_type_bytes': 2000,
                 'sinkraise_histories': 2500000, 'sinkraise_packets_after_raise': 5500000, 'sinkraise_raises_observed': 4500000,
                 'sinkraise_histories_PacketParser': 280000, 'sinkraise_histories_ParserSource': 280000,
                 'sinkraise_histories_StreamPacketSource': 280000, 'sinkraise_histories_PumpedPacketSource': 280000,
                 'sinkraise_histories_PacketPump': 280000, 'sinkraise_histories_SnoopingTransport.Source': 280000,
                 'sinkraise_histories_PacketReader-loop': 180000, 'sinkraise_histories_AsyncPacketReader-loop': 180000,
                 'sinkraise_histories_UsbPacketSource': 160000, 'sinkraise_histories_UsbPacketSource-endpoints-interleaved': 9000,
                 'sinkraise_raise_at_chunk_end': 600000, 'sinkraise_raise_mid_chunk_packets_follow': 1300000,
                 'sinkraise_raise_mid_chunk_partial_follows': 500000, 'sinkraise_bytewise_histories': 50000,
                 'sinkraise_histories_several_raises': 1100000, 'sinkraise_raise_on_last_packet': 300000,
                 'sinkraise_socket_histories': 1500, 'sinkraise_histories_server-tcp': 100, 'sinkraise_histories_server-unix': 100,
                 'sinkraise_histories_server-ws': 100, 'sinkraise_histories_transport-tcp-client': 250,
                 'sinkraise_histories_transport-unix-client': 250, 'sinkraise_histories_transport-ws-client': 250,
                 'sinkraise_histories_transport-udp': 250},
}
CASE_TIMEOUT = 600
SOCKET_WAIT = 60.0          # wall seconds for one counted socket event; expiry => inconclusive
EXHAUSTIVE_NOTE = ('all sequences of 1-3 packets over 5 types x body lengths {0,1,2} (3615 sequences): every '
                   'split into 1, 2 and 3 chunks (3-packet sequences in quick: 1 and 2 chunks) and 1-byte '
                   'chunks, through parser, blocking reader, async reader; same-type sequences also through '
                   'the USB splitter of that type')


class HarnessTimeout(Exception):
    """A counted socket event did not arrive within SOCKET_WAIT wall seconds."""


# =============================================================================
# plan
# =============================================================================
def plan(tier, seed):
    q = tier == 'quick'
    cases = []
    base = seed * 1000003
    for i in range(256 if q else 6000):
        cases.append({'kind': 'frame', 'seed': base + i, 'streams': 6 if q else 10})
    for i in range(32 if q else 960):
        cases.append({'kind': 'big', 'seed': base + 5000 + i, 'streams': 2 if q else 3})
    # exhaustive tiny sequences, partitioned by first packet (type x body)
    for t in H.ALL_TYPES:
        for b in (0, 1, 2):
            cases.append({'kind': 'exhaust', 'first': [t, b], 'depth': 3, 'cuts3': 1 if q else 2,
                          'seed': base + t * 7 + b})
    for i in range(96 if q else 2400):
        cases.append({'kind': 'invalid', 'seed': base + 9000 + i, 'streams': 6 if q else 12})
    for i in range(48 if q else 600):
        cases.append({'kind': 'usbsrc', 'seed': base + 13000 + i, 'rounds': 20 if q else 40})
    for i in range(32 if q else 480):
        cases.append({'kind': 'sources', 'seed': base + 23000 + i, 'streams': 5 if q else 8,
                      'all2': 300 if q else 600, 'census': i == 0})
    for i in range(32 if q else 960):
        cases.append({'kind': 'isolation', 'seed': base + 29000 + i, 'rounds': 200 if q else 300})
    for kind in CLIENT_KINDS:
        for i in range(2 if q else 24):
            cases.append({'kind': 'client', 'transport': kind, 'seed': base + 31000 + i,
                          'streams': 4 if q else 6, 'splits': 8 if q else 16})
    # the packet sink raises on the packet at every position (once, k times in a row, always), every source
    for i in range(32 if q else 640):
        cases.append({'kind': 'sinkraise', 'seed': base + 37000 + i, 'streams': 2 if q else 3,
                      'all2': 48 if q else 96})
    for i in range(1 if q else 12):
        for kind in ('tcp', 'unix', 'ws'):
            cases.append({'kind': 'sinkraise-socket', 'side': 'server', 'transport': kind,
                          'seed': base + 41000 + i, 'streams': 1 if q else 2})
        for kind in CLIENT_KINDS:
            cases.append({'kind': 'sinkraise-socket', 'side': 'client', 'transport': kind,
                          'seed': base + 43000 + i, 'streams': 1 if q else 2})
    nsrv = 2 if q else 24
    for kind in ('tcp', 'unix', 'ws'):
        for i in range(nsrv):
            for style in (('half-close', 'close', 'abort', 'reset-unread', 'invalid-byte') if kind != 'ws' else ('close', 'abort')):
                cases.append({'kind': 'server', 'transport': kind, 'style': style,
                              'seed': base + 17000 + i, 'chain': False})
        for i in range(2 if q else 16):
            cases.append({'kind': 'server', 'transport': kind, 'style': 'mixed',
                          'seed': base + 19000 + i, 'chain': True})
    return cases


# =============================================================================
# streams and chunkings
# =============================================================================
class Stream:
    __slots__ = ('packets', 'bounds', 'data', 'desc', 'types', 'typed')

    def __init__(self, packets):
        self.packets = list(packets)
        self.bounds = H.bounds_of(self.packets)
        self.data = b''.join(self.packets)
        self.types = [p[0] for p in self.packets]
        self.typed = True
        self.desc = [(H.NAME[p[0]], len(p) - 1 - H.header_size(p[0])) for p in self.packets]

    def cut_class(self, pos):
        if pos >= len(self.data):
            return 'at-end'
        return H.cut_class(self.types, self.bounds, pos, self.typed)


def gen_stream(rng, nmax=8, same_type=None, allow_huge=False, small=False):
    n = rng.choice([1, 1, 2, 2, 3, 4, 5, 6, 7, 8])
    n = min(n, nmax)
    pk = []
    for _ in range(n):
        t = same_type or rng.choice(H.ALL_TYPES)
        width = H.LAYOUT[t][1]
        if small:
            bl = rng.choice([0, 0, 1, 2, 3, 5])
        elif allow_huge and t in H.HUGE and rng.random() < 0.5:
            bl = rng.choice(H.HUGE_CHOICES[t])
        else:
            bl = rng.choice(H.BOUNDARY_LENGTHS[width] + (0, 0, 1, rng.randint(0, 40)))
        pk.append(H.make_packet(rng, t, bl))
    return Stream(pk)


def untyped(s: Stream) -> Stream:
    """The same packets as a USB endpoint carries them: no type byte."""
    u = Stream.__new__(Stream)
    u.packets = [p[1:] for p in s.packets]
    u.bounds = H.bounds_of(u.packets)
    u.data = b''.join(u.packets)
    u.types = s.types
    u.typed = False
    u.desc = s.desc
    return u


def chunkings(rng, s: Stream, all2_limit=3000, one_limit=1500, nrandom=None):
    """Yield (family, cuts) — cuts are sorted stream offsets; repeats give empty chunks."""
    N = len(s.data)
    yield 'whole', []
    # every 2-chunk split, or the neighbourhood of every structural position
    if N <= all2_limit:
        for c in range(N + 1):
            yield 'all2', [c]
    else:
        pts = set()
        start = 0
        for b in s.bounds:
            for d in range(0, 9):
                pts.add(min(N, start + d))
                pts.add(max(0, b - d))
            start = b
        for c in sorted(pts):
            yield 'near2', [c]
        for _ in range(24):
            yield 'rand2', [rng.randint(0, N)]
    if N <= one_limit:
        yield 'bytewise', list(range(1, N))
    # one packet per chunk; type byte alone; header alone (chunk ends exactly after a header)
    yield 'per-packet', s.bounds[:-1]
    starts = [0] + s.bounds[:-1]
    hdr = []
    for st, t in zip(starts, s.types):
        hdr.append(st + (1 if s.typed else 0) + H.header_size(t))
    if s.typed:
        yield 'type-alone', sorted(set([st + 1 for st in starts] + s.bounds[:-1]))
    yield 'header-alone', sorted(set(hdr + s.bounds[:-1]))
    yield 'header-end-only', sorted(set(hdr))
    yield 'boundary+1', sorted(set(min(N, b + 1) for b in s.bounds[:-1]))
    yield 'boundary-1', sorted(set(max(0, b - 1) for b in s.bounds))
    for _ in range(nrandom if nrandom is not None else rng.randint(3, 6)):
        k = rng.choice([1, 2, 2, 3, 5, 9, 17, min(64, N)])
        cuts = sorted(rng.randint(0, N) for _ in range(k))
        if rng.random() < 0.3 and cuts:
            cuts = sorted(cuts + [rng.choice(cuts)])     # an empty chunk
        yield 'random', cuts


def nontrivial(s: Stream, cuts) -> bool:
    bset = set(s.bounds)
    if any(c not in bset and c != 0 for c in cuts):
        return True
    prev = 0
    for c in list(cuts) + [len(s.data)]:
        if H.complete_in_prefix(s.bounds, c) - H.complete_in_prefix(s.bounds, prev) >= 2:
            return True
        prev = c
    return False


# =============================================================================
# step oracle
# =============================================================================
class Steps:
    """None early, none late: after every chunk the framer must have emitted exactly the
    packets wholly contained in what it has been fed, byte for byte.

    Key of a failure: <framer>/<clause>/<type>/<length class> of the *culprit* — the first
    packet of the stream that did not come out as built (first index at which the emitted
    list stops being a prefix of the built list). Where the cut fell goes into the detail."""

    def __init__(self, r: R, framer, s: Stream, family, cuts, plain_key=False):
        self.r, self.framer, self.s, self.family, self.cuts = r, framer, s, family, cuts
        self.failed = False
        self.verified = 0
        self.plain_key = plain_key

    def key(self, clause, i):
        if self.plain_key:
            return f'{self.framer}/{clause}'
        if i >= len(self.s.types):
            return f'{self.framer}/{clause}/past-last-packet'
        return f'{self.framer}/{clause}/{self.s.desc[i][0]}/{H.len_class(self.s.desc[i][1])}'

    def ctx(self):
        return (f'stream={self.s.desc} family={self.family} cuts={self.cuts[:24]}'
                f'{"..." if len(self.cuts) > 24 else ""} bytes={self.s.data[:48].hex()}'
                f'{"..." if len(self.s.data) > 48 else ""}')

    def _content(self, out):
        """Index of the first emitted packet that differs from the built one, or None."""
        want = self.s.packets
        for i in range(self.verified, min(len(out), len(want))):
            if out[i] != want[i]:
                return i
            self.verified = i + 1
        return None

    def raised(self, e, fed, out, what):
        self.failed = True
        i = self._content(out)
        i = len(out) if i is None else i
        self.r.bad(self.key(f'raised/{type(e).__name__}', i),
                   f'{what} raised {e!r} on well-formed data after {fed} bytes '
                   f'(cut {self.s.cut_class(fed)}), {len(out)} packets out; {self.ctx()}')

    def after(self, fed, out):
        if self.failed:
            return False
        want = H.complete_in_prefix(self.s.bounds, fed)
        self.r.ev('oracle_evals')
        bad = self._content(out)
        if bad is None and len(out) == want:
            return True
        self.failed = True
        cls = self.s.cut_class(fed)
        if bad is not None:
            i = bad
            clause = 'early' if i >= want else 'content'
            got = bytes(out[i])
            self.r.bad(self.key(clause, i),
                       f'packet {i} came out as {got[:24].hex()} ({len(got)} B), built as '
                       f'{self.s.packets[i][:24].hex()} ({len(self.s.packets[i])} B); {len(out)} emitted after '
                       f'{fed} bytes (cut {cls}), {want} complete; {self.ctx()}')
        elif len(out) > want:
            self.r.bad(self.key('early', want),
                       f'{len(out)} packets emitted after {fed} bytes (cut {cls}), only {want} complete; {self.ctx()}')
        else:
            self.r.bad(self.key('late', len(out)),
                       f'{len(out)} packets emitted after {fed} bytes (cut {cls}) although {want} are complete; '
                       f'{self.ctx()}')
        return False

    def final(self, out):
        if self.failed:
            return False
        want = self.s.packets
        self.r.ev('oracle_evals')
        bad = self._content(out)
        if bad is None and len(out) == len(want):
            return True
        self.failed = True
        if bad is not None:
            self.r.bad(self.key('content', bad),
                       f'packet {bad}: got {bytes(out[bad])[:24].hex()} ({len(out[bad])} B) want '
                       f'{want[bad][:24].hex()} ({len(want[bad])} B); {self.ctx()}')
        elif len(out) < len(want):
            self.r.bad(self.key('lost', len(out)), f'{len(out)} packets for {len(want)} sent; {self.ctx()}')
        else:
            self.r.bad(self.key('extra', len(want)), f'{len(out)} packets for {len(want)} sent; extra '
                       f'{bytes(out[len(want)])[:16].hex()}; {self.ctx()}')
        return False


class Collect:
    def __init__(self):
        self.packets = []

    def on_packet(self, p):
        self.packets.append(p)


# =============================================================================
# the framers
# =============================================================================
def drive_parser(r: R, s: Stream, family, cuts):
    from bumble.transport.common import PacketParser

    sink = Collect()
    parser = PacketParser(sink)
    st = Steps(r, 'parser', s, family, cuts)
    fed = 0
    for ch in H.split_at(s.data, cuts):
        try:
            parser.feed_data(ch)
        except Exception as e:
            st.raised(e, fed, sink.packets, 'feed_data')
            return None
        fed += len(ch)
        r.ev('parser_chunks')
        if not st.after(fed, sink.packets):
            return None
    st.final(sink.packets)
    return sink.packets


class Forward:
    """Sink that appends to a shared list (the packet order across sink changes is what counts)."""

    def __init__(self, out):
        self.out = out

    def on_packet(self, p):
        self.out.append(p)


def drive_source(r: R, rng, s: Stream, family, cuts):
    """The parser as transports own it: a ParserSource fed through `source.parser`, whose sink is
    attached before the first byte and attached again (a bridge or a second Host taking over the
    transport) at 1-2 chunk boundaries, which may fall inside a packet."""
    from bumble.transport.common import ParserSource

    out = []
    src = ParserSource()
    src.set_packet_sink(Forward(out))
    chunks = H.split_at(s.data, cuts)
    resink = set(rng.sample(range(1, len(chunks)), min(len(chunks) - 1, rng.choice([1, 1, 2])))) if len(chunks) > 1 else set()
    st = Steps(r, 'source-resink', s, family, cuts)
    fed = 0
    for i, ch in enumerate(chunks):
        if i in resink:
            src.set_packet_sink(Forward(out))
            r.ev('source_sink_reattached')
            if fed not in s.bounds:
                r.ev('source_sink_reattached_mid_packet')
        try:
            src.parser.feed_data(ch)
        except Exception as e:
            st.raised(e, fed, out, 'source.parser.feed_data')
            return None
        fed += len(ch)
        if not st.after(fed, out):
            return None
    st.final(out)
    return out


class ShortRaw(io.RawIOBase):
    """Raw byte source that hands out at most the rest of the current chunk per call."""

    def __init__(self, chunks):
        super().__init__()
        self.chunks = [c for c in chunks if c]
        self.i = 0
        self.off = 0
        self.pos = 0
        self.calls = 0

    def readable(self):
        return True

    def readinto(self, b):
        self.calls += 1
        if self.i >= len(self.chunks):
            return 0
        ch = self.chunks[self.i]
        n = min(len(b), len(ch) - self.off)
        b[:n] = ch[self.off:self.off + n]
        self.off += n
        self.pos += n
        if self.off == len(ch):
            self.i += 1
            self.off = 0
        return n


def drive_reader(r: R, s: Stream, family, cuts, bufsize):
    from bumble.transport.common import PacketReader

    chunks = H.split_at(s.data, cuts)
    raw = ShortRaw(chunks)
    ends = []
    pos = 0
    for c in raw.chunks:
        pos += len(c)
        ends.append(pos)
    reader = PacketReader(io.BufferedReader(raw, buffer_size=bufsize))
    st = Steps(r, 'reader', s, family, cuts)
    out = []
    for k, want in enumerate(s.packets):
        try:
            p = reader.next_packet()
        except Exception as e:
            st.raised(e, raw.pos, out, f'next_packet (bufsize={bufsize})')
            return None
        r.ev('reader_packets')
        r.ev('oracle_evals')
        if p is None:
            st.failed = True
            r.bad(st.key('lost', k),
                  f'next_packet returned None before packet {k} (raw pos {raw.pos}); {st.ctx()}')
            return None
        out.append(p)
        if p != want:
            st.failed = True
            r.bad(st.key('content', k), f'packet {k}: got {bytes(p)[:24].hex()} ({len(p)} B) want '
                  f'{want[:24].hex()} ({len(want)} B); bufsize={bufsize}; {st.ctx()}')
            return None
        # none late: it must not have pulled a chunk that starts at or after this packet's end
        limit = ends[bisect.bisect_left(ends, s.bounds[k])] if s.bounds[k] <= ends[-1] else ends[-1]
        r.ev('oracle_evals')
        if raw.pos > limit:
            st.failed = True
            r.bad(st.key('late', k),
                  f'packet {k} (ends at {s.bounds[k]}) returned only after reading up to {raw.pos} '
                  f'(chunk holding its last byte ends at {limit}); bufsize={bufsize}; {st.ctx()}')
            return None
    try:
        p = reader.next_packet()
    except Exception as e:
        r.bad(st.key(f'raised/{type(e).__name__}', len(s.packets)), f'next_packet at clean EOF raised {e!r}; {st.ctx()}')
        return None
    r.ev('oracle_evals')
    if p is not None:
        r.bad(st.key('extra', len(s.packets)), f'next_packet returned {bytes(p)[:16].hex()} after the last packet; {st.ctx()}')
        return None
    return out


async def drive_areader(r: R, s: Stream, family, cuts):
    from bumble.transport.common import AsyncPacketReader

    sr = asyncio.StreamReader(limit=2 ** 20)
    rd = AsyncPacketReader(sr)
    out = []
    err = []

    async def pump():
        while True:
            try:
                out.append(await rd.next_packet())
            except asyncio.IncompleteReadError as e:
                err.append(e)
                return
            except Exception as e:  # noqa
                err.append(e)
                return

    task = asyncio.ensure_future(pump())
    st = Steps(r, 'areader', s, family, cuts)
    fed = 0
    ok = True
    for ch in H.split_at(s.data, cuts):
        sr.feed_data(ch)
        fed += len(ch)
        r.ev('areader_chunks')
        await asyncio.sleep(0)
        await asyncio.sleep(0)
        if len(out) < H.complete_in_prefix(s.bounds, fed):
            for _ in range(20):       # be sure "late" is not just a loop turn we did not grant
                await asyncio.sleep(0)
        if err:
            st.raised(err[0], fed, out, 'next_packet')
            ok = False
            break
        if not st.after(fed, out):
            ok = False
            break
    sr.feed_eof()
    for _ in range(5):
        if task.done():
            break
        await asyncio.sleep(0)
    if not task.done():
        task.cancel()
    if not ok:
        return None
    r.ev('oracle_evals')
    if err and not isinstance(err[0], asyncio.IncompleteReadError):
        r.bad(st.key(f'raised/{type(err[0]).__name__}', len(s.packets)), f'{err[0]!r} at EOF; {st.ctx()}')
        return None
    if err and isinstance(err[0], asyncio.IncompleteReadError) and err[0].partial:
        r.bad(st.key('extra', len(s.packets)), f'reader consumed {err[0].partial.hex()} beyond the last packet; {st.ctx()}')
        return None
    st.final(out)
    return out


async def drive_truncated(r: R, rng, s: Stream):
    """The stream ends inside a packet: the pull readers must hand out the complete
    packets and then report (exception / None), never a packet that was not sent."""
    from bumble.transport.common import AsyncPacketReader, PacketReader

    inside = [c for c in range(1, len(s.data)) if c not in set(s.bounds)]
    if not inside:
        return
    c = rng.choice(inside)
    n = H.complete_in_prefix(s.bounds, c)
    cuts = sorted(rng.randint(0, c) for _ in range(rng.choice([0, 1, 3])))
    chunks = H.split_at(s.data[:c], cuts)
    ctx = f'stream={s.desc} truncated at {c} ({s.cut_class(c)}) cuts={cuts}'
    reader = PacketReader(io.BufferedReader(ShortRaw(chunks), buffer_size=rng.choice([1, 5, 4096])))
    out = []
    for _ in range(n + 2):
        try:
            p = reader.next_packet()
        except Exception:
            break
        if p is None:
            break
        out.append(p)
    r.ev('truncated_streams')
    r.ev('oracle_evals')
    if out != s.packets[:n]:
        r.bad('reader/truncated/' + ('invented-packet' if len(out) > n else 'lost-or-changed'),
              f'blocking reader returned {[bytes(p)[:12].hex() for p in out]} for a stream holding {n} complete '
              f'packets; {ctx}')
    sr = asyncio.StreamReader(limit=2 ** 20)
    ar = AsyncPacketReader(sr)
    for ch in chunks:
        sr.feed_data(ch)
    sr.feed_eof()
    out = []
    for _ in range(n + 2):
        try:
            out.append(await ar.next_packet())
        except Exception:
            break
    r.ev('oracle_evals')
    if out != s.packets[:n]:
        r.bad('areader/truncated/' + ('invented-packet' if len(out) > n else 'lost-or-changed'),
              f'async reader returned {[bytes(p)[:12].hex() for p in out]} for a stream holding {n} complete '
              f'packets; {ctx}')


USB_CLASSES = {H.EVT: 'EventPacketSplitter', H.ACL: 'AclPacketSplitter', H.SCO: 'ScoPacketSplitter'}


def drive_usb(r: R, u: Stream, ptype, family, cuts):
    from bumble.transport import usb

    out = []
    splitter = getattr(usb, USB_CLASSES[ptype])(out.append)
    name = 'usb-' + H.NAME[ptype]
    st = Steps(r, name, u, family, cuts)
    fed = 0
    for ch in H.split_at(u.data, cuts):
        try:
            splitter.feed(ch)
        except Exception as e:
            st.raised(e, fed, out, 'feed')
            return None
        fed += len(ch)
        r.ev('usb_chunks')
        if not st.after(fed, out):
            return None
    out = [bytes(p) for p in out]
    st.final(out)
    return out


# =============================================================================
# frame / big / exhaust
# =============================================================================
async def frame_stream(r: R, rng, s: Stream, **kw):
    """All framers over all chunkings of one stream; returns number of chunkings."""
    n = 0
    fams = set()
    for family, cuts in chunkings(rng, s, **kw):
        n += 1
        a = drive_parser(r, s, family, cuts)
        b = drive_reader(r, s, family, cuts, rng.choice([1, 2, 3, 7, 16, 255, 256, 4096, 8192]))
        c = await drive_areader(r, s, family, cuts)
        if cuts and n % 4 == 1:
            drive_source(r, rng, s, family, cuts)
        r.ev('chunkings')
        if a is not None and b is not None and c is not None:
            r.ev('agree_evals')
            r.ev('oracle_evals')
            if not (a == b == c):
                r.bad('agree/parser-reader-areader', f'framers disagree: parser {len(a)} reader {len(b)} '
                      f'areader {len(c)} packets; stream={s.desc} cuts={cuts[:20]}')
        if family not in fams and nontrivial(s, cuts):
            fams.add(family)
            r.sig('h4', s.data[:4096], len(s.data), family)
    for _ in range(3):
        await drive_truncated(r, rng, s)
    r.evals(n)
    return n


async def usb_stream(r: R, rng, s: Stream, ptype, **kw):
    """USB splitter over all chunkings of the type-less stream, and agreement with the push
    parser run over the typed stream (whole)."""
    u = untyped(s)
    n = 0
    fams = set()
    ref = drive_parser(r, s, 'whole', [])
    for family, cuts in chunkings(rng, u, **kw):
        n += 1
        out = drive_usb(r, u, ptype, family, cuts)
        r.ev('chunkings')
        if out is not None and ref is not None:
            r.ev('agree_evals')
            r.ev('oracle_evals')
            if [bytes([ptype]) + p for p in out] != ref:
                r.bad(f'agree/parser-usb-{H.NAME[ptype]}', f'USB splitter and push parser disagree on '
                      f'stream={s.desc} cuts={cuts[:20]}')
        if family not in fams and nontrivial(u, cuts):
            fams.add(family)
            r.sig('usb', ptype, u.data[:4096], len(u.data), family)
    r.evals(n)
    return n


async def frame_case(case, r: R):
    rng = random.Random(case['seed'])
    last = None
    for i in range(case['streams']):
        s = gen_stream(rng)
        await frame_stream(r, rng, s)
        t = rng.choice([H.EVT, H.ACL, H.SCO])
        su = gen_stream(rng, same_type=t)
        await usb_stream(r, rng, su, t)
        last = (s, su)
    r.sample = {'kind': 'frame', 'stream': last[0].desc, 'stream_bytes': len(last[0].data),
                'usb_stream': last[1].desc, 'hex': last[0].data[:40].hex()}


async def big_case(case, r: R):
    rng = random.Random(case['seed'])
    last = None
    for i in range(case['streams']):
        s = gen_stream(rng, nmax=4, allow_huge=True)
        if not any(d[1] > 4096 for d in s.desc):
            t = rng.choice([H.ACL, H.ISO])
            s = Stream(s.packets[:2] + [H.make_packet(rng, t, rng.choice(H.HUGE_CHOICES[t]))] + s.packets[2:3])
        r.ev('huge_streams')
        await frame_stream(r, rng, s, nrandom=4)
        su = gen_stream(rng, nmax=3, same_type=H.ACL)
        su = Stream(su.packets[:1] + [H.make_packet(rng, H.ACL, 65535)] + su.packets[1:])
        await usb_stream(r, rng, su, H.ACL, nrandom=4)
        last = s
    r.sample = {'kind': 'big', 'stream': last.desc, 'stream_bytes': len(last.data)}


def all_cut_sets(N, maxcuts):
    yield []
    for a in range(N + 1):
        yield [a]
    if maxcuts >= 2:
        for a in range(N + 1):
            for b in range(a, N + 1):
                yield [a, b]


async def exhaust_case(case, r: R):
    rng = random.Random(case['seed'])
    first = tuple(case['first'])
    combos = [(t, b) for t in H.ALL_TYPES for b in (0, 1, 2)]

    def seqs(depth):
        yield [first]
        if depth >= 2:
            for c in combos:
                yield [first, c]
        if depth >= 3:
            for c in combos:
                for d in combos:
                    yield [first, c, d]

    nseq = 0
    for seq in seqs(case['depth']):
        nseq += 1
        s = Stream([H.make_packet(rng, t, b) for t, b in seq])
        N = len(s.data)
        # 1-2 packets: every split into <= 3 chunks; 3 packets: <= 2 chunks (quick) / <= 3 (thorough)
        maxcuts = 2 if len(seq) <= 2 else case.get('cuts3', 1)
        n = 0
        for cuts in list(all_cut_sets(N, maxcuts)) + [list(range(1, N))]:
            n += 1
            fam = f'exh{len(cuts) if len(cuts) < 3 else "-bytewise"}'
            a = drive_parser(r, s, fam, cuts)
            b = drive_reader(r, s, fam, cuts, 1 + (n % 5))
            c = await drive_areader(r, s, fam, cuts)
            r.ev('chunkings')
            r.ev('exhaustive_chunkings')
            if a is not None and b is not None and c is not None:
                r.ev('agree_evals')
                if not (a == b == c):
                    r.bad('agree/parser-reader-areader', f'framers disagree on stream={s.desc} cuts={cuts}')
        r.evals(n)
        r.sig('exh', tuple(seq))
        # same-type sequences also go through the USB splitter of that type
        types = {t for t, _ in seq}
        if len(types) == 1 and first[0] in USB_CLASSES:
            u = untyped(s)
            for cuts in list(all_cut_sets(len(u.data), 2)) + [list(range(1, len(u.data)))]:
                drive_usb(r, u, first[0], 'exh', cuts)
                r.ev('chunkings')
                r.ev('exhaustive_chunkings')
            r.sample = {'kind': 'exhaust', 'first': list(first), 'depth': case['depth'], 'sequences': nseq}


# =============================================================================
# invalid type byte
# =============================================================================
def is_report(e):
    from bumble import core
    return isinstance(e, (core.InvalidPacketError, ValueError))


async def invalid_stream(r: R, rng, s: Stream):
    from bumble.transport.common import AsyncPacketReader, PacketParser, PacketReader, StreamPacketSource

    n = len(s.packets)
    for k in range(n + 1):                       # every packet boundary, incl. start and end
        bad = rng.choice(H.INVALID_TYPES + (rng.choice([x for x in range(6, 256)]),))
        pre = Stream(s.packets[:k])
        post = Stream(s.packets[k:] + [H.make_packet(rng, rng.choice(H.ALL_TYPES), rng.choice([0, 1, 5]))])
        where = 'start' if k == 0 else 'end' if k == n else 'middle'
        for mode in ('alone', 'tail', 'head', 'mid', 'source', 'repeat'):
            r.ev('invalid_injections')
            sink = Collect()
            if mode == 'source':
                src = StreamPacketSource()
                src.set_packet_sink(sink)
                feed = src.data_received
            else:
                parser = PacketParser(sink)
                feed = parser.feed_data
            ctx = (f'mode={mode} bad=0x{bad:02x} boundary={k}/{n} stream={s.desc} '
                   f'pre={pre.data[-16:].hex()} post={post.data[:16].hex()}')
            # ---- the part before the invalid byte -------------------------------------
            pre_cuts = sorted(rng.randint(0, len(pre.data)) for _ in range(rng.choice([0, 1, 3]))) if k else []
            pre_chunks = H.split_at(pre.data, pre_cuts)
            junk = []
            if mode in ('head', 'mid'):
                junk = [H.make_packet(rng, rng.choice(H.ALL_TYPES), rng.choice([0, 1, 3]))
                        for _ in range(rng.choice([1, 1, 2, 3]))]
            if mode in ('tail', 'mid'):
                last = pre_chunks.pop()
                inject = last + bytes([bad]) + b''.join(junk)
            else:
                inject = bytes([bad]) + b''.join(junk)
            bad_pre = False
            for ch in pre_chunks:
                try:
                    feed(ch)
                except Exception as e:
                    r.bad(f'invalid/raised-before/{type(e).__name__}', f'{e!r} on well-formed prefix; {ctx}')
                    bad_pre = True
                    break
            if bad_pre:
                continue
            # ---- the invalid byte -----------------------------------------------------
            reported = None
            try:
                feed(inject)
            except Exception as e:
                reported = e
            r.ev('oracle_evals')
            if mode == 'source':
                if reported is not None:
                    r.bad(f'invalid/source-raised/{type(reported).__name__}',
                          f'StreamPacketSource.data_received let {reported!r} escape; {ctx}')
                    continue
                r.ev('invalid_reported')
            elif reported is None:
                r.bad(f'invalid/not-reported/{mode}/{where}', f'feed_data did not raise for an invalid type byte; {ctx}')
                continue
            elif not is_report(reported):
                r.bad(f'invalid/wrong-exception/{type(reported).__name__}', f'{reported!r}; {ctx}')
                continue
            else:
                r.ev('invalid_reported')
            if mode == 'repeat':
                again = 0
                for _ in range(rng.randint(1, 3)):
                    b2 = rng.choice(H.INVALID_TYPES)
                    try:
                        feed(bytes([b2]))
                    except Exception as e:
                        if is_report(e):
                            again += 1
                            continue
                    r.bad(f'invalid/not-reported/repeat/{where}', f'second invalid byte 0x{b2:02x} not reported; {ctx}')
            # everything complete before the invalid byte has been delivered, nothing else
            r.ev('oracle_evals')
            got = list(sink.packets)
            if got[:k] != pre.packets or len(got) < k:
                r.bad(f'invalid/lost-before/{mode}/{where}',
                      f'{len(got)} packets delivered, the {k} before the invalid byte were complete; {ctx}')
                continue
            extra = got[k:]
            r.ev('oracle_evals')
            if extra and extra != junk:
                r.bad(f'invalid/same-chunk-misframed/{mode}',
                      f'bytes after the invalid byte in the same chunk framed as {[bytes(p)[:8].hex() for p in extra]}, '
                      f'sent {[p[:8].hex() for p in junk]}; {ctx}')
                continue
            r.ev('invalid_same_chunk_framed' if extra else 'invalid_same_chunk_dropped', 1 if junk else 0)
            base = len(got)
            # ---- subsequently fed well-formed data must frame exactly -----------------
            fam, cuts = rng.choice(list(chunkings(rng, post, all2_limit=40, one_limit=200, nrandom=2)))
            st = Steps(r, f'invalid/after/{mode}', post, fam, cuts, plain_key=True)
            fed = 0
            good = True
            for ch in H.split_at(post.data, cuts):
                try:
                    feed(ch)
                except Exception as e:
                    r.bad(f'invalid/after/{mode}/raised/{type(e).__name__}', f'{e!r} on well-formed data fed '
                          f'after the error; {ctx} {st.ctx()}')
                    good = False
                    break
                fed += len(ch)
                r.ev('parser_chunks')
                if not st.after(fed, sink.packets[base:]):
                    good = False
                    break
            if good:
                st.final(sink.packets[base:])
            r.evals()
        r.sig('invalid', s.data[:512], k, bad)

        # ---- pull readers: deliver the k packets, then report, never invent a packet --
        stream = pre.data + bytes([bad]) + post.data
        cuts = sorted(rng.randint(0, len(stream)) for _ in range(rng.choice([0, 2, 5])))
        raw = ShortRaw(H.split_at(stream, cuts))
        reader = PacketReader(io.BufferedReader(raw, buffer_size=rng.choice([1, 8, 4096])))
        out = []
        rep = None
        for _ in range(k + 1):
            try:
                p = reader.next_packet()
            except Exception as e:
                rep = e
                break
            out.append(p)
        r.ev('oracle_evals')
        if out != pre.packets or rep is None or not is_report(rep):
            r.bad('invalid/reader', f'blocking reader returned {len(out)} packets then {rep!r}; wanted the {k} '
                  f'packets then an InvalidPacketError; bad=0x{bad:02x} stream={s.desc}')
        else:
            r.ev('invalid_reported_by_reader')
        sr = asyncio.StreamReader(limit=2 ** 20)
        ar = AsyncPacketReader(sr)
        for ch in H.split_at(stream, cuts):
            sr.feed_data(ch)
        sr.feed_eof()
        out = []
        rep = None
        for _ in range(k + 1):
            try:
                out.append(await ar.next_packet())
            except Exception as e:
                rep = e
                break
        r.ev('oracle_evals')
        if out != pre.packets or rep is None or not is_report(rep):
            r.bad('invalid/areader', f'async reader returned {len(out)} packets then {rep!r}; wanted the {k} '
                  f'packets then an InvalidPacketError; bad=0x{bad:02x} stream={s.desc}')
        else:
            r.ev('invalid_reported_by_reader')


async def invalid_case(case, r: R):
    rng = random.Random(case['seed'])
    s = None
    for _ in range(case['streams']):
        s = gen_stream(rng, nmax=5, small=rng.random() < 0.5)
        await invalid_stream(r, rng, s)
    r.sample = {'kind': 'invalid', 'stream': s.desc, 'boundaries': len(s.packets) + 1,
                'modes': ['alone', 'tail', 'head', 'mid', 'source', 'repeat']}


# =============================================================================
# every source class of bumble.transport.common (found at run time), in process
# =============================================================================
class _NullSnooper:
    def snoop(self, packet, direction):
        pass


def source_classes():
    """(name, class, how-it-takes-bytes) for every class defined in bumble.transport.common (nested
    classes one level down included) and the module-level source classes of the transport modules
    that import without hardware.  `how` is None for a class that looks like a source (BaseSource
    subclass, or has a parser / feed_data / next_packet) but takes its bytes in a way this harness
    does not know: those are listed in coverage.source_classes_undriven, never silently skipped."""
    import importlib
    import inspect
    from bumble.transport import common

    found = []
    mods = [common]
    for extra in ('bumble.transport.serial',):
        try:
            mods.append(importlib.import_module(extra))
        except Exception:
            pass
    seen = set()
    for mod in mods:
        classes = []
        for name, cls in sorted(vars(mod).items()):
            if inspect.isclass(cls) and cls.__module__ == mod.__name__:
                classes.append((name, cls))
                for n2, c2 in sorted(vars(cls).items()):
                    if inspect.isclass(c2) and c2.__module__ == mod.__name__:
                        classes.append((f'{name}.{n2}', c2))
        for name, cls in classes:
            if cls in seen:
                continue
            seen.add(cls)
            how = None
            framer = False
            if issubclass(cls, common.PacketParser):
                how, framer = 'parser', True
            elif issubclass(cls, common.PumpedPacketSource):
                how, framer = 'pumped', True
            elif issubclass(cls, common.ParserSource):
                framer = True
                if hasattr(cls, 'data_received'):
                    how = 'data_received'
                elif hasattr(cls, 'datagram_received'):
                    how = 'datagram_received'
                elif cls is common.ParserSource:
                    how = 'parser-attr'
            elif cls is common.PacketPump:
                how, framer = 'pump', True
            elif cls is common.PacketReader:
                how, framer = 'reader', True
            elif cls is common.AsyncPacketReader:
                how, framer = 'areader', True
            elif cls is getattr(common.SnoopingTransport, 'Source', None):
                how, framer = 'snooping', True
            elif any(hasattr(cls, a) for a in ('feed_data', 'next_packet', 'parser')) or \
                    (issubclass(cls, common.BaseSource) and cls is not common.BaseSource):
                framer = True
            if framer:
                found.append((name, cls, how))
    return found


class Driven:
    """One instance of a source class, with `await feed(chunk)` returning after the chunk has been
    fully processed (the exception that escaped, or None) and `out`, the packets its sink got."""

    def __init__(self, name, cls, how, sink=None):
        from bumble.transport import common

        self.name, self.how = name, how
        self.out = []
        self.sink = sink if sink is not None else Forward(self.out)
        self.task = None
        self.src = None
        self.parser = None
        if how == 'parser':
            self.parser = cls(self.sink)
        elif how in ('parser-attr', 'data_received', 'datagram_received'):
            self.src = cls()
            self.src.set_packet_sink(self.sink)
            self.parser = self.src.parser
        elif how == 'pumped':
            self.queue = asyncio.Queue()
            self.src = cls(self.queue.get)
            self.src.set_packet_sink(self.sink)
            self.src.start()
            self.parser = self.src.parser
        elif how == 'pump':
            self.sr = asyncio.StreamReader(limit=2 ** 20)
            self.pump = cls(common.AsyncPacketReader(self.sr), self.sink)
            self.task = asyncio.ensure_future(self.pump.run())
        elif how == 'snooping':
            self.inner = common.ParserSource()
            self.src = cls(self.inner, _NullSnooper())
            self.src.set_packet_sink(self.sink)
            self.parser = self.inner.parser
        else:
            raise ValueError(how)

    async def feed(self, ch):
        how = self.how
        try:
            if how == 'parser':
                self.parser.feed_data(ch)
            elif how == 'parser-attr':
                self.src.parser.feed_data(ch)
            elif how == 'data_received':
                self.src.data_received(ch)
            elif how == 'datagram_received':
                self.src.datagram_received(ch, ('127.0.0.1', 1))
            elif how == 'snooping':
                self.inner.parser.feed_data(ch)
            elif how == 'pumped':
                self.queue.put_nowait(ch)
                for _ in range(12):
                    await asyncio.sleep(0)
                    if self.queue.empty() and _ >= 2:
                        break
                t = self.src.terminated
                if t.done() and not t.cancelled() and t.exception() is not None:
                    return t.exception()
            elif how == 'pump':
                self.sr.feed_data(ch)
                for _ in range(4):
                    await asyncio.sleep(0)
        except Exception as e:  # noqa
            return e
        return None

    async def close(self):
        if self.how == 'pumped':
            self.src.close()
            for _ in range(3):
                await asyncio.sleep(0)
            t = self.src.terminated
            if t.done() and not t.cancelled():
                t.exception()
        if self.task is not None:
            self.task.cancel()
            try:
                await self.task
            except BaseException:
                pass


async def drive_class(r: R, entry, s: Stream, family, cuts):
    name, cls, how = entry
    d = Driven(name, cls, how)
    st = Steps(r, f'source/{name}', s, family, cuts)
    fed = 0
    try:
        for ch in H.split_at(s.data, cuts):
            e = await d.feed(ch)
            if e is not None:
                st.raised(e, fed, d.out, f'{name} ({how})')
                return None
            fed += len(ch)
            r.ev('source_class_chunks')
            if not st.after(fed, d.out):
                return None
        st.final(d.out)
        return d.out
    finally:
        await d.close()


async def sources_case(case, r: R):
    rng = random.Random(case['seed'])
    entries = source_classes()
    driven = [e for e in entries if e[2] not in (None, 'reader', 'areader')]
    for name, cls, how in entries:
        if how is None:
            r.ev('source_classes_undriven')
            r.add_extra_list('source_classes_undriven', name)
    r.extra.setdefault('source_classes_undriven', [])
    r.extra['source_classes_driven'] = [f'{n} ({h})' for n, _c, h in entries if h is not None]
    if case.get('census'):
        r.ev('source_classes_found', len(entries))
        r.ev('source_classes_driven', len([e for e in entries if e[2] is not None]))
    last = None
    for _ in range(case['streams']):
        s = gen_stream(rng, nmax=5, small=rng.random() < 0.3)
        fams = set()
        n = 0
        for family, cuts in chunkings(rng, s, all2_limit=case['all2'], one_limit=case['all2'], nrandom=3):
            n += 1
            for entry in driven:
                out = await drive_class(r, entry, s, family, cuts)
                r.ev('source_class_chunkings')
                r.ev('source_chunkings_' + entry[0])
            if family not in fams and nontrivial(s, cuts):
                fams.add(family)
                r.sig('sources', s.data[:2048], len(s.data), family)
        r.evals(n)
        last = s
    r.sample = {'kind': 'sources', 'classes': [f'{n} ({h})' for n, _c, h in entries], 'stream': last.desc}


# =============================================================================
# several framers alive in one process: nothing one of them was told or fed may show in another
# =============================================================================
VENDOR_INFOS = ((1, 1, 'B'), (1, 0, 'B'), (1, 2, 'B'), (2, 2, 'H'), (2, 0, 'H'), (2, 1, 'H'))


class XStream(Stream):
    """A stream that may hold packets of a vendor type registered through extended_packet_info:
    (length-size, length-offset, unpack-type) = `offset` octets, then the body length in `size`
    octets little-endian, then the body; built by hand like everything else."""

    __slots__ = ('hs',)

    def __init__(self, packets, vendor=None):
        self.packets = list(packets)
        self.bounds = H.bounds_of(self.packets)
        self.data = b''.join(self.packets)
        self.types = [p[0] for p in self.packets]
        self.typed = True
        self.hs = []
        self.desc = []
        for p in self.packets:
            if vendor is not None and p[0] == vendor[0]:
                h = vendor[1][0] + vendor[1][1]
                self.desc.append(('vendor', len(p) - 1 - h))
            else:
                h = H.header_size(p[0])
                self.desc.append((H.NAME[p[0]], len(p) - 1 - h))
            self.hs.append(h)

    def cut_class(self, pos):
        if pos == 0 or pos in set(self.bounds):
            return 'at-boundary' if pos < len(self.data) else 'at-end'
        i = bisect.bisect_right(self.bounds, pos)
        if i >= len(self.packets):
            return 'past-end'
        off = pos - (self.bounds[i - 1] if i else 0)
        return 'after-type' if off == 1 else 'in-header' if off < 1 + self.hs[i] else \
            'after-header' if off == 1 + self.hs[i] else 'in-body'


def vendor_packet(rng, t, info, body_len):
    size, offset, _fmt = info
    body = H.hostile_body(rng, body_len)[:body_len]
    return bytes([t]) + rng.randbytes(offset) + len(body).to_bytes(size, 'little') + body


ISOLATION_KINDS = (('PacketParser', 'parser'), ('ParserSource', 'parser-attr'),
                   ('StreamPacketSource', 'data_received'), ('PumpedPacketSource', 'pumped'))


async def isolation_round(r: R, rng):
    from bumble import core
    from bumble.transport import common

    order = rng.choice(['owner-first', 'owner-last', 'register-late', 'register-late', 'no-extension'])
    t = rng.choice([0x77, 0x06, 0x00, 0xFF, 0x10, 0x80, rng.randint(6, 255)])
    info = rng.choice(VENDOR_INFOS)
    nvict = rng.choice([1, 2, 2, 3])

    def make(kind):
        name, how = kind
        return Driven(name, getattr(common, name), how)

    insts = []           # dicts: d, role, stream, chunks [(bytes, is_bad)], step, fed, dead
    owner = None
    owner_kind = rng.choice(ISOLATION_KINDS[:3])

    def new_owner():
        d = make(owner_kind)
        pk = []
        for _ in range(rng.randint(2, 6)):
            if order != 'no-extension' and rng.random() < 0.5:
                maxb = 255 if info[0] == 1 else 600
                pk.append(vendor_packet(rng, t, info, rng.choice([0, 1, 2, 5, 40, maxb])))
            else:
                pk.append(H.make_packet(rng, rng.choice(H.ALL_TYPES), rng.choice([0, 1, 3, 30, 255])))
        s = XStream(pk, (t, info))
        cuts = sorted(rng.randint(0, len(s.data)) for _ in range(rng.choice([1, 2, 4, 8])))
        return {'d': d, 'role': 'owner', 'kind': owner_kind[0], 's': s, 'cuts': cuts,
                'chunks': [(c, False) for c in H.split_at(s.data, cuts)],
                'st': Steps(r, f'isolation/owner-{owner_kind[0]}', s, 'interleaved', cuts), 'fed': 0, 'dead': False}

    def new_victim():
        kind = rng.choice(ISOLATION_KINDS)
        d = make(kind)
        s = gen_stream(rng, nmax=5, small=rng.random() < 0.5)
        k = rng.randint(0, len(s.packets))                 # packet boundary that gets the foreign type byte
        b = 0 if k == 0 else s.bounds[k - 1]
        cuts = sorted(set([b] + [rng.randint(0, len(s.data)) for _ in range(rng.choice([0, 1, 3, 6]))]))
        chunks = []
        prev = 0
        for c in cuts + [len(s.data)]:
            if prev == b and order != 'no-extension' and not any(bad for _c, bad in chunks):
                chunks.append((bytes([t]), True))
            if c > prev:
                chunks.append((s.data[prev:c], False))
            prev = c
        if b == len(s.data) and order != 'no-extension' and not any(bad for _c, bad in chunks):
            chunks.append((bytes([t]), True))
        return {'d': d, 'role': 'victim', 'kind': kind[0], 's': s, 'cuts': cuts, 'chunks': chunks,
                'st': Steps(r, f'isolation/{kind[0]}', s, 'interleaved', cuts), 'fed': 0, 'dead': False, 'k': k}

    registered = False

    def register():
        nonlocal registered
        if order != 'no-extension' and not registered:
            owner['d'].parser.extended_packet_info[t] = info
            registered = True
            r.ev('isolation_extensions_registered')

    if order == 'owner-first':
        owner = new_owner()
        register()
        insts = [owner] + [new_victim() for _ in range(nvict)]
    else:
        insts = [new_victim() for _ in range(nvict)]
        owner = new_owner()
        insts.append(owner)
        if order == 'owner-last':
            register()
    # interleave: every instance's chunks in its own order
    idx = [0] * len(insts)
    events = 0
    late_at = rng.randint(1, 6)
    try:
        while True:
            live = [j for j, x in enumerate(insts) if idx[j] < len(x['chunks']) and not x['dead']]
            if not live:
                break
            j = rng.choice(live)
            x = insts[j]
            ch, bad = x['chunks'][idx[j]]
            idx[j] += 1
            events += 1
            if order == 'register-late' and not registered:
                needs = bad or (x['role'] == 'owner' and t in ch) or events >= late_at
                if needs:
                    register()
            e = await x['d'].feed(ch)
            r.ev('isolation_feeds')
            ctx = (f'order={order} vendor type 0x{t:02x} info={info} registered on a {owner_kind[0]}; this is a '
                   f'{x["kind"]} ({x["role"]}) with {len(insts) - 1} other framers alive; {x["st"].ctx()}')
            if bad:
                # a type byte only ANOTHER parser was told about: unrecognised here
                r.ev('isolation_foreign_type_bytes')
                r.ev('oracle_evals')
                where = 'start' if x['k'] == 0 else 'end' if x['k'] == len(x['s'].packets) else 'middle'
                if x['kind'] == 'StreamPacketSource':
                    if e is not None:
                        r.bad(f'isolation/StreamPacketSource/raised/{type(e).__name__}', f'{e!r}; {ctx}')
                        x['dead'] = True
                        continue
                elif e is None:
                    r.bad(f'isolation/{x["kind"]}/type-registered-on-another-parser-not-reported/{order}',
                          f'the type byte fed at the {where} packet boundary was not reported as invalid; {ctx}')
                    x['dead'] = True
                    continue
                elif not isinstance(e, core.InvalidPacketError):
                    r.bad(f'isolation/{x["kind"]}/wrong-exception/{type(e).__name__}', f'{e!r}; {ctx}')
                    x['dead'] = True
                    continue
                r.ev('isolation_foreign_type_reported')
                if not x['st'].after(x['fed'], x['d'].out):
                    x['dead'] = True
                if x['kind'] == 'PumpedPacketSource':
                    x['dead'] = True        # its pump ends with the error (terminated carries it): nothing more to judge
                    x['pump_ended'] = True
                continue
            if e is not None:
                x['st'].raised(e, x['fed'], x['d'].out, f'{x["kind"]} ({x["role"]})')
                x['dead'] = True
                continue
            x['fed'] += len(ch)
            if not x['st'].after(x['fed'], x['d'].out):
                x['dead'] = True
        for x in insts:
            if not x['dead']:
                x['st'].final(x['d'].out)
            elif x.get('pump_ended') and not x['st'].failed:
                r.ev('oracle_evals')
                want = x['s'].packets[:H.complete_in_prefix(x['s'].bounds, x['fed'])]
                if x['d'].out != want:
                    r.bad('isolation/PumpedPacketSource/content-after-error', f'{len(x["d"].out)} packets for {len(want)}; {x["st"].ctx()}')
    finally:
        for x in insts:
            await x['d'].close()
    r.evals()
    r.sig('isolation', order, t, info, tuple(x['kind'] for x in insts), insts[0]['s'].data[:256])
    return {'kind': 'isolation', 'order': order, 'vendor_type': t, 'info': list(info),
            'framers': [f'{x["kind"]}:{x["role"]}' for x in insts], 'owner_stream': owner['s'].desc}


async def isolation_case(case, r: R):
    rng = random.Random(case['seed'])
    sample = None
    for _ in range(case['rounds']):
        sample = await isolation_round(r, rng)
    r.sample = sample


# =============================================================================
# UsbPacketSource without hardware
# =============================================================================
class FakeTransfer:
    """What UsbPacketSource.transfer_callback reads from a usb1 transfer."""

    def __init__(self, rng, ptype, data, r):
        import usb1
        self.ptype, self.data = ptype, bytes(data)
        self.status = usb1.TRANSFER_COMPLETED
        self.pad = bytes(rng.getrandbits(8) for _ in range(rng.choice([0, 0, 3, 64])))
        self.iso = []
        if ptype == H.SCO:
            cuts = sorted(rng.randint(0, len(self.data)) for _ in range(rng.choice([0, 1, 2, 5])))
            for piece in H.split_at(self.data, cuts):
                while rng.random() < 0.3:
                    self.iso.append((0, b''))
                    r.ev('usbsrc_empty_iso_packets')
                self.iso.append((0, piece))
            while rng.random() < 0.3:
                self.iso.append((0, b''))

    def getUserData(self):
        return self.ptype

    def getStatus(self):
        return self.status

    def getActualLength(self):
        return len(self.data)

    def getBuffer(self):
        return bytearray(self.data + self.pad)

    def iterISO(self):
        return iter(self.iso)

    def submit(self):
        pass


async def usbsrc_case(case, r: R):
    from bumble.transport import usb

    rng = random.Random(case['seed'])
    sample = None
    for _ in range(case['rounds']):
        src = usb.UsbPacketSource(None, {}, None, None, None)
        sink = Collect()
        src.set_packet_sink(sink)
        src.dequeue_task = asyncio.get_running_loop().create_task(src.dequeue())
        per = {}
        feeds = []
        for t in (H.EVT, H.ACL, H.SCO):
            if t != H.EVT and rng.random() < 0.25:
                continue
            s = gen_stream(rng, same_type=t, nmax=6)
            u = untyped(s)
            per[t] = s
            cuts = sorted(rng.randint(0, len(u.data)) for _ in range(rng.choice([0, 1, 3, 8, 20])))
            feeds.append([(t, ch) for ch in H.split_at(u.data, cuts)])
        # interleave the endpoints, each endpoint's chunks in order
        order = []
        idx = [0] * len(feeds)
        while any(i < len(f) for i, f in zip(idx, feeds)):
            j = rng.choice([j for j in range(len(feeds)) if idx[j] < len(feeds[j])])
            order.append(feeds[j][idx[j]])
            idx[j] += 1
        fed = {t: 0 for t in per}
        ubounds = {t: H.bounds_of([p[1:] for p in per[t].packets]) for t in per}
        failed = False
        via_callback = rng.random() < 0.6
        for t, ch in order:
            if via_callback:
                # the way libusb hands data over: a completed transfer; interrupt/bulk transfers carry
                # getActualLength() bytes of a larger buffer, isochronous ones a list of ISO packets, any
                # of which may be empty (a frame in which the controller had nothing to send)
                src.transfer_callback(FakeTransfer(rng, t, ch, r))
                r.ev('usbsrc_transfers')
            else:
                src.splitters[t].feed(ch)
            fed[t] += len(ch)
            r.ev('usb_chunks')
            if rng.random() < 0.5:
                for _ in range(3):
                    await asyncio.sleep(0)
                r.ev('oracle_evals')
                want = sum(H.complete_in_prefix(ubounds[x], fed[x]) for x in per)
                if len(sink.packets) != want:
                    r.bad('usbsrc/' + ('early' if len(sink.packets) > want else 'late'),
                          f'{len(sink.packets)} packets at the sink, {want} complete on the endpoints; '
                          f'streams={ {H.NAME[x]: per[x].desc for x in per} }')
                    failed = True
                    break
        for _ in range(5):
            await asyncio.sleep(0)
        if not failed:
            for t in per:
                r.ev('oracle_evals')
                got = [p for p in sink.packets if p[:1] == bytes([t])]
                r.ev('usbsrc_packets', len(got))
                if got != per[t].packets:
                    r.bad(f'usbsrc/content/{H.NAME[t]}', f'endpoint {H.NAME[t]}: sink got {len(got)} packets '
                          f'{[bytes(p)[:6].hex() for p in got[:6]]}, sent {per[t].desc}')
            r.ev('oracle_evals')
            if len(sink.packets) != sum(len(per[t].packets) for t in per):
                r.bad('usbsrc/count', f'{len(sink.packets)} packets at the sink for '
                      f'{sum(len(per[t].packets) for t in per)} sent')
        src.close()
        src.dequeue_task.cancel()
        try:
            await src.dequeue_task
        except BaseException:
            pass
        r.evals()
        r.sig('usbsrc', tuple((t, per[t].data[:256]) for t in per), len(order))
        sample = {'kind': 'usbsrc', 'endpoints': {H.NAME[t]: per[t].desc for t in per}, 'feeds': len(order)}
    r.sample = sample


# =============================================================================
# server life cycle on real loopback transports
# =============================================================================
TAP = {'bytes': 0, 'event': None, 'orig': None, 'raised': None}


def install_tap():
    """Count the bytes handed to any PacketParser (observation only; the parser itself
    runs unchanged). Lets the harness wait on a counted event instead of on time."""
    from bumble.transport import common

    if TAP['orig'] is not None:
        return
    orig = common.PacketParser.feed_data
    TAP['orig'] = orig

    def feed_data(self, data):
        try:
            return orig(self, data)
        except Exception as e:
            # every client of a server case sends a prefix of a well-formed stream, so an
            # error here can only come from a parser that lost its place; some transports
            # (ws_server) stop reading from the client after it, so waiters must wake up
            if TAP['raised'] is None:
                TAP['raised'] = e
            raise
        finally:
            TAP['bytes'] += len(data)
            ev = TAP['event']
            if ev is not None:
                ev.set()

    common.PacketParser.feed_data = feed_data


def remove_tap():
    from bumble.transport import common

    if TAP['orig'] is not None:
        common.PacketParser.feed_data = TAP['orig']
        TAP['orig'] = None


async def wait_tap(total, what):
    deadline = time.monotonic() + SOCKET_WAIT
    while TAP['bytes'] < total and TAP['raised'] is None:
        TAP['event'] = asyncio.Event()
        left = deadline - time.monotonic()
        if left <= 0:
            raise HarnessTimeout(f'{what}: parser saw {TAP["bytes"]} of {total} bytes in {SOCKET_WAIT}s')
        try:
            await asyncio.wait_for(TAP['event'].wait(), min(left, 1.0))
        except asyncio.TimeoutError:
            pass
    TAP['event'] = None


async def wall(aw, what):
    try:
        return await asyncio.wait_for(aw, SOCKET_WAIT)
    except asyncio.TimeoutError:
        raise HarnessTimeout(f'{what} not finished in {SOCKET_WAIT}s') from None


class Server:
    """One real bumble server transport on a loopback endpoint."""

    def __init__(self, kind):
        self.kind = kind
        self.dir = None
        self.transport = None
        self.sink = Collect()

    async def open(self):
        if self.kind == 'tcp':
            from bumble.transport.tcp_server import open_tcp_server_transport_with_socket
            sock = socket.socket(socket.AF_INET, socket.SOCK_STREAM)
            sock.setsockopt(socket.SOL_SOCKET, socket.SO_REUSEADDR, 1)
            sock.bind(('127.0.0.1', 0))
            self.addr = sock.getsockname()
            self.transport = await open_tcp_server_transport_with_socket(sock)
        elif self.kind == 'unix':
            from bumble.transport.unix import open_unix_server_transport
            self.dir = tempfile.mkdtemp(prefix='c02-')
            self.addr = os.path.join(self.dir, 'hci.sock')
            self.transport = await open_unix_server_transport(self.addr)
        else:
            from bumble.transport.ws_server import open_ws_server_transport
            self.transport = await open_ws_server_transport('127.0.0.1:0')
            self.addr = self.transport.server.sockets[0].getsockname()
        self.transport.source.set_packet_sink(self.sink)

    async def close(self):
        try:
            server = getattr(self.transport, 'server', None)
            if server is not None:
                server.close()
                try:
                    await asyncio.wait_for(server.wait_closed(), 5)
                except Exception:
                    pass
            await self.transport.close()
        finally:
            if self.dir:
                shutil.rmtree(self.dir, ignore_errors=True)

    async def client(self, data: bytes, style: str, rng):
        """Connect, send `data`, go away in the given style. Returns when the server's
        parser has been handed all of `data` (counted) or the server confirmed EOF."""
        start = TAP['bytes']
        if self.kind in ('tcp', 'unix'):
            if self.kind == 'tcp':
                rd, wr = await wall(asyncio.open_connection(*self.addr), 'connect')
            else:
                rd, wr = await wall(asyncio.open_unix_connection(self.addr), 'connect')
            if style == 'invalid-byte':
                # the first client sends its whole stream with one unrecognised type byte, in a write of its own,
                # at the packet boundary nearest to the cut position; what it sends afterwards is still its
                # stream and must come out framed (tcp / unix servers keep the client, as the push parser
                # "frames subsequently fed well-formed data correctly")
                b0 = max(b for b in [0] + list(self.bounds_for_invalid) if b <= len(data))
                for part, bad in ((data[:b0], False), (bytes([rng.choice([0x00, 0x06, 0x07, 0x80, 0xFF])]), True),
                                  (self.full_for_invalid[b0:], False)):
                    if part:
                        mark = TAP['bytes']
                        try:
                            wr.write(part)
                            await wall(wr.drain(), 'drain')
                        except (ConnectionError, OSError):
                            break       # the server dropped the client: the sink comparison will say what is missing
                        await wait_tap(mark + len(part), f'{self.kind} client bytes around the invalid byte')
                        if bad:
                            TAP['raised'] = None
                TAP['raised'] = None
                TAP['invalid_clients'] = TAP.get('invalid_clients', 0) + 1
                try:
                    wr.write_eof()
                    await wall(rd.read(), 'server-side close after EOF')
                except (ConnectionError, OSError):
                    pass
                wr.close()
                try:
                    await wall(wr.wait_closed(), 'client close')
                except (ConnectionError, OSError):
                    pass
                for _ in range(3):
                    await asyncio.sleep(0)
                return
            if style == 'reset-unread':
                # the client will go away with bytes from the server still unread in its socket: the
                # server then sees ECONNRESET (connection_lost(error), no EOF) even on AF_UNIX, where
                # a plain abort is an orderly EOF
                wr.transport.pause_reading()
            pieces = H.split_at(data, sorted(rng.randint(0, len(data)) for _ in range(rng.choice([0, 0, 1, 2]))))
            for pc in pieces:
                if pc:
                    wr.write(pc)
                    await wall(wr.drain(), 'drain')
                    if rng.random() < 0.5:
                        await asyncio.sleep(0)
            if style == 'reset-unread':
                await wait_tap(start + len(data), f'{self.kind} client bytes before reset')
                for _ in range(3):
                    await asyncio.sleep(0)      # connection_made has run on the server side
                self.transport.sink.on_packet(bytes([4, 0x0e, 4, 1, 3, 0x0c, 0]))
                for _ in range(3):
                    await asyncio.sleep(0)
                wr.transport.abort()
                TAP['resets'] = TAP.get('resets', 0) + 1
            elif style == 'half-close':
                wr.write_eof()
                # the server answers EOF by closing: reading EOF here means it has processed
                # every byte we sent and our end-of-stream
                await wall(rd.read(), 'server-side close after EOF')
                wr.close()
            elif style == 'abort':
                # connection reset: the server sees connection_lost(error) and no EOF. Wait until
                # the server has consumed what was sent, so the reset cannot overtake the data.
                await wait_tap(start + len(data), f'{self.kind} client bytes before abort')
                sock = wr.get_extra_info('socket')
                if self.kind == 'tcp' and sock is not None:
                    import struct
                    sock.setsockopt(socket.SOL_SOCKET, socket.SO_LINGER, struct.pack('ii', 1, 0))
                wr.transport.abort()
            else:
                wr.close()
            try:
                await wall(wr.wait_closed(), 'client close')
            except (ConnectionError, OSError):
                pass
            await wait_tap(start + len(data), f'{self.kind} client bytes')
        else:
            import websockets.asyncio.client as wsc
            ws = await wall(wsc.connect(f'ws://{self.addr[0]}:{self.addr[1]}', proxy=None,
                                        compression=None), 'ws connect')
            pieces = H.split_at(data, sorted(rng.randint(0, len(data)) for _ in range(rng.choice([0, 1, 1, 2]))))
            for pc in pieces:
                if pc:
                    await wall(ws.send(pc), 'ws send')
            if style == 'abort':
                # make sure the frames left this process, then drop TCP without a close handshake
                await wait_tap(start + len(data), 'ws client bytes before abort')
                ws.transport.abort()
                try:
                    await wall(ws.wait_closed(), 'ws abort')
                except Exception:
                    pass
            else:
                await wall(ws.close(), 'ws close')
                await wait_tap(start + len(data), 'ws client bytes')
        # a few loop turns so that connection_lost callbacks scheduled by the close have run
        for _ in range(3):
            await asyncio.sleep(0)


def short_stream(rng, hard=False):
    """2-4 packets, 10-40 bytes: every byte position is a cut position."""
    n = rng.choice([2, 3, 3, 4])
    pk = []
    for _ in range(n):
        t = rng.choice(H.ALL_TYPES)
        pk.append(H.make_packet(rng, t, rng.choice([0, 1, 2, 3, 4, 6])))
    return Stream(pk)


async def server_pair(r: R, kind, rng, s1: Stream, cut, styles, s2: Stream, s3=None, cut2=None):
    srv = Server(kind)
    await srv.open()
    try:
        clients = [(s1, cut, styles[0])]
        if s3 is not None:
            clients.append((s2, cut2, styles[1]))
            clients.append((s3, len(s3.data), 'half-close' if kind != 'ws' else 'close'))
        else:
            clients.append((s2, len(s2.data), 'half-close' if kind != 'ws' else 'close'))
        expected = []
        prev_cls = None
        TAP['raised'] = None
        for idx, (s, c, style) in enumerate(clients):
            if style == 'invalid-byte':
                srv.bounds_for_invalid, srv.full_for_invalid = s.bounds, s.data
            try:
                await srv.client(s.data[:c], style, rng)
            except HarnessTimeout:
                if style != 'invalid-byte':
                    raise
                r.ev('oracle_evals')
                r.bad(f'server/{kind}/after-invalid-byte/client-dropped',
                      f'after one unrecognised type byte at a packet boundary the {kind} server stopped taking the '
                      f'bytes of the same client (stream {s.desc}, cut {c})')
                return False
            if style == 'invalid-byte':
                r.ev('server_invalid_byte_clients', TAP.pop('invalid_clients', 0))
                c = len(s.data)
            if TAP.get('resets'):
                r.ev('server_clients_reset_with_unread_data', TAP.pop('resets'))
            if TAP['raised'] is not None:
                r.ev('oracle_evals')
                key = (f'server/{kind}/first-client-misframed' if idx == 0 else
                       f'server/{kind}/next-client-misframed/prev-cut-{prev_cls}')
                r.bad(key, f'while client {idx + 1} ({style}) sent {c}/{len(s.data)} B of the well-formed stream '
                      f'{s.desc} the parser of the server reported {TAP["raised"]!r}; previous clients: '
                      f'{[(x.desc, cc, st) for x, cc, st in clients[:idx]]}')
                return False
            want_here = s.packets[:H.complete_in_prefix(s.bounds, c)]
            expected = expected + want_here
            got = list(srv.sink.packets)
            r.ev('server_packets_seen', len(got))
            r.ev('oracle_evals')
            if got != expected:
                if idx == 0:
                    key = f'server/{kind}/first-client-misframed'
                else:
                    key = f'server/{kind}/next-client-misframed/prev-cut-{prev_cls}'
                r.bad(key, f'after client {idx + 1} ({style}, sent {c}/{len(s.data)} B of {s.desc}) the sink holds '
                      f'{[bytes(p).hex() for p in got]} — expected {[p.hex() for p in expected]}; previous '
                      f'clients: {[(x.desc, cc, st) for x, cc, st in clients[:idx]]}')
                return False
            cls = s.cut_class(c)
            # class of the key: has any earlier client of this server gone away inside a packet?
            if cls not in ('at-boundary', 'at-end'):
                prev_cls = 'mid-packet'
            elif prev_cls is None:
                prev_cls = 'at-boundary'
        return True
    finally:
        await srv.close()


async def server_case_async(case, r: R):
    rng = random.Random(case['seed'])
    kind = case['transport']
    install_tap()
    try:
        s1 = short_stream(rng)
        s2 = short_stream(rng)
        if not case['chain']:
            for cut in range(len(s1.data) + 1):
                await server_pair(r, kind, rng, s1, cut, [case['style']], s2)
                r.ev(f'server_{kind}_cuts')
                r.evals()
                if cut not in s1.bounds and cut:
                    r.sig('server', kind, case['style'], s1.data, cut, s2.data)
            r.sample = {'kind': 'server', 'transport': kind, 'style': case['style'], 'client1': s1.desc,
                        'cut_positions': len(s1.data) + 1, 'client2': s2.desc}
        else:
            s3 = short_stream(rng)
            styles_all = ('half-close', 'close', 'abort', 'reset-unread') if kind != 'ws' else ('close', 'abort')
            n = 0
            for _ in range(20):
                c1 = rng.randint(0, len(s1.data))
                c2 = rng.randint(0, len(s2.data))
                await server_pair(r, kind, rng, s1, c1, [rng.choice(styles_all), rng.choice(styles_all)],
                                  s2, s3, c2)
                r.ev(f'server_{kind}_cuts', 2)
                r.evals()
                r.sig('server3', kind, s1.data, c1, s2.data, c2)
                n += 1
            r.sample = {'kind': 'server-chain', 'transport': kind, 'clients': [s1.desc, s2.desc, s3.desc], 'runs': n}
    finally:
        remove_tap()
        TAP['event'] = None


# =============================================================================
# client / datagram / tty transports against a raw local peer (real clock, counted events)
# =============================================================================
CLIENT_KINDS = ('ws-client', 'tcp-client', 'unix-client', 'udp', 'pty', 'file')
SURVIVES_INVALID = ('tcp-client', 'unix-client', 'pty', 'file')     # built on StreamPacketSource


class Unavailable(Exception):
    """The operating system does not offer what this transport needs (no pty device)."""


class Peer:
    """The far end of one real bumble transport, played by hand: every `send(chunk)` hands the transport
    exactly one WebSocket binary message / datagram / write, cut wherever the chunking says."""

    def __init__(self, kind):
        self.kind = kind
        self.dir = None
        self.server = None
        self.transport = None
        self.sink = Collect()
        self.fds = []
        self.writer = None

    async def open(self):
        kind = self.kind
        if kind == 'ws-client':
            import websockets.asyncio.server as wss
            from bumble.transport.ws_client import open_ws_client_transport
            conns = asyncio.Queue()

            async def handler(conn):
                conns.put_nowait(conn)
                try:
                    async for _ in conn:
                        pass
                except Exception:
                    pass

            self.server = await wss.serve(handler, '127.0.0.1', 0, compression=None)
            port = self.server.sockets[0].getsockname()[1]
            self.transport = await wall(open_ws_client_transport(f'ws://127.0.0.1:{port}'), 'ws-client open')
            self.conn = await wall(conns.get(), 'ws-client accepted')
        elif kind in ('tcp-client', 'unix-client'):
            conns = asyncio.Queue()

            async def accepted(reader, writer):
                conns.put_nowait(writer)

            if kind == 'tcp-client':
                from bumble.transport.tcp_client import open_tcp_client_transport
                self.server = await asyncio.start_server(accepted, '127.0.0.1', 0)
                port = self.server.sockets[0].getsockname()[1]
                self.transport = await wall(open_tcp_client_transport(f'127.0.0.1:{port}'), 'tcp-client open')
            else:
                from bumble.transport.unix import open_unix_client_transport
                self.dir = tempfile.mkdtemp(prefix='c02-')
                path = os.path.join(self.dir, 'peer.sock')
                self.server = await asyncio.start_unix_server(accepted, path)
                self.transport = await wall(open_unix_client_transport(path), 'unix-client open')
            self.writer = await wall(conns.get(), f'{kind} accepted')
        elif kind == 'udp':
            from bumble.transport.udp import open_udp_transport
            self.sock = socket.socket(socket.AF_INET, socket.SOCK_DGRAM)
            self.sock.bind(('127.0.0.1', 0))
            self.transport = await wall(open_udp_transport(f'127.0.0.1:0,127.0.0.1:{self.sock.getsockname()[1]}'), 'udp open')
            self.dest = self.transport.sink.transport.get_extra_info('sockname')
        elif kind in ('pty', 'file'):
            import pty
            import tty
            if kind == 'pty':
                from bumble.transport.pty import open_pty_transport
                self.dir = tempfile.mkdtemp(prefix='c02-')
                link = os.path.join(self.dir, 'tty')
                try:
                    self.transport = await wall(open_pty_transport(link), 'pty open')
                except OSError as e:
                    raise Unavailable(f'pty: {e}') from None
                self.wfd = os.open(link, os.O_RDWR | os.O_NOCTTY)
                self.fds.append(self.wfd)
            else:
                from bumble.transport.file import open_file_transport
                try:
                    primary, replica = pty.openpty()
                except OSError as e:
                    raise Unavailable(f'pty: {e}') from None
                self.fds += [primary, replica]
                tty.setraw(primary)
                tty.setraw(replica)
                self.transport = await wall(open_file_transport(os.ttyname(replica)), 'file open')
                self.wfd = primary
        else:
            raise ValueError(kind)
        self.transport.source.set_packet_sink(self.sink)

    async def send(self, chunk):
        kind = self.kind
        if kind == 'ws-client':
            await wall(self.conn.send(bytes(chunk)), 'ws send')
        elif kind in ('tcp-client', 'unix-client'):
            if chunk:
                self.writer.write(chunk)
                await wall(self.writer.drain(), 'drain')
        elif kind == 'udp':
            self.sock.sendto(chunk, self.dest)
        else:
            if chunk:
                os.write(self.wfd, chunk)

    async def close(self):
        try:
            if self.transport is not None:
                try:
                    await asyncio.wait_for(self.transport.close(), 5)
                except Exception:
                    pass
            if self.writer is not None:
                self.writer.close()
            if self.server is not None:
                self.server.close()
                try:
                    await asyncio.wait_for(self.server.wait_closed(), 5)
                except Exception:
                    pass
            if self.kind == 'udp':
                self.sock.close()
            for fd in self.fds:
                try:
                    os.close(fd)
                except OSError:
                    pass
        finally:
            if self.dir:
                shutil.rmtree(self.dir, ignore_errors=True)


async def client_run(r: R, kind, rng, s: Stream, family, cuts, foreign):
    """One transport instance, one chunking.  `foreign` = (type byte, info, when) of a vendor type that
    a *different* source of this process registers, or None."""
    from bumble.transport import common

    sibling = None

    def make_sibling():
        sib = common.ParserSource()
        sib.set_packet_sink(Collect())
        sib.parser.extended_packet_info[foreign[0]] = foreign[1]
        r.ev('client_siblings_with_extension')
        return sib

    if foreign and foreign[2] == 'before':
        sibling = make_sibling()
    peer = Peer(kind)
    TAP['raised'] = None
    try:
        await peer.open()
        if foreign and foreign[2] == 'after':
            sibling = make_sibling()
        st = Steps(r, f'transport/{kind}', s, family, cuts)
        chunks = [(c, False) for c in H.split_at(s.data, cuts)]
        if foreign and kind in SURVIVES_INVALID:
            # the other source's type byte, alone in a write, at a packet boundary of this one's stream
            k = rng.randint(0, len(s.packets))
            b = 0 if k == 0 else s.bounds[k - 1]
            pos, out = 0, []
            done = False
            for c, _ in chunks:
                if not done and pos <= b <= pos + len(c):
                    out += [(c[:b - pos], False), (bytes([foreign[0]]), True), (c[b - pos:], False)]
                    done = True
                else:
                    out.append((c, False))
                pos += len(c)
            chunks = out
        fed = 0
        total = TAP['bytes']
        for ch, bad in chunks:
            await peer.send(ch)
            total += len(ch)
            await wait_tap(total, f'{kind}: bytes of one chunk at the parser')
            r.ev(f'client_{kind}_chunks')
            if bad:
                r.ev('client_foreign_type_bytes')
                r.ev('oracle_evals')
                if TAP['raised'] is None:
                    r.bad(f'transport/{kind}/type-registered-on-another-source-not-reported',
                          f'type byte 0x{foreign[0]:02x} (extended_packet_info of a sibling ParserSource created {foreign[2]} '
                          f'this transport) was not reported as invalid by this transport\'s parser; {st.ctx()}')
                    return False
                TAP['raised'] = None
                continue
            if TAP['raised'] is not None:
                st.raised(TAP['raised'], fed, peer.sink.packets, f'{kind} transport parser')
                TAP['raised'] = None
                return False
            fed += len(ch)
            if not st.after(fed, peer.sink.packets):
                return False
        st.final(peer.sink.packets)
        r.ev('client_packets_seen', len(peer.sink.packets))
        return True
    finally:
        TAP['raised'] = None
        await peer.close()
        del sibling


async def client_case_async(case, r: R):
    rng = random.Random(case['seed'])
    kind = case['transport']
    install_tap()
    try:
        n = 0
        s = None
        for _ in range(case['streams']):
            s = gen_stream(rng, nmax=4, small=rng.random() < 0.6)
            if len(s.data) > 700:
                s = short_stream(rng)
            N = len(s.data)
            fams = [('whole', []), ('per-packet', s.bounds[:-1]), ('bytewise', list(range(1, N)))] if N <= 64 else \
                [('whole', []), ('per-packet', s.bounds[:-1])]
            inside = [c for c in range(1, N) if c not in set(s.bounds)]
            for c in rng.sample(inside, min(len(inside), case['splits'])):
                fams.append(('all2', [c]))
            for _ in range(2):
                k = rng.choice([2, 3, 5, 9])
                cuts = sorted(rng.randint(0, N) for _ in range(k))
                fams.append(('random', cuts))
            for family, cuts in fams:
                foreign = None
                if rng.random() < 0.5:
                    foreign = (rng.choice([0x77, 0x06, 0x00, 0xFF, rng.randint(6, 255)]), rng.choice(VENDOR_INFOS),
                               rng.choice(['before', 'after']))
                try:
                    await client_run(r, kind, rng, s, family, cuts, foreign)
                except Unavailable as e:
                    r.ev(f'client_{kind}_unavailable')
                    r.add_extra_list('client_transports_unavailable', f'{kind}: {e}')
                    r.sample = {'kind': 'client', 'transport': kind, 'unavailable': str(e)}
                    return
                r.ev(f'client_{kind}_chunkings')
                r.evals()
                n += 1
                if nontrivial(s, cuts):
                    r.sig('client', kind, s.data[:1024], family, tuple(cuts[:32]))
        r.sample = {'kind': 'client', 'transport': kind, 'stream': s.desc, 'chunkings': n}
    finally:
        remove_tap()
        TAP['event'] = None


# =============================================================================
# error path at the hand-over: the packet sink raises on one packet (or on k in a row) and then works
# =============================================================================
def _struct_error(i):
    import struct
    return struct.error(f'unpack requires a buffer of 4 bytes (packet {i})')


def _invalid_packet(i):
    from bumble import core
    return core.InvalidPacketError(f'handler could not parse packet {i}')


SINK_ERRORS = {
    'KeyError': lambda i: KeyError(f'no handler for packet {i}'),
    'ValueError': lambda i: ValueError(f'bad value in packet {i}'),
    'AssertionError': lambda i: AssertionError(f'packet {i}'),
    'IndexError': lambda i: IndexError('index out of range'),
    'RuntimeError': lambda i: RuntimeError(f'packet {i}'),
    'AttributeError': lambda i: AttributeError("'NoneType' object has no attribute 'on_hci_event'"),
    'struct.error': _struct_error,
    'InvalidPacketError': _invalid_packet,        # what hci.HCI_Packet.from_bytes raises inside Host.on_packet
    'TimeoutError': lambda i: asyncio.TimeoutError(),
    'OSError': lambda i: OSError(32, 'Broken pipe'),  # a bridge sink writing to a transport that went away
}


class RaisingSink:
    """The next layer, failing now and then.  Records every packet it is CALLED with (a packet on which it
    then raises has been handed over: the hand-over happened, the handler failed) and raises on the calls
    whose index is in `fail`.  Judged is the list of calls, never what the sink 'accepted'."""

    def __init__(self, fail, exc_name):
        self.calls = []
        self.fail = frozenset(fail)
        self.exc_name = exc_name
        self.make = SINK_ERRORS[exc_name]
        self.raised = 0
        self.first_raise_at = None
        self.thrown = []

    @property
    def packets(self):
        return self.calls

    def on_packet(self, p):
        i = len(self.calls)
        self.calls.append(p)
        if i in self.fail:
            self.raised += 1
            if self.first_raise_at is None:
                self.first_raise_at = i
            e = self.make(i)
            self.thrown.append(e)
            raise e


class SinkSteps(Steps):
    """The step oracle over the calls a RaisingSink received.  Keys name the source and what happened to
    the packets that follow the one the sink raised on."""

    CLAUSE = {'late': 'later-packets-lost', 'lost': 'later-packets-lost', 'early': 'duplicated-or-early',
              'extra': 'duplicated-or-extra', 'content': 'misframed-or-redelivered'}

    def __init__(self, r, source, s, family, cuts, sink):
        super().__init__(r, f'sink-raises/{source}', s, family, cuts)
        self.sink = sink
        self.escaped = None

    def key(self, clause, i):
        if not self.sink.raised:
            return f'{self.framer}/before-any-raise/{clause}'
        if clause.startswith('raised/'):
            if any(self.escaped is x for x in self.sink.thrown):
                return f'{self.framer}/sink-exception-escaped'      # the sink's own exception came out of the source
            return f'{self.framer}/raised-after-sink-exception/{clause.split("/", 1)[1]}'
        return f'{self.framer}/{self.CLAUSE.get(clause, clause)}'

    def raised(self, e, fed, out, what):
        self.escaped = e
        super().raised(e, fed, out, what)

    def ctx(self):
        return (f'sink raises {self.sink.exc_name} on call(s) {sorted(self.sink.fail)} and works otherwise '
                f'({self.sink.raised} raised so far, {len(self.sink.calls)} calls); ' + super().ctx())


def raise_position_class(bounds, cuts, N, i):
    """Where packet i (the one the sink raises on) ends relative to the chunks."""
    ends = sorted(set(list(cuts) + [N]))
    end_i = bounds[i]
    if end_i in ends:
        return 'at_chunk_end'
    chunk_end = ends[bisect.bisect_left(ends, end_i)]
    if H.complete_in_prefix(bounds, chunk_end) > i + 1:
        return 'mid_chunk_packets_follow'
    return 'mid_chunk_partial_follows'


def sinkraise_account(r: R, source, s, family, cuts, sink, bounds=None):
    """Counters of one history that went through: what was observed after the raise."""
    r.ev('sinkraise_histories')
    r.ev('sinkraise_histories_' + source)
    r.ev('sinkraise_raises_observed', sink.raised)
    if sink.first_raise_at is not None:
        r.ev('sinkraise_packets_after_raise', len(sink.calls) - sink.first_raise_at - 1)
        r.ev('sinkraise_raise_' + raise_position_class(bounds or s.bounds, cuts, len(s.data), sink.first_raise_at))
        if len(sink.calls) - sink.first_raise_at - 1 == 0:
            r.ev('sinkraise_raise_on_last_packet')
    if family == 'bytewise':
        r.ev('sinkraise_bytewise_histories')
    if len(sink.fail) > 1:
        r.ev('sinkraise_histories_several_raises')


async def sinkraise_class(r: R, entry, s: Stream, family, cuts, fail, exc_name):
    name, cls, how = entry
    sink = RaisingSink(fail, exc_name)
    d = Driven(name, cls, how, sink=sink)
    st = SinkSteps(r, name, s, family, cuts, sink)
    fed = 0
    try:
        for ch in H.split_at(s.data, cuts):
            e = await d.feed(ch)
            if e is not None:
                st.raised(e, fed, sink.calls, f'{name} ({how})')
                return False
            fed += len(ch)
            if not st.after(fed, sink.calls):
                return False
        if not st.final(sink.calls):
            return False
        sinkraise_account(r, name, s, family, cuts, sink)
        return True
    finally:
        await d.close()


async def sinkraise_reader_loops(r: R, rng, s: Stream, family, cuts, fail, exc_name):
    """The pull readers have no sink of their own: the loop around them hands the packet over, the handler
    raises, the loop logs and asks for the next packet (what PacketPump.run does with the async reader).
    The reader must then return the packet that follows."""
    from bumble.transport.common import AsyncPacketReader, PacketReader

    chunks = H.split_at(s.data, cuts)
    n = len(s.packets)
    sink = RaisingSink(fail, exc_name)
    st = SinkSteps(r, 'PacketReader-loop', s, family, cuts, sink)
    raw = ShortRaw(chunks)
    reader = PacketReader(io.BufferedReader(raw, buffer_size=rng.choice([1, 3, 16, 4096])))
    ok = True
    for _ in range(n + 2):
        try:
            p = reader.next_packet()
        except Exception as e:
            st.raised(e, raw.pos, sink.calls, 'next_packet')
            ok = False
            break
        if p is None:
            break
        try:
            sink.on_packet(p)
        except Exception:
            pass
    if ok and st.final(sink.calls):
        sinkraise_account(r, 'PacketReader-loop', s, family, cuts, sink)
    sink = RaisingSink(fail, exc_name)
    st = SinkSteps(r, 'AsyncPacketReader-loop', s, family, cuts, sink)
    sr = asyncio.StreamReader(limit=2 ** 20)
    ar = AsyncPacketReader(sr)
    for ch in chunks:
        sr.feed_data(ch)
    sr.feed_eof()
    ok = True
    for _ in range(n + 2):
        try:
            p = await ar.next_packet()
        except asyncio.IncompleteReadError:
            break
        except Exception as e:
            st.raised(e, len(s.data), sink.calls, 'next_packet')
            ok = False
            break
        try:
            sink.on_packet(p)
        except Exception:
            pass
    if ok and st.final(sink.calls):
        sinkraise_account(r, 'AsyncPacketReader-loop', s, family, cuts, sink)


def typed_at_sink(s: Stream) -> Stream:
    """Endpoint view of a same-type stream (offsets count bytes without the type byte) whose expected
    packets are what the USB source's sink must get: with the type byte."""
    u = untyped(s)
    u.packets = list(s.packets)
    return u


async def _usb_source(sink):
    from bumble.transport import usb

    src = usb.UsbPacketSource(None, {}, None, None, None)
    src.set_packet_sink(sink)
    src.dequeue_task = asyncio.get_running_loop().create_task(src.dequeue())
    return src


async def _usb_close(src):
    src.close()
    src.dequeue_task.cancel()
    try:
        await src.dequeue_task
    except BaseException:
        pass


async def sinkraise_usb_single(r: R, rng, s: Stream, t, family, cuts, fail, exc_name):
    """One endpoint of a real UsbPacketSource (no device), its dequeue task running: transfers cut as the
    chunking says; the sink raises on the given calls."""
    u = typed_at_sink(s)
    sink = RaisingSink(fail, exc_name)
    src = await _usb_source(sink)
    st = SinkSteps(r, 'UsbPacketSource', u, family, cuts, sink)
    via_callback = rng.random() < 0.6
    fed = 0
    ok = True
    try:
        for ch in H.split_at(u.data, cuts):
            try:
                if via_callback:
                    src.transfer_callback(FakeTransfer(rng, t, ch, r))
                else:
                    src.splitters[t].feed(ch)
            except Exception as e:
                st.raised(e, fed, sink.calls, 'transfer_callback' if via_callback else 'splitter.feed')
                ok = False
                break
            fed += len(ch)
            for _ in range(3):
                await asyncio.sleep(0)
            if len(sink.calls) < H.complete_in_prefix(u.bounds, fed):
                for _ in range(10):      # "lost" must not be a loop turn that was not granted
                    await asyncio.sleep(0)
            if not st.after(fed, sink.calls):
                ok = False
                break
        if ok and st.final(sink.calls):
            sinkraise_account(r, 'UsbPacketSource', u, family, cuts, sink)
            return True
        return False
    finally:
        await _usb_close(src)


async def sinkraise_usb_multi(r: R, rng, per, order, fail, exc_name):
    """Two or three endpoints interleaved (`order` = [(type, chunk)..]); the sink raises on the given
    calls counted over all endpoints.  After every transfer the number of calls must equal the number of
    packets complete on the endpoints; at the end every endpoint's packets came exactly once, in order."""
    sink = RaisingSink(fail, exc_name)
    src = await _usb_source(sink)
    name = 'UsbPacketSource-endpoints-interleaved'
    ub = {t: H.bounds_of([p[1:] for p in per[t].packets]) for t in per}
    fed = {t: 0 for t in per}
    total = sum(len(per[t].packets) for t in per)
    ctx = (f'sink raises {exc_name} on call(s) {sorted(fail)}; endpoints '
           f'{ {H.NAME[x]: per[x].desc for x in per} }, {len(order)} transfers')
    try:
        for t, ch in order:
            src.transfer_callback(FakeTransfer(rng, t, ch, r))
            fed[t] += len(ch)
            want = sum(H.complete_in_prefix(ub[x], fed[x]) for x in per)
            for _ in range(3):
                await asyncio.sleep(0)
            if len(sink.calls) < want:
                for _ in range(10):
                    await asyncio.sleep(0)
            r.ev('oracle_evals')
            if len(sink.calls) != want:
                after = 'before-any-raise/' if not sink.raised else ''
                r.bad(f'sink-raises/{name}/{after}' + ('duplicated-or-early' if len(sink.calls) > want else 'later-packets-lost'),
                      f'{len(sink.calls)} packets handed over, {want} complete on the endpoints ({sink.raised} raised so far); {ctx}')
                return False
        for t in per:
            r.ev('oracle_evals')
            got = [p for p in sink.calls if p[:1] == bytes([t])]
            if got != per[t].packets:
                r.bad(f'sink-raises/{name}/misframed-or-redelivered',
                      f'endpoint {H.NAME[t]}: handed over {[bytes(p)[:6].hex() for p in got[:8]]}, sent {per[t].desc}; {ctx}')
                return False
        r.ev('oracle_evals')
        if len(sink.calls) != total:
            r.bad(f'sink-raises/{name}/duplicated-or-extra', f'{len(sink.calls)} calls for {total} packets; {ctx}')
            return False
        r.ev('sinkraise_histories')
        r.ev('sinkraise_histories_' + name)
        r.ev('sinkraise_raises_observed', sink.raised)
        if sink.first_raise_at is not None:
            r.ev('sinkraise_packets_after_raise', len(sink.calls) - sink.first_raise_at - 1)
        if len(fail) > 1:
            r.ev('sinkraise_histories_several_raises')
        return True
    finally:
        await _usb_close(src)


def fail_sets(rng, n):
    """Every position once; runs of k = 2..3 calls in a row; the whole stream; two separate positions."""
    out = [[i] for i in range(n)]
    if n >= 2:
        i = rng.randrange(n - 1)
        out.append([i, i + 1])
        out.append(list(range(n)))
    if n >= 3:
        i = rng.randrange(n - 2)
        out.append([i, i + 1, i + 2])
        a, b = sorted(rng.sample(range(n), 2))
        out.append([a, b])
    return out


def sinkraise_chunkings(rng, s: Stream, fail, limit):
    """The chunkings of `chunkings()` (every 2-chunk split, 1-byte chunks, per-packet, header-aligned,
    boundary +-1, random) plus, for the packet the sink raises on first: a chunk that ends exactly with it,
    a chunk that holds it and everything after it, and a chunk that holds it and half of the next."""
    yield from chunkings(rng, s, all2_limit=limit, one_limit=limit, nrandom=2)
    i = min(fail)
    N = len(s.data)
    start = s.bounds[i - 1] if i else 0
    end = s.bounds[i]
    yield 'raise-ends-chunk', sorted({start, end} - {0, N})
    yield 'raise-then-rest-in-chunk', sorted({start} - {0})
    if i + 1 < len(s.bounds):
        mid = (end + s.bounds[i + 1] + 1) // 2
        yield 'raise-then-half-packet', sorted({max(0, end - 1), mid} - {0, N})
        yield 'raise-split-inside', sorted({(start + end) // 2, s.bounds[i + 1]} - {0, N})


async def sinkraise_case(case, r: R):
    rng = random.Random(case['seed'])
    entries = [e for e in source_classes() if e[2] not in (None, 'reader', 'areader')]
    names = sorted(SINK_ERRORS)
    sample = None
    for _ in range(case['streams']):
        # ---- every driveable source class + the reader loops -------------------------------------
        s = gen_stream(rng, nmax=5, small=rng.random() < 0.7)
        while len(s.packets) < 2 and rng.random() < 0.8:
            s = gen_stream(rng, nmax=5, small=True)
        n = len(s.packets)
        for fail in fail_sets(rng, n):
            exc_name = rng.choice(names)
            fams = set()
            k = 0
            for family, cuts in sinkraise_chunkings(rng, s, fail, case['all2']):
                k += 1
                for entry in entries:
                    await sinkraise_class(r, entry, s, family, cuts, fail, exc_name)
                if k % 3 == 0 or family != 'all2':
                    await sinkraise_reader_loops(r, rng, s, family, cuts, fail, exc_name)
                if family not in fams:
                    fams.add(family)
                    r.sig('sinkraise', s.data[:1024], tuple(fail), family)
            r.evals(k)
        # ---- UsbPacketSource, one endpoint, all chunkings ----------------------------------------
        t = rng.choice([H.EVT, H.ACL, H.SCO])
        su = gen_stream(rng, nmax=4, same_type=t, small=rng.random() < 0.7)
        u = typed_at_sink(su)
        for fail in fail_sets(rng, len(su.packets)):
            exc_name = rng.choice(names)
            k = 0
            for family, cuts in sinkraise_chunkings(rng, u, fail, case['all2']):
                k += 1
                await sinkraise_usb_single(r, rng, su, t, family, cuts, fail, exc_name)
            r.evals(k)
            r.sig('sinkraise-usb', t, u.data[:1024], tuple(fail))
        # ---- UsbPacketSource, endpoints interleaved ----------------------------------------------
        per = {}
        feeds = []
        for t2 in (H.EVT, H.ACL, H.SCO):
            if t2 == H.SCO and rng.random() < 0.4:
                continue
            s2 = gen_stream(rng, same_type=t2, nmax=4, small=rng.random() < 0.6)
            per[t2] = s2
            u2 = untyped(s2)
            cuts = sorted(rng.randint(0, len(u2.data)) for _ in range(rng.choice([0, 1, 3, 8])))
            feeds.append([(t2, ch) for ch in H.split_at(u2.data, cuts)])
        order = []
        idx = [0] * len(feeds)
        while any(i < len(f) for i, f in zip(idx, feeds)):
            j = rng.choice([j for j in range(len(feeds)) if idx[j] < len(feeds[j])])
            order.append(feeds[j][idx[j]])
            idx[j] += 1
        total = sum(len(per[x].packets) for x in per)
        for fail in fail_sets(rng, total):
            await sinkraise_usb_multi(r, rng, per, order, fail, rng.choice(names))
            r.evals()
        r.sig('sinkraise-usb-multi', tuple((x, per[x].data[:256]) for x in per), len(order))
        sample = {'kind': 'sinkraise', 'stream': s.desc, 'sources': [e[0] for e in entries] +
                  ['PacketReader-loop', 'AsyncPacketReader-loop', 'UsbPacketSource', 'UsbPacketSource-endpoints-interleaved'],
                  'fail_sets': [list(f) for f in fail_sets(random.Random(0), n)], 'usb_stream': su.desc,
                  'usb_endpoints': {H.NAME[x]: per[x].desc for x in per}}
    r.sample = sample


async def sinkraise_socket_case_async(case, r: R):
    """The same on real transports: a tcp / unix / ws SERVER transport whose sink raises (two clients in a
    row: the second one's packets must all come out too), and the client / datagram / tty transports
    against a raw peer (step oracle after every write)."""
    rng = random.Random(case['seed'])
    kind = case['transport']
    names = sorted(SINK_ERRORS)
    install_tap()
    try:
        n = 0
        if case['side'] == 'server':
            name = f'server-{kind}'
            for _ in range(case['streams']):
                s1, s2 = short_stream(rng), short_stream(rng)
                both = Stream(s1.packets + s2.packets)
                for fail in fail_sets(rng, len(both.packets)):
                    exc_name = rng.choice(names)
                    sink = RaisingSink(fail, exc_name)
                    srv = Server(kind)
                    srv.sink = sink
                    TAP['raised'] = None
                    await srv.open()
                    st = SinkSteps(r, name, both, 'two-clients', [len(s1.data)], sink)
                    try:
                        style = 'close' if kind == 'ws' else 'half-close'
                        good = True
                        for s, fed in ((s1, len(s1.data)), (s2, len(both.data))):
                            await srv.client(s.data, style, rng)
                            if TAP['raised'] is not None:
                                st.raised(TAP['raised'], fed, sink.calls, f'{kind} server parser')
                                good = False
                                break
                            if not st.after(fed, sink.calls):
                                good = False
                                break
                        if good and st.final(sink.calls):
                            sinkraise_account(r, name, both, 'two-clients', [len(s1.data)], sink)
                            r.ev('sinkraise_socket_histories')
                    finally:
                        TAP['raised'] = None
                        await srv.close()
                    r.evals()
                    n += 1
                r.sig('sinkraise-server', kind, both.data)
            r.sample = {'kind': 'sinkraise-socket', 'side': 'server', 'transport': kind, 'histories': n}
            return
        name = f'transport-{kind}'
        for _ in range(case['streams']):
            s = short_stream(rng)
            N = len(s.data)
            for fail in fail_sets(rng, len(s.packets)):
                exc_name = rng.choice(names)
                i = min(fail)
                start, end = (s.bounds[i - 1] if i else 0), s.bounds[i]
                fams = [('whole', []), ('per-packet', s.bounds[:-1]), ('raise-ends-chunk', sorted({start, end} - {0, N})),
                        ('random', sorted(rng.randint(0, N) for _ in range(rng.choice([1, 2, 4]))))]
                if fail == [0] or len(fail) > 1:
                    fams.append(('bytewise', list(range(1, N))))
                for family, cuts in fams:
                    sink = RaisingSink(fail, exc_name)
                    peer = Peer(kind)
                    peer.sink = sink
                    TAP['raised'] = None
                    try:
                        try:
                            await peer.open()
                        except Unavailable as e:
                            r.ev(f'client_{kind}_unavailable')
                            r.add_extra_list('client_transports_unavailable', f'{kind}: {e}')
                            r.sample = {'kind': 'sinkraise-socket', 'transport': kind, 'unavailable': str(e)}
                            return
                        st = SinkSteps(r, name, s, family, cuts, sink)
                        fed = 0
                        total = TAP['bytes']
                        good = True
                        for ch in H.split_at(s.data, cuts):
                            if not ch:
                                continue
                            await peer.send(ch)
                            total += len(ch)
                            await wait_tap(total, f'{kind}: bytes of one chunk at the parser')
                            if TAP['raised'] is not None:
                                st.raised(TAP['raised'], fed, sink.calls, f'{kind} transport parser')
                                good = False
                                break
                            fed += len(ch)
                            if not st.after(fed, sink.calls):
                                good = False
                                break
                        if good and st.final(sink.calls):
                            sinkraise_account(r, name, s, family, cuts, sink)
                            r.ev('sinkraise_socket_histories')
                    finally:
                        TAP['raised'] = None
                        await peer.close()
                    r.evals()
                    n += 1
            r.sig('sinkraise-client', kind, s.data)
        r.sample = {'kind': 'sinkraise-socket', 'side': 'client', 'transport': kind, 'histories': n}
    finally:
        remove_tap()
        TAP['event'] = None


# =============================================================================
# entry point
# =============================================================================
def run_case(case, r: R):
    kind = case['kind']
    if kind == 'server':
        # real sockets need the real clock; decisions are made on counted events only and a
        # HarnessTimeout escapes as a harness error (inconclusive), never as a violation
        TAP['bytes'] = 0
        asyncio.run(server_case_async(case, r))
        return
    if kind == 'client':
        TAP['bytes'] = 0
        asyncio.run(client_case_async(case, r))
        return
    if kind == 'sinkraise-socket':
        TAP['bytes'] = 0
        asyncio.run(sinkraise_socket_case_async(case, r))
        return
    coro = {'frame': frame_case, 'big': big_case, 'exhaust': exhaust_case,
            'invalid': invalid_case, 'usbsrc': usbsrc_case, 'sources': sources_case,
            'isolation': isolation_case, 'sinkraise': sinkraise_case}[kind](case, r)
    vloop.run(coro)


LEVEL_TEXT = ('Hand-built H4 streams (5 packet types, boundary body lengths up to 65535) are fed to the '
              'real PacketParser, PacketReader, AsyncPacketReader and the three USB splitters under every '
              '2-chunk split, 1-byte chunks, structure-aligned and random cut sets; after every chunk the '
              'number of packets emitted is compared with the number wholly contained in the fed prefix and '
              'the final list with the built list; an invalid type byte is injected at every packet boundary '
              'in six ways; UsbPacketSource is driven without hardware; tcp/unix/ws server transports are '
              'run on real loopback sockets with client 1 cut at every byte position; every source class of '
              'bumble.transport.common found at run time is driven through the same chunkings; several framers are '
              'kept alive and fed interleaved while one of them registers a vendor packet type (which every other '
              'one must go on reporting as invalid); ws-client / tcp-client / unix-client / udp / pty / file transports '
              'are opened for real against a raw peer that cuts the stream into messages anywhere. A sink that raises on '
              'the packet at every position (once / k times in a row / always) is put behind every source class, the USB '
              'source with its dequeue task, reader loops and the real socket transports: all later packets must still be '
              'handed over exactly once, in order. Sequences of 1-3 '
              'tiny packets are enumerated with every split into <= 3 chunks. Held = no '
              'refuting execution among those observed; sampling outside the enumerated sub-space.')
LEVEL_NOTE = ('Trusted: vlib/ref_h4.py (layout table written from Core Vol 4 Part A/E; expected framing is '
              'known by construction), CPython io.BufferedReader / asyncio.StreamReader / sockets, the '
              'websockets client. Socket cases decide on counted bytes at PacketParser.feed_data; a wall '
              'timeout yields inconclusive.')
TECHNIQUE = 'runtime monitoring: construction-known framing oracle evaluated after every chunk; real loopback sockets for the server life cycle'
