"""C11 — GATT attribute permissions gate every read and write path.

Same rig as C10 (vlib/att_peer.py): device 0 = real bumble GATT server with a generated
database, device 1 = raw ATT peer on CID 4 and on a hand-driven enhanced bearer.

Oracle (vlib/ref_att.py, written from Core Vol 3 Part F 3.2.5 / 3.4.1.1, never from
Attribute.read_value):

    allowed_read  = READABLE  and (enc or not READ_REQ_ENC)  and (auth or not READ_REQ_AUTHN)  and not READ_REQ_AUTHZ
    allowed_write = WRITEABLE and (enc or not WRITE_REQ_ENC) and (auth or not WRITE_REQ_AUTHN) and not WRITE_REQ_AUTHZ

Every attribute value is a unique marker (any 4 consecutive bytes identify the attribute), so

  disclosed   the marker of an attribute that is not readable on this link appears in ANY
              server->client PDU of the session, or Find By Type Value lists its handle
  changed     a not-writable attribute's server-side value differs after the operation (static
              values), or its write callback ran (dynamic values)
  wrong-reply a refused access is answered by something other than an Error Response naming the
              request, the attribute, and a code that names a requirement the link really fails
  unanswered  a refused access on an operation that has a response gets no reply at all

Operations: Read, Read Blob, Read By Type, Read By Group Type, Read Multiple, Read Multiple
Variable, Find By Type Value, Write Request, Write Command — on single handles (every attribute
of the database: values, descriptors, CCCDs, service / include / characteristic declarations,
the built-in GAP and GATT services) and on ranges / handle lists that mix open and protected
attributes in every order.

Refusals are independent of WHAT is asked of the attribute: an attribute whose ordinary write (a fresh marker value)
was refused as it should is also written with its CURRENT value (a Write Response would be an equality oracle on a
value the link may neither read nor write), the empty value, a prefix of the current value, a value of the greatest
length the bearer's ATT_MTU allows and - through a packed characteristic adapter - values the application cannot
decode; an attribute whose ordinary Read Blob was refused is asked again at the value's end, beyond it, at 0xFFFF,
at the last byte and at 0. Keys of these end in /value-<class> or /offset-<class>.

The database reaches bumble by every route it offers (vlib/att_peer.py ROUTES): Service / Characteristic /
Descriptor objects with Permissions flags (one session in three), and - two sessions in three, in turn - the same
objects with permission STRINGS (',' and '|' spellings, keyword arguments, UUID strings), characteristic adapters
around them (base, delegated, packed), TemplateService subclasses through Device.add_services, and `gatt_services`
of a DeviceConfiguration loaded from a dict and from a JSON file (values attached afterwards, which is all that
form lacks). The oracle judges by the permissions the harness ASKED for; the clause
construction/permissions-differ/<route>/<role> compares them with what the server's attribute object holds.

Link security, two ways:
  direct-state cases   the harness puts the server's Connection object into {plain, encrypted, encrypted +
                       authenticated} (Harness.set_link) and runs everything above once: all 256 permission bytes.
  event-driven histories   the link gets its security the way the stack learns it: HCI Encryption Change (v1 and v2,
                       on and off, success and failure, with / without / with a stale key size), Encryption Key
                       Refresh Complete, Authentication Complete (success / failure) injected into the server's
                       controller->host pipe as spec-written bytes, SMP pairing completion (authenticated key / Just
                       Works key / failure) through Device.on_pairing, and real reconnections (the controllers reuse
                       the connection handle). ref_att.LinkSecurity says what the link IS after each event; after EVERY
                       step every reading / writing operation is run against every attribute of a database whose
                       permission bytes are all combinations of the encryption / authentication requirement on the
                       read and write side (+ authorization), so security going DOWN (encryption off, reconnection)
                       is judged exactly like security going up. Keys of history violations that depend on the link
                       end in `encryption-requirement/after-<event class>` or `authentication-requirement/after-<event
                       class>`, the event class being the one after which the wrong grant was first seen in an unbroken
                       run of steps (a wrong state persists over later events), or in `authentication-requirement/
                       link-authenticated-but-not-encrypted` (decided by the state, whichever event led to it);
                       authorization and access-bit refusals keep the class names of the direct-state cases.
  real pairings        two bumble devices, one with a GATT server whose attributes require encryption / authentication,
                       the other pairs with it through REAL SMP (Just Works three ways, passkey three ways, numeric
                       comparison; legacy and SC; bonding asked by both / one / neither side; GATT server = link Central
                       or Peripheral, SMP initiator or responder) and then reaches for the attributes through bumble's own
                       GATT client (Read, Read Blob, Read Using Characteristic UUID, Read Multiple, Write Request, Write
                       Command) before the pairing, after it, after a reconnection and after encrypt() on the new
                       connection; every server->client ATT PDU on the wire is scanned as well. The link is authenticated
                       iff Table 2.8 (vlib/ref_smp.py) gives a MITM-protected model for the two configurations (and the
                       users saw the prompts of one), encrypted iff the server's host received Encryption Change (on).
                       Keys end in `<requirement>-requirement/real-pairing/<model>-<bonded|not-bonded>/<stage>`. NOT judged
                       (known finding .../authentication-requirement/after-encryption-on): the authentication requirement
                       after encrypt() with a stored Just Works key on a new connection (counted as
                       real_pairing_authentication_judgments_skipped_known_finding), and nothing is asked between the
                       Encryption Change of a pairing and its completion.
"""
from __future__ import annotations

import itertools
import random
import struct

from vlib import ref_att as ra
from vlib.result import R

ID = 'C11'
LEVEL = 'exploration'
RULE = ('cases enumerate permission-byte chunk (8 x 32 = all 256 bytes on value attributes; descriptors take a '
        'permutation of all 256) x link state {plain, encrypted, encrypted+authenticated} x bearer {fixed, enhanced}; '
        'inside a case every attribute is exercised by the single-handle operations and every open/protected order '
        'pattern of length 2-3 by the range and handle-list operations. A case is non-trivial when it judged at least '
        'one refused and one granted access; distinct = (chunk, link state, bearer, database seed). Two sessions in '
        'three build the database by another route (permission strings, adapters, TemplateService, device '
        'configuration dict / JSON file), five routes in turn over (chunk, link, bearer). Attributes refused properly '
        'for the ordinary value / offset are attacked again with the current value, the empty value, a prefix, a '
        'maximum-length value, undecodable values and Read Blob offsets at / beyond the end. Event-driven '
        'histories: 5 fixed histories of 10-11 link-security events (encryption up/down in every event form, '
        'authentication then loss of security, failure events, reconnections, Just Works pairing) x bearer + seeded '
        'random histories of 9 events; after every event the whole battery of operations is judged against the '
        'state the events imply; distinct = (history, bearer, seed). Real pairings: 8 IO / MITM-flag configurations (3 Just '
        'Works, 3 passkey, numeric comparison / Just Works, numeric comparison / passkey) x {legacy, SC} x bonding asked by '
        '{both, server only, client only, nobody}; server link role, SMP initiator, reconnection and delay by enumeration '
        'over the running index; distinct = descriptor without seed; non-trivial when the pairing completed and the model '
        'seen by the users is the one Table 2.8 gives')
ASSUMPTIONS = [
    'direct-state cases: link security is what the server\'s Connection object says (encryption / authenticated set '
    'by the harness)',
    'histories: link security is what the events imply (ref_att.LinkSecurity): Encryption Change with status success '
    'sets encrypted := Encryption_Enabled != 0 in either event form and says nothing about authentication; failure '
    'events and Key Refresh change nothing; Authentication Complete (success) and a pairing that ends with an '
    'authenticated key make the link authenticated, a pairing that ends with a Just Works key makes it '
    'unauthenticated; a new connection starts plain; an authentication requirement is met only by a link that is '
    'authenticated AND encrypted (GAP 10.2.1: LE security mode 1 level 3)',
    'histories use permission bytes with READABLE and WRITEABLE set (the access bits are judged by the direct-state '
    'cases); pairing completion is injected at Device.on_pairing / on_pairing_failure (what the SMP session calls), '
    'not run as an SMP exchange; HCI Authentication Complete is injected on the LE connection handle',
    'authorization cannot be granted by this stack, so an attribute that requires it is never accessible',
    'a refusal may carry any error code that names a requirement the link actually fails (several may fail at once); '
    'on an unencrypted link Insufficient Authentication and Insufficient Encryption are interchangeable (GAP 10.3.1)',
    'in ranged reads a protected attribute that is not the first match may either end the list or be reported by '
    'its error; a protected first match must be reported by its error',
    'Find By Type Value must not report a protected attribute; Attribute Not Found or the attribute\'s own '
    'permission error are both accepted',
    'a device configuration cannot carry attribute values: on the configuration routes the harness sets the values '
    '(static bytes or read/write callbacks) on the attributes Device.__init__ built, found by service UUID and position',
    'a Write Request longer than 512 bytes may be refused for its length alone, so the maximum-length form stays within '
    'min(ATT_MTU - 3, 512)',
    'service and characteristic declarations are exercised as gatt.py builds them (read-only) and with permissions '
    'changed by the application after construction',
    'real pairings: a pairing gives an authenticated link iff its association model (Vol 3 Part H Table 2.8 for the two IO '
    'capabilities and AuthReq flags, transcribed in vlib/ref_smp.py) is passkey entry or numeric comparison, whether or '
    'not the devices bond; any completed pairing gives an encrypted link; a new connection is plain until Encryption Change '
    '(on) reaches the server\'s host; after encrypt() on a new connection the link is as authenticated as the pairing '
    'that made the key, but for a Just Works key that judgment is left out (known finding '
    '.../authentication-requirement/after-encryption-on); the users are honest and accept everything; pairing outcomes '
    'themselves belong to C13 (a pairing that does not complete, or whose prompts contradict the table, is counted and '
    'not judged)',
]
ALT_ROUTES = ['strings', 'adapter', 'template', 'config-dict', 'config-file']      # vlib/att_peer.py ROUTES
# deciding counters of the event-driven histories (quick; thorough: 6 x the fixed histories, 20 x the random ones)
HISTORY_MIN = {
    'history_steps_judged': 100, 'history_steps_with_refused_and_granted_accesses': 100,
    'refused_accesses_judged_in_histories': 35000, 'value_unchanged_checks_in_histories': 20000,
    'refused_after_encryption-off': 8000, 'refused_after_encryption-on': 8000, 'refused_after_reconnection': 2500,
    'refused_after_key-refresh': 500, 'refused_after_authentication-complete': 1500,
    'refused_after_pairing-complete': 2500, 'refused_after_pairing-complete-unauthenticated-key': 1800,
    'refused_after_encryption-change-failed': 2000, 'refused_after_authentication-failed': 1200,
    'refused_after_pairing-failed': 1000, 'security_went_down': 20, 'security_went_up': 30,
    'encryption_change_events_v1': 20, 'encryption_change_events_v2': 30, 'reconnections_on_the_same_handle': 6,
}
# deciding counters of the construction routes and of the value / offset forms of refused accesses (quick)
FORMS_MIN = {
    'refused_reads_at_other_offsets': 8000, 'refused_read_blob_offset_at-end': 1500,
    'refused_read_blob_offset_beyond-end': 1500, 'refused_read_blob_offset_far-beyond': 1500,
    'refused_read_blob_offset_zero': 1500, 'refused_write_of_value_current': 18000, 'refused_write_of_value_empty': 3000,
    'refused_write_of_value_max-length': 3000, 'refused_write_of_value_prefix-of-current': 3000,
    'refused_writes_of_undecodable_values_through_an_adapter': 100,
    **{f'constructed_descriptors_checked_{x}': 400 for x in ALT_ROUTES},
    **{f'constructed_values_checked_{x}': 900 for x in ALT_ROUTES},
    **{f'nontrivial_sessions_on_a_database_built_from_{x}': 14 for x in ALT_ROUTES},
    'nontrivial_sessions_on_a_database_built_from_objects': 40,
}
MIN_EVENTS = {  # (downgrade_mid_long_read_probes is checked in quick only through the entry below)

    'quick': {'downgrade_mid_long_read_probes': 10, 'refused_accesses_judged': 18000, 'granted_accesses_seen': 5000, 'disclosure_scans': 20000,
              'value_unchanged_checks': 10000, 'mixed_order_requests': 3500, 'value_attributes_exercised': 1900,
              'eatt_accesses': 14000, 'refusals_with_matching_error': 5000, **HISTORY_MIN, **FORMS_MIN},
    'thorough': {'refused_accesses_judged': 430000, 'granted_accesses_seen': 120000, 'disclosure_scans': 480000,
                 'value_unchanged_checks': 240000, 'mixed_order_requests': 84000, 'value_attributes_exercised': 45000,
                 'eatt_accesses': 336000, 'refusals_with_matching_error': 120000,
                 **{k: v * 6 for k, v in HISTORY_MIN.items()}, **{k: v * 6 for k, v in FORMS_MIN.items()}},
}
CASE_TIMEOUT = 300

LINKS = [('plain', False, False), ('encrypted', True, False), ('authenticated', True, True)]
PATTERNS = [p for n in (2, 3) for p in itertools.product('OP', repeat=n) if 'P' in p]   # every order with >=1 protected
OPEN_FALLBACK = [0x03, 0x03, 0x01]
PROT_FALLBACK = [0x00, 0x02, 0x07, 0x17, 0x43, 0x06]
DESC_PERM_ORDER = [(i * 37 + 11) % 256 for i in range(256)]     # a permutation of 0..255


def plan(tier, seed):
    cases = []
    reps = 3 if tier == 'quick' else 24
    alt = 0
    for rep in range(reps):
        for chunk in range(8):
            for li in range(3):
                for bearer in ('att', 'eatt'):
                    case = {'chunk': chunk, 'link': li, 'bearer': bearer,
                            'seed': seed * 1000003 + rep * 977 + chunk * 31 + li * 7 + (bearer == 'eatt')}
                    if rep % 3:
                        # two sessions in three hand the same kind of database to bumble another way (5 ways, coprime
                        # with the 2 x 3 x 8 of the inner loops: every way meets every link state, bearer and chunk)
                        case['route'] = ALT_ROUTES[(alt + seed) % len(ALT_ROUTES)]
                        alt += 1
                    cases.append(case)
    # event-driven histories: the fixed ones on both bearers, then seeded random ones
    hreps = 1 if tier == 'quick' else 6
    for rep in range(hreps):
        for hi, (name, steps) in enumerate(HISTORIES):
            for bearer in ('att', 'eatt'):
                cases.append({'kind': 'history', 'name': name, 'steps': steps, 'bearer': bearer,
                              'seed': seed * 1000003 + 500000 + rep * 977 + hi * 31 + (bearer == 'eatt')})
    hrng = random.Random(seed * 7919 + 13)
    for k in range(8 if tier == 'quick' else 160):
        cases.append({'kind': 'history', 'name': 'random', 'steps': random_history(hrng, 9),
                      'bearer': 'att' if k % 2 == 0 else 'eatt', 'seed': seed * 1000003 + 600000 + k})
    cases += realpair_plan(tier, seed)
    return cases


# -----------------------------------------------------------------------------
READ_FAMILY = ra.P_READABLE | ra.P_READ_ENC | ra.P_READ_AUTHN | ra.P_READ_AUTHZ
WRITE_FAMILY = ra.P_WRITEABLE | ra.P_WRITE_ENC | ra.P_WRITE_AUTHN | ra.P_WRITE_AUTHZ


def reason_of(perm, enc, auth, write=False):
    """Discriminating class of a refusal:
      security-requirement              an encryption / authentication / authorization requirement is unmet
      no-read-permission (no-write-..)  none of the four read (write) permission bits is set
      access-bit-clear-requirement-met  READABLE (WRITEABLE) is clear, but some requirement bit is set and
                                        every requirement that is set is met by the link"""
    if write:
        sec = (perm & ra.P_WRITE_ENC and not enc) or (perm & ra.P_WRITE_AUTHN and not auth) or perm & ra.P_WRITE_AUTHZ
        return 'security-requirement' if sec else \
            'no-write-permission' if not perm & WRITE_FAMILY else 'access-bit-clear-requirement-met'
    sec = (perm & ra.P_READ_ENC and not enc) or (perm & ra.P_READ_AUTHN and not auth) or perm & ra.P_READ_AUTHZ
    return 'security-requirement' if sec else \
        'no-read-permission' if not perm & READ_FAMILY else 'access-bit-clear-requirement-met'


def role_class(m):
    return {'value': 'value', 'descriptor': 'descriptor', 'cccd': 'descriptor', 'builtin-descriptor': 'descriptor',
            'service': 'declaration', 'include': 'declaration', 'chardecl': 'declaration',
            'builtin-value': 'value'}[m.role]


def build_spec(rng, chunk, enc, auth, route='objects'):
    """Service A: one characteristic per permission byte of the chunk (+ one descriptor each);
    services B*: groups sharing a 16-bit type and a length, one group per open/protected order
    pattern; services C*: declarations whose permissions the application changed."""
    idx = itertools.count(1)
    perms = list(range(chunk * 32, chunk * 32 + 32))
    open_p = [p for p in perms if ra.allowed_read(p, enc, auth)] or OPEN_FALLBACK
    prot_p = [p for p in perms if not ra.allowed_read(p, enc, auth)] or PROT_FALLBACK
    services = []
    chars = []
    for k, p in enumerate(perms):
        i = next(idx)
        kind = rng.choice(['static', 'static', 'static', 'dyn', 'dyn-v2', 'dyn-async'])
        c = {'uuid': struct.pack('<H', 0xA100 + k).hex() if k % 3 else ra.marker_value(3000 + i, 16).hex(),
             'props': 0x0A, 'perm': p, 'len': rng.choice([8, 8, 30, 60]), 'index': i, 'kind': kind, 'descs': []}
        if route == 'adapter' and k % 2 == 1:
            c['len'], c['kind'] = 4, 'static'       # a packed adapter: a number on the application side
        dp = DESC_PERM_ORDER[(chunk * 32 + k) % 256]
        c['descs'].append({'uuid': rng.choice(['0129', struct.pack('<H', 0xA900 + k).hex()]), 'perm': dp, 'len': 8,
                           'index': next(idx), 'kind': rng.choice(['static', 'static', 'dyn'])})
        if k % 8 == 0:
            c['props'] = 0x1A    # NOTIFY -> bumble adds a CCCD
        chars.append(c)
    services.append({'uuid': ra.marker_value(2000, 16).hex(), 'primary': True, 'chars': chars, 'includes': []})
    groups = []
    for gi, pat in enumerate(PATTERNS):
        uuid = struct.pack('<H', 0xC000 + gi).hex()
        ln = rng.choice([6, 8, 12])
        gchars = []
        for sym in pat:
            p = rng.choice(open_p if sym == 'O' else prot_p)
            gchars.append({'uuid': uuid, 'props': 0x0A, 'perm': p, 'len': ln, 'index': next(idx),
                           'kind': rng.choice(['static', 'static', 'dyn']), 'descs': []})
        groups.append({'pattern': ''.join(pat), 'uuid': uuid, 'indices': [c['index'] for c in gchars]})
        services.append({'uuid': ra.marker_value(2100 + gi, 16).hex(), 'primary': True, 'chars': gchars, 'includes': []})
    # declarations with application-modified permissions: three services in a row for Read By Group Type
    decl_groups = []
    for di, pat in enumerate([('O', 'P'), ('P', 'O'), ('O', 'P', 'O'), ('P', 'P', 'O')]):
        members = []
        for sym in pat:
            p = 0x01 if sym == 'O' else rng.choice([x for x in prot_p + PROT_FALLBACK if not ra.allowed_read(x, enc, auth)])
            si = next(idx)
            services.append({'uuid': ra.marker_value(si, 16).hex(), 'primary': True, 'perm': p, 'index': si,
                             'chars': [{'uuid': struct.pack('<H', 0xD000 + si).hex(), 'props': 0x02, 'perm': 0x01,
                                        'len': 8, 'index': next(idx), 'kind': 'static', 'descs': [],
                                        'decl_perm': rng.choice([None, p])}],
                             'includes': []})
            members.append(si)
        decl_groups.append({'pattern': ''.join(pat), 'service_indices': members})
    return services, groups, decl_groups


class Session:
    def __init__(self, hs, bearer, r, enc, auth, rng):
        self.hs, self.bearer, self.r, self.enc, self.auth, self.rng = hs, bearer, r, enc, auth, rng
        self.table = ra.MarkerTable()
        self.kind = bearer.kind
        self.refused_read = {}      # marker key -> model
        self.write_serial = 5000
        self.scanned = 0
        self.trail = 0
        self.after = None           # history mode: class of the event that made the link what it is now
        self.link = None            # history mode: ra.LinkSecurity
        self.blame = {}             # history mode: requirement -> event class after which granting was first seen
        self.blamed_now = set()
        for m in hs.models:
            if m.role == 'service' and m.value is not None and len(m.value) == 16 and m.value[0] == 0xE7:
                # service declaration value = its 128-bit UUID, which the generator made a marker
                a, b, c = m.value[1] - 0x10, m.value[2] - 0x10, m.value[3] - 0x10
                m.index = 100000 + m.handle
                self.table.add(a + 100 * b + 10000 * c, False, key=m.index)
                m.marker = True
            elif m.marker and m.index > 0:
                self.table.add(m.index, False)
            if m.marker and not self.readable(m):
                self.refused_read[m.index] = m

    # -- history mode ----------------------------------------------------------------
    def relink(self, link, after, bearer=None):
        """The link's security is now what the model `link` says, after an event of class `after`.
        Everything received so far is judged against the state that held when it was sent."""
        for b in self.hs.bearers:
            self.scan(b)
        for x in list(self.blame):
            if x not in self.blamed_now or after == 'reconnection':
                del self.blame[x]
        self.blamed_now = set()
        self.link, self.after = link, after
        self.enc, self.auth = link.enc, link.auth
        if bearer is not None:
            self.bearer = bearer
        self.refused_read = {m.index: m for m in self.hs.models if m.marker and not self.readable(m)}

    def state_text(self):
        if self.link is None:
            return f'enc={self.enc} auth={self.auth}'
        return (f'enc={self.enc} auth={self.auth} by the events {" > ".join(self.link.trail[-8:])}; the stack\'s '
                f'Connection says (encryption, authenticated)={self.hs.stack_link_state()}')

    def reason(self, m, write=False):
        """direct-state cases: reason_of(); histories: the unmet requirement by name + the class of the last event"""
        if self.after is None:
            return reason_of(m.perm, self.enc, self.auth, write)
        unmet = ra.unmet_requirement(m.perm, self.enc, self.auth, write)
        if unmet == 'authentication' and self.link.authenticated and not self.link.encrypted:
            # decided by the state, whatever event led to it: authentication completed on this connection, but the
            # link is not (or no longer) encrypted
            return 'authentication-requirement/link-authenticated-but-not-encrypted'
        if unmet not in ('encryption', 'authentication'):
            # authorization and the access bits do not depend on the link: same class as in a direct-state case
            return reason_of(m.perm, self.enc, self.auth, write)
        return f'{unmet}-requirement/after-{self.after}'

    def bad(self, key, detail):
        """In a history the stack's state persists over the steps, so a wrong state is seen again after every later
        event that (rightly) changes nothing. The key names the event after which granting against the requirement
        was FIRST seen in the current unbroken run of steps showing it, not the latest event."""
        if self.after is not None:
            for x in ('encryption', 'authentication'):
                tail = f'/{x}-requirement/after-{self.after}'
                if key.endswith(tail):
                    first = self.blame.setdefault(x, self.after)
                    self.blamed_now.add(x)
                    if first != self.after:
                        key = key[:-len(tail)] + f'/{x}-requirement/after-{first}'
                        detail = f'{detail} [first seen after {first}, still so after {self.after}]'
        self.r.bad(key, detail)

    def count_refused(self):
        self.r.ev('refused_accesses_judged')
        if self.after is not None:
            self.r.ev('refused_accesses_judged_in_histories')
            self.r.ev(f'refused_after_{self.after}')

    # -- predicate ----------------------------------------------------------------
    def readable(self, m):
        return ra.allowed_read(m.perm, self.enc, self.auth)

    def writable(self, m):
        return ra.allowed_write(m.perm, self.enc, self.auth)

    # -- plumbing -----------------------------------------------------------------
    async def ask(self, pdu, what, touches=()):
        """touches: the attributes this request addresses. Their disclosure in the reply is judged
        (and keyed) by the operation's own clause; the scan reports every *other* leak."""
        if self.kind == 'eatt':
            self.r.ev('eatt_accesses')
        self.trail += 1
        replies = await self.hs.exchange(self.bearer, pdu, what, f'{self.kind} {what} {pdu[:24].hex()}')
        for b in self.hs.bearers:
            self.scan(b, {m.index for m in touches})
        return replies

    def scan(self, bearer, judged_elsewhere=frozenset()):
        """disclosure clause over every server->client PDU not yet scanned"""
        n = getattr(bearer, '_c11_scanned', 0)
        for pdu in bearer.rx[n:]:
            self.r.ev('disclosure_scans')
            self.r.ev('oracle_evals')
            for key in self.table.find(pdu):
                m = self.refused_read.get(key)
                if m is not None and key in judged_elsewhere:
                    self.r.ev('disclosures_in_reply_to_the_request_that_addressed_the_attribute')
                elif m is not None:
                    self.bad(f'perm/disclosed/{ra.opname(pdu[0])}/{self.reason(m)}',
                               f'value of {m} (not readable with {self.state_text()}) appears in '
                               f'{ra.opname(pdu[0])} on {bearer.kind}: {pdu[:40].hex()}; last request: {self.hs.ctx}')
        bearer._c11_scanned = len(bearer.rx)

    def judge_refusal(self, op, opn, m, replies, codes, reason, handle_must_match=True, accept_not_found=False):
        """`replies` answer request opcode `op`, which had to be refused because of attribute m."""
        r = self.r
        self.count_refused()
        r.ev('oracle_evals')
        key_tail = f'{reason}'
        if not replies:
            self.bad(f'perm/{opn}/unanswered/{key_tail}',
                  f'{opn} touching {m} ({self.state_text()}) got no reply at all; {self.hs.ctx}')
            return False
        pdu = replies[0]
        if len(replies) > 1:
            self.bad(f'perm/{opn}/wrong-reply/{key_tail}', f'{len(replies)} replies: {[p[:8].hex() for p in replies]}')
            return False
        if pdu[0] != ra.ERROR_RSP:
            return None     # a response: caller decides whether its content is acceptable
        try:
            req, handle, code = ra.parse_error(pdu)
        except ra.Malformed as e:
            self.bad(f'perm/{opn}/wrong-reply/{key_tail}', f'{e}: {pdu.hex()}')
            return False
        ok_codes = set(codes) | ({ra.E_ATTRIBUTE_NOT_FOUND} if accept_not_found else set())
        if req != op or code not in ok_codes or (handle_must_match and code in codes and handle != m.handle):
            self.bad(f'perm/{opn}/wrong-reply/{key_tail}',
                  f'{opn} touching {m} ({self.state_text()}) answered by error (req={req:#x} '
                  f'handle={handle:#x} code={code:#x}); acceptable codes {sorted(ok_codes)} for handle {m.handle:#x}; '
                  f'{self.hs.ctx}')
            return False
        r.ev('refusals_with_matching_error')
        return True

    # -- single-handle operations --------------------------------------------------
    def judge_read_refusal(self, opn, op, m, replies, reason, form=''):
        """`replies` answer a Read / Read Blob of m, which is not readable on this link. `form` names the
        parameter form (Read Blob offset class) when the ordinary form of the same request was refused as it
        should: then the form is what discriminates. True when refused properly."""
        r = self.r
        if replies and len(replies) == 1 and len(replies[0]) == 5 and replies[0][0] == ra.ERROR_RSP and \
                replies[0][1] == op and replies[0][4] in (ra.E_ATTRIBUTE_NOT_LONG, ra.E_INVALID_OFFSET):
            # these errors depend on the value's length: the server went past the permission check
            self.count_refused()
            r.ev('oracle_evals')
            self.bad(f'perm/{opn}/granted/{reason}{form}',
                  f'{opn} of {m} with {self.state_text()} answered by error {replies[0][4]:#x}, which is '
                  f'decided from the value (its length) instead of the permission; {self.hs.ctx}')
            return False
        res = self.judge_refusal(op, opn, m, replies, ra.read_refusal_codes(m.perm, self.enc, self.auth), reason + form)
        if res is None:
            self.bad(f'perm/{opn}/granted/{reason}{form}',
                  f'{opn} of {m} with {self.state_text()} answered by {ra.opname(replies[0][0])} '
                  f'{replies[0][:24].hex()} instead of an error; {self.hs.ctx}')
        return res is True

    async def single_reads(self, m, offsets=0):
        """offsets: how many further Read Blob offsets (the value's end, beyond it, the far end of the offset
        range, the last byte) a refused attribute is asked at: the refusal must not depend on the offset"""
        r = self.r
        proper = {}
        for opn, op, pdu in (('read', ra.READ_REQ, ra.read(m.handle)),
                             ('read-blob', ra.READ_BLOB_REQ, ra.read_blob(m.handle, self.rng.choice([0, 1])))):
            replies = await self.ask(pdu, opn, [m])
            if self.readable(m):
                if replies and replies[0][0] in (ra.READ_RSP, ra.READ_BLOB_RSP):
                    r.ev('granted_accesses_seen')
                elif replies and replies[0][0] == ra.ERROR_RSP:
                    r.ev('allowed_but_error')    # Attribute Not Long etc.: availability is not this property
                continue
            proper[opn] = self.judge_read_refusal(opn, op, m, replies, self.reason(m))
        if self.readable(m) or not offsets or m.value is None or not proper.get('read-blob'):
            # (an attribute whose ordinary Read Blob was not refused as it should is already reported)
            return
        n = len(m.value)
        forms = [('at-end', n), ('beyond-end', n + 1), ('far-beyond', 0xFFFF), ('last-byte', max(0, n - 1)), ('zero', 0)]
        k = self.rng.randrange(len(forms))
        for name, off in (forms[k:] + forms[:k])[:offsets]:
            replies = await self.ask(ra.read_blob(m.handle, off), f'read-blob offset {name}', [m])
            r.ev('refused_reads_at_other_offsets')
            r.ev(f'refused_read_blob_offset_{name}')
            self.judge_read_refusal('read-blob', ra.READ_BLOB_REQ, m, replies, self.reason(m),
                                    f'/offset-{name}')

    def snapshot(self, m):
        if m.kind == 'static':
            v = m.obj.value
            return bytes(v) if isinstance(v, (bytes, bytearray)) else v
        if m.kind.startswith('dyn'):
            return len(m.state['writes'])
        return None

    def wire_value_now(self, m):
        """the bytes a permitted read of m would return now (None when the model cannot know)"""
        if m.kind == 'static':
            v = m.obj.value
            if isinstance(v, (bytes, bytearray)):
                return bytes(v)
            if isinstance(v, int) and m.state.get('adapter') == 'packed':
                return struct.pack('<I', v)
            return None
        return m.value

    async def single_writes(self, m, forms=0):
        """forms: how many further VALUES (the attribute's current value, the empty value, a prefix of the current
        value, a value of the greatest length a Write Request can carry) are written to an attribute that is not
        writable on this link: the refusal must not depend on what is written"""
        r = self.r
        proper = {}
        for opn, op in (('write', ra.WRITE_REQ), ('write-command', ra.WRITE_CMD)):
            self.write_serial += 1
            ln = 2 if m.role == 'cccd' else self.rng.choice([4, 8, 20])
            if m.state.get('adapter') == 'packed':
                ln = 4      # (the ordinary value is one the adapter can decode; the other forms are not)
            new = ra.marker_value(self.write_serial, ln, written=True) if m.role != 'cccd' else b'\x00\x00'
            before = self.snapshot(m)
            pdu = ra.write_request(m.handle, new) if op == ra.WRITE_REQ else ra.write_command(m.handle, new)
            replies = await self.ask(pdu, opn)
            after = self.snapshot(m)
            if self.writable(m):
                if before is not None and after != before:
                    r.ev('granted_accesses_seen')
                    r.ev('granted_writes_took_effect')
                    if m.kind == 'static' and m.marker and (not self.readable(m) or self.after is not None):
                        # the new content is now the protected value of this attribute (in a history:
                        # of an attribute that a later event may protect)
                        self.table.add(self.write_serial, True, key=m.index)
                continue
            proper[opn] = self.judge_write_refusal(opn, op, m, before, after, replies, self.reason(m, write=True))
        if self.writable(m) or not forms or not all(proper.values()):
            # (an attribute whose ordinary write was not refused as it should is already reported)
            return
        if m.index <= 0 and self.rng.random() > 0.125:
            return      # declarations and built-in attributes (most of the database, all alike): one in eight
        cur = self.wire_value_now(m)
        mtu = self.bearer.pairing.mtu
        self.write_serial += 1
        cand = [('max-length', ra.marker_value(self.write_serial, min(mtu - 3, 512), written=True)), ('empty', b'')]
        if cur:
            cand.append(('prefix-of-current', cur[:max(1, len(cur) // 2)]))
        k = self.rng.randrange(len(cand))
        cand = cand[k:] + cand[:k]
        if cur is not None:
            cand.insert(0, ('current', cur))      # always: the answer would be an equality oracle on the value
        for fi, (name, value) in enumerate(cand[:forms]):
            both = (('write', ra.WRITE_REQ), ('write-command', ra.WRITE_CMD))
            if name == 'current':
                # (a command that carries the current value of a static attribute has no observable outcome)
                ops = both if m.kind.startswith('dyn') else both[:1]
            else:
                ops = [both[self.rng.randrange(2)]]
            for opn, op in ops:
                before = self.snapshot(m)
                pdu = ra.write_request(m.handle, value) if op == ra.WRITE_REQ else ra.write_command(m.handle, value)
                replies = await self.ask(pdu, f'{opn} value {name}')
                after = self.snapshot(m)
                r.ev('refused_writes_of_other_values')
                if m.state.get('adapter') == 'packed' and len(value) != 4:
                    r.ev('refused_writes_of_undecodable_values_through_an_adapter')
                r.ev(f'refused_write_of_value_{name}')
                self.judge_write_refusal(opn, op, m, before, after, replies, self.reason(m, write=True),
                                         f'/value-{name}')

    def judge_write_refusal(self, opn, op, m, before, after, replies, reason, form=''):
        """A Write Request / Command to m, which is not writable on this link, was sent; `before` / `after` are
        the server-side snapshots. `form` names the written value's class when the ordinary value was refused
        as it should. True when refused properly."""
        r = self.r
        changed = False
        if before is not None:
            r.ev('value_unchanged_checks')
            if self.after is not None:
                r.ev('value_unchanged_checks_in_histories')
            r.ev('oracle_evals')
            if after != before:
                changed = True
                self.bad(f'perm/{opn}/changed/{reason}{form}',
                      f'{opn} to {m} (not writable with {self.state_text()}) changed the server-side '
                      f'value from {str(before)[:40]} to {str(after)[:40]}; {self.hs.ctx}')
                if m.kind == 'static':
                    m.obj.value = before    # restore so that later clauses see the original database
        if op == ra.WRITE_REQ:
            res = self.judge_refusal(op, opn, m, replies, ra.write_refusal_codes(m.perm, self.enc, self.auth),
                                     reason + form)
            if res is None and not changed:
                self.bad(f'perm/{opn}/granted/{reason}{form}',
                      f'write to {m} with {self.state_text()} answered by {ra.opname(replies[0][0])}; {self.hs.ctx}')
            return res is True and not changed
        self.count_refused()
        return not changed

    # -- ranges and handle lists ----------------------------------------------------
    async def ranged(self, members, type_le, pattern, group_type=False):
        """members: models sharing a type, consecutive in handle order (other attributes may lie between)."""
        r = self.r
        r.ev('mixed_order_requests')
        start, end = members[0].handle, members[-1].handle
        if group_type:
            opn, op, pdu = 'read-by-group-type', ra.READ_BY_GROUP_TYPE_REQ, ra.read_by_group_type(start, end, type_le)
        else:
            opn, op, pdu = 'read-by-type', ra.READ_BY_TYPE_REQ, ra.read_by_type(start, end, type_le)
        replies = await self.ask(pdu, f'{opn} pattern {pattern}', members)
        first_refused = next((m for m in members if not self.readable(m)), None)
        if first_refused is None:
            return
        reason = self.reason(first_refused)
        pos = 'first' if first_refused is members[0] else 'later'
        codes = ra.read_refusal_codes(first_refused.perm, self.enc, self.auth)
        if replies and len(replies) == 1 and len(replies[0]) == 5 and replies[0][0] == ra.ERROR_RSP and replies[0][1] == op:
            _req, eh, ec = ra.parse_error(replies[0])
            later = [m for m in members[members.index(first_refused) + 1:] if not self.readable(m)]
            if any(eh == m.handle and ec in ra.read_refusal_codes(m.perm, self.enc, self.auth) for m in later) and \
                    not (eh == first_refused.handle):
                # the error names a protected attribute *behind* the first one: the first was passed over
                self.count_refused()
                r.ev('oracle_evals')
                self.bad(f'perm/{opn}/granted/{reason}',
                      f'{opn} {start:#x}..{end:#x} over pattern {pattern}: error names handle {eh:#x} (code {ec:#x}) although '
                      f'{first_refused} comes first and is not readable ({self.state_text()})')
                return
        res = self.judge_refusal(op, opn + '/' + pos, first_refused, replies, codes, reason)
        if res is None:
            # a response: acceptable only when the protected attribute is not the first match and
            # the list stops before it
            pdu = replies[0]
            try:
                listed = [e[0] for e in (ra.parse_read_by_group_type_rsp(pdu) if group_type else ra.parse_read_by_type_rsp(pdu))]
            except ra.Malformed as e:
                self.bad(f'perm/{opn}/{pos}/wrong-reply/{reason}', f'{e}: {pdu[:30].hex()}')
                return
            bad = [hd for hd in listed if hd in self.hs.by_handle and not self.readable(self.hs.by_handle[hd])]
            if pos == 'first' or bad:
                self.bad(f'perm/{opn}/granted/{reason}',
                      f'{opn} {start:#x}..{end:#x} over pattern {pattern} lists handles {[hex(x) for x in listed]}; '
                      f'protected: {[hex(m.handle) for m in members if not self.readable(m)]} '
                      f'({self.state_text()})')
            else:
                r.ev('ranged_list_stopped_before_protected')

    async def multi(self, members, pattern):
        r = self.r
        for opn, op, enc in (('read-multiple', ra.READ_MULTIPLE_REQ, ra.read_multiple),
                             ('read-multiple-variable', ra.READ_MULTIPLE_VARIABLE_REQ, ra.read_multiple_variable)):
            r.ev('mixed_order_requests')
            handles = [m.handle for m in members]
            replies = await self.ask(enc(handles), f'{opn} pattern {pattern}', members)
            refused = [m for m in members if not self.readable(m)]
            if not refused:
                continue
            first = refused[0]
            reason = self.reason(first)
            pos = 'first' if first is members[0] else 'later'
            # the error may name any refused attribute of the set with that attribute's own code
            ok = False
            if replies and len(replies) == 1 and replies[0][0] == ra.ERROR_RSP and len(replies[0]) == 5:
                req, handle, code = ra.parse_error(replies[0])
                ok = req == op and any(handle == m.handle and code in ra.read_refusal_codes(m.perm, self.enc, self.auth)
                                       for m in refused)
            self.count_refused()
            r.ev('oracle_evals')
            if not ok and pos == 'later' and replies and len(replies) == 1 and replies[0][0] == ra.RESPONSE_OF[op]:
                # a response that ends before the first protected handle touched nothing protected
                before = members[:members.index(first)]
                # (values the model does not know count as empty: the response is a prefix of the concatenation
                # in request order, so one no longer than the KNOWN bytes before the protected value ends before it)
                # A response that holds ALL the values before the protected one, whole, means the server reached
                # the protected attribute and passed over it without the error: that is not a stop for lack of room.
                known = all(m.value is not None for m in before)
                if op == ra.READ_MULTIPLE_REQ:
                    room = sum(len(m.value) for m in before if m.value is not None)
                    stopped = len(replies[0]) - 1 < room if known else len(replies[0]) - 1 <= room
                else:
                    try:
                        tuples = ra.parse_read_multiple_variable_rsp(replies[0])
                        stopped = len(tuples) < len(before) or (
                            len(tuples) == len(before) and bool(tuples) and len(tuples[-1][1]) < tuples[-1][0])
                    except ra.Malformed:
                        stopped = False
                if stopped:
                    r.ev('multi_read_stopped_before_protected')
                    continue
            if ok:
                r.ev('refusals_with_matching_error')
            elif not replies:
                self.bad(f'perm/{opn}/{pos}/unanswered/{reason}',
                      f'{opn} {[hex(x) for x in handles]} (pattern {pattern}, {self.state_text()}) got no reply')
            elif replies[0][0] == ra.ERROR_RSP:
                self.bad(f'perm/{opn}/{pos}/wrong-reply/{reason}',
                      f'{opn} {[hex(x) for x in handles]} answered by {replies[0].hex()}; protected: '
                      f'{[(hex(m.handle), sorted(ra.read_refusal_codes(m.perm, self.enc, self.auth))) for m in refused]}')
            else:
                self.bad(f'perm/{opn}/granted/{reason}',
                      f'{opn} {[hex(x) for x in handles]} (pattern {pattern}) answered by {ra.opname(replies[0][0])} '
                      f'{replies[0][:30].hex()} although {[hex(m.handle) for m in refused]} are not readable')

    async def find_by_value(self, members, type_le, pattern):
        """Ask for each member's value inside the group's range."""
        r = self.r
        start, end = members[0].handle, members[-1].handle
        t16 = struct.unpack('<H', type_le)[0]
        for target in members:
            r.ev('mixed_order_requests')
            replies = await self.ask(ra.find_by_type_value(start, end, t16, target.value),
                                     f'find-by-type-value pattern {pattern} target {"O" if self.readable(target) else "P"}')
            refused = [m for m in members if not self.readable(m)]
            if not refused:
                continue
            reason = self.reason(refused[0])
            tclass = 'target-protected' if not self.readable(target) else 'target-open'
            self.count_refused()
            r.ev('oracle_evals')
            key = f'{reason}'
            if not replies:
                self.bad(f'perm/find-by-type-value/{tclass}/unanswered/{key}',
                      f'find-by-type-value {start:#x}..{end:#x} type {t16:#x} (pattern {pattern}) got no reply')
                continue
            pdu = replies[0]
            if pdu[0] == ra.ERROR_RSP and len(pdu) == 5:
                req, handle, code = ra.parse_error(pdu)
                okc = {ra.E_ATTRIBUTE_NOT_FOUND}
                for m in refused:
                    okc |= ra.read_refusal_codes(m.perm, self.enc, self.auth)
                if req != ra.FIND_BY_TYPE_VALUE_REQ or code not in okc:
                    self.bad(f'perm/find-by-type-value/{tclass}/wrong-reply/{key}', f'answered by {pdu.hex()}')
                else:
                    r.ev('refusals_with_matching_error')
                continue
            try:
                found = [e[0] for e in ra.parse_find_by_type_value_rsp(pdu)]
            except ra.Malformed as e:
                self.bad(f'perm/find-by-type-value/{tclass}/wrong-reply/{key}', f'{e}: {pdu[:30].hex()}')
                continue
            leaked = [hd for hd in found if hd in self.hs.by_handle and not self.readable(self.hs.by_handle[hd])]
            if leaked:
                self.bad(f'perm/find-by-type-value/{tclass}/disclosed/{key}',
                      f'find-by-type-value confirms the value of protected handles {[hex(x) for x in leaked]} '
                      f'(pattern {pattern}, {self.state_text()}): {pdu.hex()}')
            else:
                r.ev('find_by_type_value_listed_only_open')


def construction_clause(hs, r, route):
    """What the application asked for is what the server must hold: for every value attribute and descriptor the
    harness handed to bumble (by whatever route) the permission flags stored on the server's attribute object
    are compared with the flags that were asked for. (The access battery judges by the flags asked for, not by
    these: this clause only names the route when a construction route loses them.)"""
    for m in hs.models:
        if 'stored_perm' not in m.state:
            continue
        r.ev('constructed_attributes_checked')
        r.ev(f'constructed_{m.role}s_checked_{route}')
        r.ev('oracle_evals')
        if m.state['stored_perm'] != m.perm:
            r.bad(f'construction/permissions-differ/{route}/{m.role}',
                  f'{m.role} {m.type.hex()} at handle {m.handle:#x} was handed to bumble through route "{route}" with '
                  f'permissions {m.perm:#04x}; the attribute in the server holds {m.state["stored_perm"]:#04x}')


async def run_case(case, r: R):
    import logging
    logging.disable(logging.CRITICAL)
    if case.get('kind') == 'history':
        return await history_case(case, r)
    if case.get('kind') == 'realpair':
        return await realpair_case(case, r)
    from vlib import att_peer as ap

    rng = random.Random(case['seed'])
    link_name, enc, auth = LINKS[case['link']]
    route = case.get('route', 'objects')
    spec, groups, decl_groups = build_spec(rng, case['chunk'], enc, auth, route)
    # the pairing automaton keeps running (MTU tracking, windows) but its verdicts belong to C10
    side = R(case)
    hs = await ap.Harness.create(side, case['seed'], spec, eatt='config' if case['bearer'] == 'eatt' else 'off',
                                 raw_central=rng.random() < 0.5, max_delay=rng.choice([0, 0, 1, 2]),
                                 le_acl_len=[rng.choice([27, 251]), rng.choice([27, 251])], db_route=route)
    construction_clause(hs, r, route)
    hs.set_link(enc, auth)
    bearer = hs.fixed
    if case['bearer'] == 'eatt':
        bearer = await hs.open_eatt(my_mtu=rng.choice([64, 185, 517]), my_mps=rng.choice([64, 251]), credits=200)
        if bearer is None:
            raise RuntimeError('could not open an enhanced ATT bearer')
    else:
        # (ATT_MTU 23 keeps the 30- and 60-byte values "long", so that Read Blob continuations exist)
        await hs.exchange(hs.fixed, ra.exchange_mtu(rng.choice([23, 23, 64, 185, 517])), 'mtu')
    ss = Session(hs, bearer, r, enc, auth, rng)
    by_index = {m.index: m for m in hs.models if m.index > 0}
    for m in hs.models:
        if m.role == 'value':
            r.ev('value_attributes_exercised')
    seen_perms = sorted({m.perm for m in hs.models if m.role == 'value'})
    # 1. single-handle operations on every attribute, reads first (before any write changes a value)
    order = list(hs.models)
    rng.shuffle(order)
    for m in order:
        await ss.single_reads(m, offsets=1)
    # 1b. the link loses its security in the middle of a long read: the continuation of a read that
    #     started while the link qualified must be judged against the link as it is NOW
    if not (enc and auth):
        for m in order:
            if ss.readable(m) or not ra.allowed_read(m.perm, True, True):
                continue
            hs.set_link(True, True)
            ss.enc, ss.auth = True, True
            first = await ss.ask(ra.read_blob(m.handle, 0), 'read-blob', [m])
            hs.set_link(enc, auth)
            ss.enc, ss.auth = enc, auth
            if not first or first[0][0] != ra.READ_BLOB_RSP:
                continue
            r.ev('downgrade_mid_long_read_probes')
            replies = await ss.ask(ra.read_blob(m.handle, 1), 'read-blob', [m])
            ss.count_refused()
            r.ev('oracle_evals')
            if replies and replies[0][0] == ra.READ_BLOB_RSP:
                r.bad('perm/read-blob/granted/after-security-downgrade',
                      f'Read Blob offset 1 of {m} answered by {replies[0][:16].hex()} on a link with enc={enc} auth={auth}: '
                      f'the read was started (offset 0) while the link was encrypted and authenticated')
    # 2. ranges and handle lists over every open/protected order
    for g in groups:
        members = [by_index[i] for i in g['indices']]
        t = bytes.fromhex(g['uuid'])
        await ss.ranged(members, t, g['pattern'])
        await ss.multi(members, g['pattern'])
        # the same handles in the reverse and in a shuffled order, and mixed with attributes of service A
        rev = list(reversed(members))
        await ss.multi(rev, g['pattern'][::-1] + '/reversed')
        extra = members + [rng.choice(order)]
        rng.shuffle(extra)
        await ss.multi(extra, 'shuffled-with-random-attribute')
        await ss.find_by_value(members, t, g['pattern'])
    # Read By Type over a whole-database range for types that occur with mixed permissions
    for t_hex in ('0129', '0328', '0229'):
        t = bytes.fromhex(t_hex)
        members = [m for m in hs.models if m.type == t]
        if len(members) >= 2:
            for k in range(0, len(members) - 1, max(1, len(members) // 6)):
                await ss.ranged(members[k:k + 3], t, 'descriptors-or-declarations')
    for dg in decl_groups:
        members = [m for m in hs.models if m.role == 'service' and m.index - 100000 == m.handle
                   and m.value in [ra.marker_value(si, 16) for si in dg['service_indices']]]
        if len(members) == len(dg['service_indices']):
            await ss.ranged(members, bytes.fromhex('0028'), 'services ' + dg['pattern'], group_type=True)
            await ss.find_by_value(members, bytes.fromhex('0028'), 'services ' + dg['pattern'])
    # 3. writes (request and command) to every attribute
    for m in order:
        await ss.single_writes(m, forms=2)
    # 4. after the writes, read everything again: content written to a non-readable attribute
    #    must not come back either
    for m in order[:40]:
        await ss.single_reads(m)
    await hs.finish()
    for b in hs.bearers:
        ss.scan(b)
    nontrivial = r.events.get('refused_accesses_judged', 0) > 0 and r.events.get('granted_accesses_seen', 0) > 0
    if nontrivial:
        r.sig(case['chunk'], link_name, case['bearer'], case['seed'])
        r.ev(f'nontrivial_sessions_on_a_database_built_from_{route}')
    r.sched.add(hs.rg.schedule_signature)
    r.evals(ss.trail)
    r.ev('pairing_automaton_violations_left_to_C10', len(side.violations))
    r.extra['permission_bytes_on_value_attributes'] = seen_perms
    r.extra['permission_bytes_on_descriptors'] = sorted({m.perm for m in hs.models if m.role == 'descriptor'})
    r.sample = {'chunk': f'{case["chunk"] * 32:#04x}..{case["chunk"] * 32 + 31:#04x}', 'link': link_name,
                'database_built_from': route, 'bearer': case['bearer'], 'attributes': len(hs.models), 'requests': ss.trail,
                'not_readable_here': len(ss.refused_read), 'order_patterns': [g['pattern'] for g in groups],
                'declaration_patterns': [d['pattern'] for d in decl_groups]}


# -----------------------------------------------------------------------------
# Event-driven histories: the link's security is what the EVENTS the stack received make it
# -----------------------------------------------------------------------------
# steps (JSON-able):
#   ['enc', form 'v1'|'v2', enabled, key size (v2 only), status]   HCI Encryption Change
#   ['refresh', status]                                            HCI Encryption Key Refresh Complete
#   ['auth', status]                                               HCI Authentication Complete
#   ['paired', authenticated key?, secure connections?]           SMP pairing completed (Device.on_pairing)
#   ['pairing-failed']                                             SMP pairing failed (Device.on_pairing_failure)
#   ['reconnect', who disconnects 'raw'|'server']                  link dropped, new connection
ON1, ON2, ON2S = ['enc', 'v1', 1, None, 0], ['enc', 'v2', 1, 16, 0], ['enc', 'v2', 1, 7, 0]
OFF1, OFF2, OFF2K = ['enc', 'v1', 0, None, 0], ['enc', 'v2', 0, 0, 0], ['enc', 'v2', 0, 16, 0]
FAIL1, FAIL2 = ['enc', 'v1', 1, None, ra.ST_PIN_OR_KEY_MISSING], ['enc', 'v2', 1, 16, ra.ST_LMP_RESPONSE_TIMEOUT]
FAILOFF1 = ['enc', 'v1', 0, None, ra.ST_LMP_RESPONSE_TIMEOUT]
REFRESH, REFRESH_FAILED = ['refresh', 0], ['refresh', ra.ST_LMP_RESPONSE_TIMEOUT]
AUTH, AUTH_FAILED = ['auth', 0], ['auth', ra.ST_AUTHENTICATION_FAILURE]
PAIRED, PAIRED_LEGACY, PAIRING_FAILED = ['paired', True, True], ['paired', True, False], ['pairing-failed']
PAIRED_JW, PAIRED_JW_LEGACY = ['paired', False, True], ['paired', False, False]
RECONNECT_RAW, RECONNECT_SERVER = ['reconnect', 'raw'], ['reconnect', 'server']

HISTORIES = [
    # encryption up and down in every form, each form undone by each form
    ('encryption-up-down', [ON1, OFF1, ON2, OFF2, ON2S, OFF2K, ON1, OFF2, ON2, OFF1, OFF1]),
    # authenticated first, then encrypted; security lost by encryption off and by reconnection
    ('authentication-then-down', [PAIRED, ON1, REFRESH, OFF1, ON2, RECONNECT_RAW, ON2, AUTH, OFF2, ON1]),
    # events that report a FAILURE change nothing, on a plain and on an encrypted link
    ('failures-change-nothing', [FAIL1, AUTH_FAILED, FAIL2, PAIRING_FAILED, ON1, AUTH_FAILED, PAIRING_FAILED,
                                 FAILOFF1, REFRESH_FAILED, OFF1, FAIL2]),
    # a new connection starts plain whatever the old one was
    ('reconnections', [ON2, AUTH, RECONNECT_RAW, ON1, PAIRED_LEGACY, RECONNECT_SERVER, AUTH, RECONNECT_RAW, ON1, OFF2]),
    # a pairing that gave no MITM protection (Just Works) leaves an encrypted, NOT authenticated link
    ('just-works-is-not-authentication', [ON2, PAIRED_JW, REFRESH, OFF2, RECONNECT_SERVER, ON1, PAIRED_JW_LEGACY, PAIRED,
                                          OFF1, ON2, PAIRED_JW]),
]
ALPHABET = [ON1, ON2, ON2S, OFF1, OFF2, OFF2K, FAIL1, FAIL2, FAILOFF1, REFRESH, REFRESH_FAILED, AUTH, AUTH_FAILED,
            PAIRED, PAIRED_LEGACY, PAIRING_FAILED, RECONNECT_RAW, RECONNECT_SERVER, PAIRED_JW, PAIRED_JW_LEGACY]
WEIGHTS = [4, 4, 2, 4, 4, 2, 1, 1, 1, 1, 1, 3, 1, 2, 1, 1, 1, 1, 2, 1]


def random_history(rng, n):
    steps = []
    encrypted = False
    while len(steps) < n:
        st = rng.choices(ALPHABET, WEIGHTS)[0]
        if st[0] == 'refresh' and not encrypted:
            continue                    # a key can only be refreshed on an encrypted link
        if st[0] == 'enc' and st[4] == 0:
            encrypted = bool(st[2])
        if st[0] == 'reconnect':
            if sum(1 for x in steps if x[0] == 'reconnect') >= 2:
                continue
            encrypted = False
        steps.append(st)
    return steps


def step_class(st):
    if st[0] == 'enc':
        return 'encryption-change-failed' if st[4] else ('encryption-on' if st[2] else 'encryption-off')
    if st[0] == 'refresh':
        return 'key-refresh-failed' if st[1] else 'key-refresh'
    if st[0] == 'auth':
        return 'authentication-failed' if st[1] else 'authentication-complete'
    if st[0] == 'paired':
        return 'pairing-complete' if st[1] else 'pairing-complete-unauthenticated-key'
    return {'pairing-failed': 'pairing-failed', 'reconnect': 'reconnection'}[st[0]]


# permission bytes of the histories: READABLE and WRITEABLE always set (the access bits are the business of the
# direct-state cases), every combination of the encryption / authentication requirement on either side, and
# authorization on either side
H_PERMS = [0x03, 0x07, 0x0B, 0x0F, 0x13, 0x23, 0x33, 0x17, 0x2B, 0x1B, 0x27, 0x3F, 0x1F, 0x2F, 0x37, 0x3B, 0x43, 0x83]
H_SYMBOLS = {'O': 0x03, 'E': 0x0F, 'A': 0x33, 'B': 0x3F, 'Z': 0x43}
H_PATTERNS = ['OE', 'EO', 'OA', 'AO', 'EAO', 'OBE', 'AE', 'OZE', 'BOA']
H_DECL_PATTERNS = [('O', 'E'), ('E', 'O'), ('O', 'A', 'E'), ('A', 'O')]
H_DECL_PERMS = {'O': 0x01, 'E': 0x05, 'A': 0x11}


def build_history_spec(rng):
    idx = itertools.count(1)
    chars = []
    for k, p in enumerate(H_PERMS):
        i = next(idx)
        c = {'uuid': struct.pack('<H', 0xA100 + k).hex() if k % 3 else ra.marker_value(3000 + i, 16).hex(),
             'props': 0x1A if k % 6 == 0 else 0x0A, 'perm': p, 'len': rng.choice([8, 30, 60]), 'index': i,
             'kind': rng.choice(['static', 'static', 'static', 'dyn', 'dyn-v2', 'dyn-async']), 'descs': []}
        c['descs'].append({'uuid': rng.choice(['0129', struct.pack('<H', 0xA900 + k).hex()]),
                           'perm': H_PERMS[(k * 7 + 5) % len(H_PERMS)], 'len': 8, 'index': next(idx),
                           'kind': rng.choice(['static', 'static', 'dyn'])})
        chars.append(c)
    services = [{'uuid': ra.marker_value(2000, 16).hex(), 'primary': True, 'chars': chars, 'includes': []}]
    groups = []
    for gi, pat in enumerate(H_PATTERNS):
        uuid = struct.pack('<H', 0xC000 + gi).hex()
        ln = rng.choice([6, 8, 12])
        gchars = [{'uuid': uuid, 'props': 0x0A, 'perm': H_SYMBOLS[sym], 'len': ln, 'index': next(idx),
                   'kind': rng.choice(['static', 'static', 'dyn']), 'descs': []} for sym in pat]
        groups.append({'pattern': pat, 'uuid': uuid, 'indices': [c['index'] for c in gchars]})
        services.append({'uuid': ra.marker_value(2100 + gi, 16).hex(), 'primary': True, 'chars': gchars, 'includes': []})
    decl_groups = []
    for pat in H_DECL_PATTERNS:
        members = []
        for sym in pat:
            si = next(idx)
            p = H_DECL_PERMS[sym]
            services.append({'uuid': ra.marker_value(si, 16).hex(), 'primary': True, 'perm': p, 'index': si,
                             'chars': [{'uuid': struct.pack('<H', 0xD000 + si).hex(), 'props': 0x02, 'perm': 0x01,
                                        'len': 8, 'index': next(idx), 'kind': 'static', 'descs': [],
                                        'decl_perm': rng.choice([None, p])}],
                             'includes': []})
            members.append(si)
        decl_groups.append({'pattern': ''.join(pat), 'service_indices': members})
    return services, groups, decl_groups


async def history_case(case, r: R):
    from vlib import att_peer as ap

    rng = random.Random(case['seed'])
    steps = case['steps']
    spec, groups, decl_groups = build_history_spec(rng)
    side = R(case)
    eatt = case['bearer'] == 'eatt'
    raw_central = rng.random() < 0.5
    hs = await ap.Harness.create(side, case['seed'], spec, eatt='config' if eatt else 'off', raw_central=raw_central,
                                 max_delay=rng.choice([0, 0, 1, 2]),
                                 le_acl_len=[rng.choice([27, 251]), rng.choice([27, 251])])
    eatt_cid = itertools.count(0x0055)

    async def bearer_now():
        if not eatt:
            await hs.exchange(hs.fixed, ra.exchange_mtu(rng.choice([23, 23, 64, 185])), 'mtu')
            return hs.fixed
        b = await hs.open_eatt(my_cid=next(eatt_cid), my_mtu=rng.choice([64, 185, 517]), my_mps=rng.choice([64, 251]),
                               credits=200)
        if b is None:
            raise RuntimeError('could not open an enhanced ATT bearer')
        return b

    link = ra.LinkSecurity()
    ss = Session(hs, await bearer_now(), r, link.enc, link.auth, rng)
    ss.relink(link, 'connection')
    by_index = {m.index: m for m in hs.models if m.index > 0}
    # The access bits are judged by the direct-state cases (and bumble's leniency about them is a recorded
    # finding): a history exercises the attributes whose access bit is set, so that every refusal it judges is
    # decided by a security requirement, and writes to attributes without any write permission
    readers = [m for m in hs.models if m.perm & ra.P_READABLE]
    writers = [m for m in hs.models if m.perm & ra.P_WRITEABLE or not m.perm & WRITE_FAMILY]
    decl_members = []
    for dg in decl_groups:
        members = [m for m in hs.models if m.role == 'service' and m.index - 100000 == m.handle
                   and m.value in [ra.marker_value(si, 16) for si in dg['service_indices']]]
        if len(members) == len(dg['service_indices']):
            decl_members.append((dg['pattern'], members))
    handles_seen = [hs.server_conn.handle]
    visited = set()

    async def battery(light):
        """every reading / writing operation against the link as it is NOW"""
        before = (r.events.get('refused_accesses_judged', 0), r.events.get('granted_accesses_seen', 0))
        order = list(readers)
        rng.shuffle(order)
        for m in order:
            await ss.single_reads(m, offsets=0 if light else 1)
        for g in groups:
            members = [by_index[i] for i in g['indices']]
            t = bytes.fromhex(g['uuid'])
            await ss.ranged(members, t, g['pattern'])
            await ss.multi(members, g['pattern'])
            if not light:
                await ss.multi(list(reversed(members)), g['pattern'][::-1] + '/reversed')
            await ss.find_by_value(members, t, g['pattern'])
        for pattern, members in decl_members:
            await ss.ranged(members, bytes.fromhex('0028'), 'services ' + pattern, group_type=True)
            if not light:
                await ss.find_by_value(members, bytes.fromhex('0028'), 'services ' + pattern)
        worder = list(writers)
        rng.shuffle(worder)
        for m in worder:
            await ss.single_writes(m, forms=0 if light else 1)
        # content written while the link qualified must not come back once it does not
        for m in order[:24]:
            await ss.single_reads(m)
        r.ev('history_steps_judged')
        r.ev(f'history_steps_judged_after_{ss.after}')
        if r.events.get('refused_accesses_judged', 0) > before[0] and r.events.get('granted_accesses_seen', 0) > before[1]:
            r.ev('history_steps_with_refused_and_granted_accesses')

    await battery(False)
    for st in steps:
        cls = step_class(st)
        was = (link.enc, link.auth)
        handle = hs.server_conn.handle
        new_bearer = None
        if st[0] == 'enc':
            _k, form, enabled, key_size, status = st
            pkt = ra.hci_encryption_change(handle, enabled, status) if form == 'v1' else \
                ra.hci_encryption_change_v2(handle, enabled, key_size, status)
            await hs.controller_event(pkt)
            link.encryption_change(status, enabled, key_size)
            r.ev(f'encryption_change_events_{form}')
        elif st[0] == 'refresh':
            await hs.controller_event(ra.hci_encryption_key_refresh_complete(handle, st[1]))
            link.key_refresh(st[1])
        elif st[0] == 'auth':
            await hs.controller_event(ra.hci_authentication_complete(handle, st[1]))
            link.authentication_complete(st[1])
        elif st[0] == 'paired':
            await hs.pairing_completed(st[1], st[2])
            link.pairing_complete(st[1])
        elif st[0] == 'pairing-failed':
            await hs.pairing_failed()
            link.pairing_failed()
        elif st[0] == 'reconnect':
            await hs.reconnect(raw_central, st[1])
            link.new_connection()
            new_bearer = await bearer_now()
            handles_seen.append(hs.server_conn.handle)
            if hs.server_conn.handle == handle:
                r.ev('reconnections_on_the_same_handle')
        r.ev('link_security_events')
        r.ev(f'events_{cls}')
        now = (link.enc, link.auth)
        if now < was:
            r.ev('security_went_down')
        elif now > was:
            r.ev('security_went_up')
        ss.relink(link, cls, new_bearer)
        # the full battery the first time a (state, event class) pair is met, a lighter one afterwards
        k = (now, cls)
        await battery(k in visited)
        visited.add(k)
    await hs.finish()
    for b in hs.bearers:
        ss.scan(b)
    if r.events.get('refused_accesses_judged', 0) > 0 and r.events.get('granted_accesses_seen', 0) > 0:
        r.sig('history', case['name'], case['bearer'], case['seed'])
    r.sched.add(hs.rg.schedule_signature)
    r.evals(ss.trail)
    r.ev('pairing_automaton_violations_left_to_C10', len(side.violations))
    r.sample = {'history': case['name'], 'steps': [step_class(s) for s in steps], 'events_as_modelled': link.trail,
                'bearer': case['bearer'], 'attributes': len(hs.models), 'requests': ss.trail,
                'connection_handles': [hex(x) for x in handles_seen]}



# -----------------------------------------------------------------------------
# Real pairings: the link gets its security from a REAL SMP exchange between two bumble devices
# -----------------------------------------------------------------------------
# One device carries a GATT server whose attributes require encryption / authentication, the other pairs with it
# through bumble's Security Manager (nothing injected: Manager.on_pairing -> Device.on_pairing is what bumble itself
# runs) and then reaches for the attributes through bumble's own GATT client. What the link IS comes from the
# specification alone: the association model Table 2.8 (vlib/ref_smp.py) gives for the two IO capabilities / AuthReq
# flags (cross-checked against the prompts the two users actually saw) says whether the pairing gave MITM protection;
# whether the link is encrypted comes from the HCI Encryption Change events the server's host received.
RP_PERMS = [0x03, 0x07, 0x0B, 0x0F, 0x13, 0x23, 0x33, 0x3F, 0x17, 0x2B, 0x1B, 0x27]
RP_PATTERNS = ['OAE', 'AO', 'EO', 'OBA', 'OE']
RP_STAGES = ('before-pairing', 'after-pairing', 'after-reconnection', 'after-reencryption', 'after-reencryption-refused')
RP_MODELS = {
    # name: (SMP initiator IO, SMP responder IO, MITM requested by (initiator, responder))
    'jw-initiator-no-io': ('NO_INPUT_NO_OUTPUT', 'KEYBOARD_DISPLAY', (True, True)),
    'jw-responder-no-io': ('KEYBOARD_DISPLAY', 'NO_INPUT_NO_OUTPUT', (True, True)),
    'jw-nobody-asks-mitm': ('KEYBOARD_DISPLAY', 'DISPLAY_YES_NO', (False, False)),
    'passkey-responder-displays': ('KEYBOARD_ONLY', 'DISPLAY_ONLY', (True, True)),
    'passkey-initiator-displays': ('DISPLAY_ONLY', 'KEYBOARD_ONLY', (True, False)),
    'passkey-both-type': ('KEYBOARD_ONLY', 'KEYBOARD_ONLY', (False, True)),
    'compare-or-jw': ('DISPLAY_YES_NO', 'DISPLAY_YES_NO', (True, True)),      # numeric comparison with SC, Just Works legacy
    'compare-or-passkey': ('KEYBOARD_DISPLAY', 'KEYBOARD_DISPLAY', (True, True)),
}
REALPAIR_MIN = {
    'real_pairings_completed': 60, 'real_pairings_just_works': 25, 'real_pairings_with_mitm_protection': 25,
    'real_pairings_without_bonding': 25, 'real_pairings_just_works_without_bonding': 10,
    'real_pairings_legacy': 25, 'real_pairings_secure_connections': 25,
    'real_pairings_server_is_smp_initiator': 15, 'real_pairings_server_is_smp_responder': 20,
    'real_pairings_server_is_link_central': 20, 'real_pairings_server_is_link_peripheral': 20,
    'real_pairing_stages_judged': 150, 'real_pairing_refused_accesses_judged': 3000,
    'real_pairing_refused_authentication_requirement_after_just_works': 600,
    'real_pairing_granted_authentication_requirement_after_mitm_pairing': 300,
    'real_pairing_granted_encryption_requirement_after_pairing': 600,
    'real_pairing_ranged_reads': 600, 'real_pairing_wire_pdus_scanned': 6000,
    'real_pairing_value_unchanged_checks': 1500,
    'real_pairing_reconnections': 30, 'real_pairing_reencryptions_with_the_stored_bond': 12,
    'real_pairing_authentication_judgments_skipped_known_finding': 100,
    'real_pairings_with_a_resolving_list_fault': 12, 'real_pairing_resolving_list_commands_refused': 12,
    'real_pairings_just_works_with_a_resolving_list_command_refused': 5,
}
MIN_EVENTS['quick'].update(REALPAIR_MIN)
MIN_EVENTS['thorough'].update({k: v * 6 for k, v in REALPAIR_MIN.items()})


def realpair_plan(tier, seed):
    cases = []
    reps = 1 if tier == 'quick' else 6
    k = 0
    for rep in range(reps):
        for sc in (False, True):
            for mname in RP_MODELS:
                for bonding in ([True, True], [False, True], [True, False], [False, False]):
                    # bonding = [client asks, server asks]; the rest by enumeration over the running index so that every
                    # class meets every other over the plan
                    k += 1
                    cases.append({'kind': 'realpair', 'seed': seed * 1000003 + 700000 + rep * 977 + k, 'sc': sc,
                                  'model': mname, 'bonding': bonding,
                                  'server': (k // 2) % 2,                   # device index; device 0 is the link Central
                                  'smp_initiator': 'client' if (k // 4 + k) % 3 else 'server',
                                  'reconnect': k % 2 == 0, 'delay': (0, 0, 1, 2)[k % 4]})
        # a rarely used configuration + a fault: the server offloads address resolution to its controller, and the
        # controller refuses a command of the resolving-list refresh that storing the new bond triggers
        for sc in (False, True):
            for mi, mname in enumerate(RP_MODELS):
                k += 1
                cases.append({'kind': 'realpair', 'seed': seed * 1000003 + 700000 + rep * 977 + k, 'sc': sc,
                              'model': mname, 'bonding': [True, True], 'server': (k // 2) % 2,
                              'smp_initiator': 'client' if k % 3 else 'server', 'reconnect': False, 'delay': (0, 1)[k % 2],
                              'fault': ('add-to-resolving-list-refused', 'clear-resolving-list-refused')[(mi + sc) % 2]})
    return cases


async def realpair_case(case, r: R):
    import asyncio
    from bumble import att, gatt
    from bumble.core import UUID, ProtocolError
    from bumble.keys import MemoryKeyStore
    from bumble.pairing import PairingConfig, PairingDelegate
    from vlib import ref_smp as rs, rig as vrig, vloop

    rng = random.Random(case['seed'])
    vrig.seed_entropy(case['seed'])
    rg = vrig.Rig(2, seed=case['seed'], max_delay=case['delay'], le_acl_len=rng.choice([27, 251]))
    S = case['server']
    K = 1 - S
    # SMP roles: C sends the Pairing Request
    C = K if case['smp_initiator'] == 'client' else S
    P = 1 - C
    io_i, io_r, mitm = RP_MODELS[case['model']]
    io = {C: getattr(rs, io_i), P: getattr(rs, io_r)}
    mitm = {C: mitm[0], P: mitm[1]}
    bonding = {K: case['bonding'][0], S: case['bonding'][1]}
    sc = case['sc']

    # ---- the two users -------------------------------------------------------------
    seen = {'shown': None, 'typed': 0, 'compared': 0}
    agreed = rng.randrange(1000000)

    def delegate(i):
        class User(PairingDelegate):
            async def accept(self):
                return True

            async def confirm(self, auto=False):
                return True

            async def compare_numbers(self, number, digits):
                seen['compared'] += 1
                return True

            async def display_number(self, number, digits):
                seen['shown'] = number

            async def get_number(self):
                for _ in range(200):
                    if seen['shown'] is not None:
                        break
                    await asyncio.sleep(0)
                seen['typed'] += 1
                return seen['shown'] if seen['shown'] is not None else agreed
        return User(PairingDelegate.IoCapability(io[i]))

    for i, d in enumerate(rg.devices):
        d.keystore = MemoryKeyStore()
        cfg = PairingConfig(sc=sc, mitm=mitm[i], bonding=bonding[i], delegate=delegate(i),
                            identity_address_type=PairingConfig.AddressType.RANDOM)
        d.pairing_config_factory = lambda connection, _c=cfg: _c

    # ---- the database ----------------------------------------------------------------
    class M:       # the harness's own record of an attribute
        def __init__(self, index, perm, obj, group=None):
            self.index, self.perm, self.obj, self.group = index, perm, obj, group
            self.value = bytes(obj.value)

        @property
        def handle(self):
            return self.obj.handle

        def __repr__(self):
            return f'value attribute {self.handle:#x} (permissions {self.perm:#04x})'

    table = ra.MarkerTable()
    models, groups = [], []
    idx = itertools.count(1)

    def make(uuid, perm, ln, group=None):
        i = next(idx)
        ch = gatt.Characteristic(uuid, gatt.Characteristic.Properties.READ | gatt.Characteristic.Properties.WRITE
                                 | gatt.Characteristic.Properties.WRITE_WITHOUT_RESPONSE,
                                 att.Attribute.Permissions(perm), ra.marker_value(i, ln))
        m = M(i, perm, ch, group)
        table.add(i, False)
        models.append(m)
        return ch

    chars = [make(UUID.from_16_bits(0xA100 + k), p, rng.choice([8, 12, 18])) for k, p in enumerate(RP_PERMS)]
    services = [gatt.Service(UUID.from_16_bits(0xA000), chars)]
    for gi, pat in enumerate(RP_PATTERNS):
        ln = rng.choice([6, 8, 12])
        members = [make(UUID.from_16_bits(0xC000 + gi), H_SYMBOLS[sym], ln, gi) for sym in pat]
        services.append(gatt.Service(UUID.from_16_bits(0xA010 + gi), members))
        groups.append((pat, UUID.from_16_bits(0xC000 + gi), [m for m in models if m.group == gi]))
    rg.devices[S].add_services(services)
    fault = case.get('fault')
    armed = {'on': False, 'hits': 0}
    if fault:
        rg.devices[S].address_resolution_offload = True
        # Command Complete (Vol 4 Part E 7.7.14: 04 0E len Num_HCI_Command_Packets Opcode Status ...) for LE Add Device To
        # Resolving List (OGF 8 OCF 0x27) / LE Clear Resolving List (OCF 0x29): status := Memory Capacity Exceeded
        opcode = 0x2027 if fault == 'add-to-resolving-list-refused' else 0x2029

        def refuse(pkt: bytes):
            if armed['on'] and len(pkt) >= 7 and pkt[0] == 0x04 and pkt[1] == 0x0E and \
                    int.from_bytes(pkt[4:6], 'little') == opcode and pkt[6] == 0:
                armed['hits'] += 1
                return pkt[:6] + b'\x07' + pkt[7:]
            return pkt
        rg.c2h[S].filters.append(refuse)
    await rg.power_on()

    st = {'enc': False, 'auth': False, 'stage': 'before-pairing', 'cls': 'unpaired', 'skip_authn': False}
    serial = itertools.count(7000)
    conns = {}
    marks = {'log': 0}

    def readable(m):
        return ra.allowed_read(m.perm, st['enc'], st['auth'])

    def writable(m):
        return ra.allowed_write(m.perm, st['enc'], st['auth'])

    def skipped(m, write=False):
        """the known finding (.../authentication-requirement/after-encryption-on): after encrypt() with a stored
        Just Works bond bumble marks the link authenticated; those judgments are left to the event-driven histories"""
        return st['skip_authn'] and ra.unmet_requirement(m.perm, st['enc'], st['auth'], write) == 'authentication'

    def reason(m, write=False):
        unmet = ra.unmet_requirement(m.perm, st['enc'], st['auth'], write)
        return f'{unmet}-requirement/real-pairing/{st["cls"]}/{st["stage"]}'

    def state_text():
        sconn = conns[S]
        return (f'enc={st["enc"]} auth={st["auth"]} ({st["cls"]}, {st["stage"]}); the server\'s Connection says '
                f'(encryption, authenticated)=({sconn.encryption}, {sconn.authenticated}); {desc}')

    def refused():
        r.ev('refused_accesses_judged')
        r.ev('real_pairing_refused_accesses_judged')
        r.ev('oracle_evals')
        if st['stage'] == 'after-pairing' and not st['auth']:
            r.ev('real_pairing_refused_authentication_requirement_after_just_works')

    def granted(m, write=False):
        r.ev('granted_accesses_seen')
        bit_e, bit_a = (ra.P_WRITE_ENC, ra.P_WRITE_AUTHN) if write else (ra.P_READ_ENC, ra.P_READ_AUTHN)
        if st['stage'] == 'after-pairing':
            if m.perm & bit_a:
                r.ev('real_pairing_granted_authentication_requirement_after_mitm_pairing')
            elif m.perm & bit_e:
                r.ev('real_pairing_granted_encryption_requirement_after_pairing')

    async def client_call(aw):
        """an operation of bumble's GATT client: ('ok', value) / ('att-error', code) / ('raised', text)"""
        try:
            return 'ok', await vloop.vwait(aw, 60)
        except att.ATT_Error as e:
            return 'att-error', int(e.error_code)
        except vloop.Hang:
            raise
        except Exception as e:         # the code under test
            return 'raised', f'{type(e).__name__}: {e}'

    def judge_error(opn, m, res, codes, write=False):
        if res[0] == 'att-error' and res[1] in codes:
            r.ev('refusals_with_matching_error')
            return True
        if res[0] == 'att-error' and res[1] in (ra.E_ATTRIBUTE_NOT_LONG, ra.E_INVALID_OFFSET):
            r.bad(f'perm/{opn}/granted/{reason(m, write)}',
                  f'{opn} of {m} through the GATT client answered by error {res[1]:#x}, which is decided from the value '
                  f'(its length) instead of the permission; {state_text()}')
        elif res[0] == 'att-error':
            r.bad(f'perm/{opn}/wrong-reply/{reason(m, write)}',
                  f'{opn} of {m} through the GATT client was refused with error {res[1]:#x}; acceptable codes '
                  f'{sorted(codes)}; {state_text()}')
        elif res[0] == 'raised':
            r.bad(f'perm/{opn}/unanswered/{reason(m, write)}', f'{opn} of {m} through the GATT client: {res[1]}; {state_text()}')
        return False

    async def battery():
        client = conns[K].gatt_client
        order = list(models)
        rng.shuffle(order)
        # reads: Read Request (+ Read Blob continuation inside the client), Read Blob
        for m in order:
            for opn, aw in (('read', lambda: client.read_value(m.handle)),
                            ('read-blob', lambda: client.send_request(att.ATT_Read_Blob_Request(
                                attribute_handle=m.handle, value_offset=rng.choice([0, 1]))))):
                res = await client_call(aw())
                if opn == 'read-blob' and res[0] == 'ok':
                    rsp = res[1]
                    res = ('att-error', int(rsp.error_code)) if rsp.op_code == att.Opcode.ATT_ERROR_RESPONSE else \
                        ('ok', bytes(rsp.part_attribute_value))
                if readable(m):
                    if res[0] == 'ok':
                        granted(m)
                    continue
                if skipped(m):
                    r.ev('real_pairing_authentication_judgments_skipped_known_finding')
                    continue
                refused()
                if res[0] == 'ok':
                    r.bad(f'perm/{opn}/granted/{reason(m)}',
                          f'{opn} of {m} through the GATT client returned {bytes(res[1])[:20].hex()} (the attribute holds '
                          f'{m.obj.value[:20].hex()}); not readable with {state_text()}')
                else:
                    judge_error(opn, m, res, ra.read_refusal_codes(m.perm, st['enc'], st['auth']))
        # ranged reads (Read Using Characteristic UUID) and Read Multiple over groups that mix requirements
        for pat, uuid, members in groups:
            r.ev('mixed_order_requests')
            r.ev('real_pairing_ranged_reads')
            res = await client_call(client.read_characteristics_by_uuid(uuid, None))
            prot = [m for m in members if not readable(m) and not skipped(m)]
            if prot:
                refused()
                values = [bytes(v) for v in res[1]] if res[0] == 'ok' else []
                leaked = [m for m in prot if any(table.find(v) & {m.index} for v in values)]
                if leaked:
                    r.bad(f'perm/read-by-type/granted/{reason(leaked[0])}',
                          f'read_characteristics_by_uuid({uuid}) over pattern {pat} returned {[v.hex() for v in values]}, '
                          f'which holds the value of {leaked}; {state_text()}')
            handles = [m.handle for m in members]
            if rng.random() < 0.5:
                handles.reverse()
            r.ev('mixed_order_requests')
            r.ev('real_pairing_ranged_reads')
            res = await client_call(client.send_request(att.ATT_Read_Multiple_Request(set_of_handles=handles)))
            if prot:
                refused()
                if res[0] == 'ok' and res[1].op_code != att.Opcode.ATT_ERROR_RESPONSE:
                    body = bytes(res[1].set_of_values)
                    first = min(handles.index(m.handle) for m in prot)
                    room = sum(len(x.value) for x in members if handles.index(x.handle) < first)
                    if table.find(body) & {m.index for m in prot} or len(body) > room:
                        r.bad(f'perm/read-multiple/granted/{reason(prot[0])}',
                              f'Read Multiple {[hex(h) for h in handles]} (pattern {pat}) answered {body.hex()} although '
                              f'{prot} are not readable; {state_text()}')
                elif res[0] == 'ok':
                    rsp = res[1]
                    ok = any(rsp.attribute_handle_in_error == m.handle and
                             rsp.error_code in ra.read_refusal_codes(m.perm, st['enc'], st['auth']) for m in prot)
                    if ok:
                        r.ev('refusals_with_matching_error')
                    else:
                        r.bad(f'perm/read-multiple/wrong-reply/{reason(prot[0])}',
                              f'Read Multiple {[hex(h) for h in handles]} answered by error {int(rsp.error_code):#x} for '
                              f'handle {rsp.attribute_handle_in_error:#x}; not readable: {prot}; {state_text()}')
        # writes: Write Request and Write Command
        rng.shuffle(order)
        for m in order:
            for opn, with_response in (('write', True), ('write-command', False)):
                n = next(serial)
                new = ra.marker_value(n, rng.choice([4, 8, 16]), written=True)
                before = bytes(m.obj.value)
                res = await client_call(client.write_value(m.handle, new, with_response=with_response))
                await rg.quiesce()
                after = bytes(m.obj.value)
                if writable(m):
                    if after == new:
                        granted(m, write=True)
                        table.add(n, True, key=m.index)
                        m.value = after
                    continue
                if skipped(m, write=True):
                    r.ev('real_pairing_authentication_judgments_skipped_known_finding')
                    if after != before:
                        table.add(n, True, key=m.index)
                        m.value = after
                    continue
                refused()
                r.ev('value_unchanged_checks')
                r.ev('real_pairing_value_unchanged_checks')
                if after != before:
                    r.bad(f'perm/{opn}/changed/{reason(m, True)}',
                          f'{opn} to {m} through the GATT client changed the server-side value from {before.hex()} to '
                          f'{after.hex()}; not writable with {state_text()}')
                    m.obj.value = before
                elif with_response:
                    if res[0] == 'ok':
                        r.bad(f'perm/{opn}/granted/{reason(m, True)}',
                              f'{opn} to {m} through the GATT client was answered by a Write Response; not writable with '
                              f'{state_text()}')
                    else:
                        judge_error(opn, m, res, ra.write_refusal_codes(m.perm, st['enc'], st['auth']), write=True)
        await rg.quiesce()
        # the wire: no server->client ATT PDU of this stage carries the value of an attribute the link may not read
        pdus = [x for x in vrig.l2cap_log(rg.hci_log[marks['log']:], dev=S, direction=vrig.H2C) if x[4] == 0x0004]
        marks['log'] = len(rg.hci_log)
        hidden = {m.index: m for m in models if not readable(m) and not skipped(m)}
        for _seq, _dev, _dir, _h, _cid, payload in pdus:
            r.ev('disclosure_scans')
            r.ev('real_pairing_wire_pdus_scanned')
            r.ev('oracle_evals')
            for key in table.find(payload):
                if key in hidden:
                    r.bad(f'perm/disclosed/{ra.opname(payload[0])}/{reason(hidden[key])}',
                          f'value of {hidden[key]} appears in {ra.opname(payload[0])} on the wire: {payload[:40].hex()}; not '
                          f'readable with {state_text()}')
        r.ev('real_pairing_stages_judged')
        r.ev(f'real_pairing_stage_{st["stage"]}')

    async def connect():
        cc, pc = await rg.connect_le(0, 1)
        await rg.quiesce()
        conns[0], conns[1] = cc, pc
        marks['hci'] = len(rg.hci_log)

    def encryption_on_at_server():
        """HCI Encryption Change (v1 0x08 / v2 0x59), status success, for the server's connection handle, as delivered
        to the server's host since the connection was made: the last one decides (Vol 4 Part E 7.7.8)"""
        on = False
        for _seq, dev, direction, pkt, _t in rg.hci_log[marks['hci']:]:
            if dev == S and direction == vrig.C2H and pkt[0] == 0x04 and pkt[1] in (0x08, 0x59) and pkt[3] == 0 and \
                    int.from_bytes(pkt[4:6], 'little') & 0x0FFF == conns[S].handle:
                on = pkt[6] != 0
        return on

    def auth_bits(i):
        return (rs.AUTH_BONDING if bonding[i] else 0) | (rs.AUTH_MITM if mitm[i] else 0) | (rs.AUTH_SC if sc else 0)

    exp_sc, (exp_model, _ri, _rr) = rs.expected_model(io[C], io[P], auth_bits(C), auth_bits(P), 0, 0)
    bonded = bonding[0] and bonding[1]
    desc = (f'{"the server offloads address resolution and its controller answers " + fault + "; " if fault else ""}'
            f'GATT server on device {S} (link {"Central" if S == 0 else "Peripheral"}, SMP {"initiator" if S == C else "responder"}), '
            f'{"SC" if sc else "legacy"} pairing {case["model"]} -> Table 2.8: {exp_model}; bonding asked by client/server = '
            f'{bonding[K]}/{bonding[S]}; seed {case["seed"]}')

    await connect()
    await battery()

    # ---- the pairing, run by bumble's Security Manager on both sides ---------------------------------------------
    done = {0: [], 1: []}
    for i in (0, 1):
        conns[i].on('pairing', lambda keys, _i=i: done[_i].append('paired'))
        conns[i].on('pairing_failure', lambda reason, _i=i: done[_i].append('failed'))
    armed['on'] = True
    try:
        await vloop.vwait(conns[C].pair())
        paired = True
    except vloop.Hang:
        raise
    except (ProtocolError, asyncio.CancelledError, Exception) as e:      # pairing outcomes belong to C13
        paired = False
        r.ev('real_pairings_failed_left_to_C13')
        r.add_extra_list('real_pairing_failures', f'{case["model"]}/{"sc" if sc else "legacy"}: {type(e).__name__}: {e}')
    await rg.quiesce()
    for _ in range(30):
        if done[P]:
            break
        await asyncio.sleep(1)
    await rg.quiesce()
    prompts = 'passkey' if (seen['shown'] is not None or seen['typed']) else ('compare' if seen['compared'] else 'none')
    mitm_expected = rs.is_authenticated_model(exp_model)
    if paired and encryption_on_at_server() and mitm_expected == (prompts != 'none'):
        r.ev('real_pairings_completed')
        r.ev('real_pairings_with_mitm_protection' if mitm_expected else 'real_pairings_just_works')
        r.ev('real_pairings_secure_connections' if exp_sc else 'real_pairings_legacy')
        r.ev(f'real_pairings_server_is_smp_{"initiator" if S == C else "responder"}')
        r.ev(f'real_pairings_server_is_link_{"central" if S == 0 else "peripheral"}')
        if not bonded:
            r.ev('real_pairings_without_bonding')
            if not mitm_expected:
                r.ev('real_pairings_just_works_without_bonding')
        if fault:
            r.ev('real_pairings_with_a_resolving_list_fault')
            r.ev('real_pairing_resolving_list_commands_refused', armed['hits'])
            if armed['hits'] and not mitm_expected:
                r.ev('real_pairings_just_works_with_a_resolving_list_command_refused')
        st.update(enc=True, auth=mitm_expected, stage='after-pairing',
                  cls=f'{exp_model}-{"bonded" if bonded else "not-bonded"}' + (f'+{fault}' if fault else ''))
        await battery()
        r.sig('realpair', case['model'], sc, tuple(case['bonding']), S, case['smp_initiator'], case['reconnect'])
    else:
        r.ev('real_pairings_not_judged')
        r.add_extra_list('real_pairings_not_judged', f'{case["model"]}/{"sc" if sc else "legacy"}: paired={paired} '
                         f'prompts={prompts} table={exp_model} encrypted={encryption_on_at_server()}')
        case = dict(case, reconnect=False)
    # ---- a new connection starts plain; encrypt() with the stored bond ----------------------------------------------
    if case['reconnect']:
        who = rng.choice([0, 1])
        gone = asyncio.get_running_loop().create_future()
        conns[1 - who].once('disconnection', lambda *_a: gone.done() or gone.set_result(None))
        await vloop.vwait(conns[who].disconnect())
        await vloop.vwait(gone, 60)
        await rg.quiesce()
        await connect()
        r.ev('real_pairing_reconnections')
        st.update(enc=False, auth=False, stage='after-reconnection')
        await battery()
        res = await client_call(conns[0].encrypt())
        await rg.quiesce()
        if encryption_on_at_server():
            # encrypted with the key of the bond: as authenticated as the pairing that made it. Just Works bond: bumble
            # marks the link authenticated all the same (known finding .../authentication-requirement/after-encryption-on,
            # judged by the event-driven histories): the authentication requirement is not judged here
            r.ev('real_pairing_reencryptions_with_the_stored_bond')
            st.update(enc=True, auth=mitm_expected, stage='after-reencryption', skip_authn=not mitm_expected)
        else:
            r.ev('real_pairing_reencryptions_refused')
            st.update(enc=False, auth=False, stage='after-reencryption-refused')
        await battery()
    for where, e in rg.exceptions:
        r.ev('real_pairing_exceptions_in_stack_left_to_other_checks')
    r.sched.add(rg.schedule_signature)
    r.evals()
    r.sample = {'kind': 'realpair', 'config': desc, 'prompts': prompts, 'stages': st['stage'],
                'attributes': len(models), 'link_security_by_the_spec': {'encrypted': st['enc'], 'authenticated': st['auth']}}


LEVEL_TEXT = ('Independent permission predicate + unique marker values: for 144 (quick) / 1152 (thorough) sessions covering '
              'all 256 permission bytes on value attributes and on descriptors, three link-security states and both bearer '
              'kinds, every attribute of a generated database (values, descriptors, CCCDs, declarations, built-in services) '
              'is attacked through Read, Read Blob, Write Request and Write Command, and every open/protected order of '
              'length 2-3 through Read By Type, Read By Group Type, Read Multiple, Read Multiple Variable and Find By Type '
              'Value; every server->client PDU of the session is scanned for markers of attributes the link may not read, '
              'server-side values are compared before/after refused writes, and refusals must carry an error naming a '
              'requirement the link really fails. Two sessions in three hand the database to bumble by another route '
              '(permission strings, characteristic adapters, TemplateService + Device.add_services, DeviceConfiguration '
              'gatt_services from a dict / JSON file) and are judged by the permissions asked for; attributes refused for '
              'the ordinary value are written again with their current value, the empty value, a prefix, a maximum-length '
              'value and (packed adapter) undecodable values, and read at blob offsets at / beyond the end. '
              'In addition 18 (quick) / 220 (thorough) event-driven histories give '
              'the link its security through the events the stack receives (Encryption Change v1/v2 on/off/failed, Key '
              'Refresh, Authentication Complete, pairing completion with an authenticated or a Just Works key, '
              'reconnection on the same handle) and repeat the whole battery after every event against an independent '
              'model of the state those events imply, security going down included. 80 (quick) / 480 (thorough) real pairings '
              '(Just Works / passkey / numeric comparison x legacy / SC x bonding asked by both / one / neither side, 16 / 96 of them with the server offloading address resolution and its controller refusing a resolving-list command while the bond is stored, GATT '
              'server as link Central or Peripheral and as SMP initiator or responder) run bumble\'s own SMP on both sides '
              'and then bumble\'s own GATT client against attributes requiring encryption / authentication, before and after '
              'the pairing, after a reconnection and after re-encryption with the stored key. Enumeration of paths, flags and '
              'event orders on sampled databases, not proof.')
LEVEL_NOTE = ('Trusted: vlib/ref_att.py (predicate, layouts, marker scan, LinkSecurity model, HCI event bytes), '
              'vlib/att_peer.py. Direct-state cases set link security on the server Connection object; histories inject '
              'the controller events and the pairing outcome, they do not run an SMP exchange or real link-layer '
              'encryption; LE links only (no ATT over BR/EDR). Availability (an allowed access being served) is only counted, '
              'never judged. Pairing/MTU verdicts of the same sessions belong to C10.')
TECHNIQUE = 'runtime monitoring: independent permission predicate + marker-value disclosure scan + before/after value comparison over a hand-driven raw ATT client'
