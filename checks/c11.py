"""C11 — GATT attribute permissions gate every read and write path.

Same rig as C10 (vlib/att_peer.py): device 0 = real bumble GATT server with a generated
database, device 1 = raw ATT peer on CID 4 and on a hand-driven enhanced bearer.

Oracle (vlib/ref_att.py, written from Core Vol 3 Part F 3.2.5 / 3.4.1.1, never from
Attribute.read_value):

    allowed_read  = READABLE  and (enc or not READ_REQ_ENC)  and (auth or not READ_REQ_AUTHN)  and not READ_REQ_AUTHZ
    allowed_write = WRITEABLE and (enc or not WRITE_REQ_ENC) and (auth or not WRITE_REQ_AUTHN) and not WRITE_REQ_AUTHZ

Every attribute value is a unique marker (any 4 consecutive bytes identify the attribute), so

  disclosed   the marker of an attribute that is not readable on this link appears in ANY
              server->client PDU of the session, or Find By Type Value lists its handle
  changed     a not-writable attribute's server-side value differs after the operation (static
              values), or its write callback ran (dynamic values)
  wrong-reply a refused access is answered by something other than an Error Response naming the
              request, the attribute, and a code that names a requirement the link really fails
  unanswered  a refused access on an operation that has a response gets no reply at all

Operations: Read, Read Blob, Read By Type, Read By Group Type, Read Multiple, Read Multiple
Variable, Find By Type Value, Write Request, Write Command — on single handles (every attribute
of the database: values, descriptors, CCCDs, service / include / characteristic declarations,
the built-in GAP and GATT services) and on ranges / handle lists that mix open and protected
attributes in every order.
"""
from __future__ import annotations

import itertools
import random
import struct

from vlib import ref_att as ra
from vlib.result import R

ID = 'C11'
LEVEL = 'exploration'
RULE = ('cases enumerate permission-byte chunk (8 x 32 = all 256 bytes on value attributes; descriptors take a '
        'permutation of all 256) x link state {plain, encrypted, encrypted+authenticated} x bearer {fixed, enhanced}; '
        'inside a case every attribute is exercised by the single-handle operations and every open/protected order '
        'pattern of length 2-3 by the range and handle-list operations. A case is non-trivial when it judged at least '
        'one refused and one granted access; distinct = (chunk, link state, bearer, database seed)')
ASSUMPTIONS = [
    'link security is what the server\'s Connection object says (encryption / authenticated set by the harness)',
    'authorization cannot be granted by this stack, so an attribute that requires it is never accessible',
    'a refusal may carry any error code that names a requirement the link actually fails (several may fail at once); '
    'on an unencrypted link Insufficient Authentication and Insufficient Encryption are interchangeable (GAP 10.3.1)',
    'in ranged reads a protected attribute that is not the first match may either end the list or be reported by '
    'its error; a protected first match must be reported by its error',
    'Find By Type Value must not report a protected attribute; Attribute Not Found or the attribute\'s own '
    'permission error are both accepted',
    'service and characteristic declarations are exercised as gatt.py builds them (read-only) and with permissions '
    'changed by the application after construction',
]
MIN_EVENTS = {  # (downgrade_mid_long_read_probes is checked in quick only through the entry below)

    'quick': {'downgrade_mid_long_read_probes': 10, 'refused_accesses_judged': 18000, 'granted_accesses_seen': 5000, 'disclosure_scans': 20000,
              'value_unchanged_checks': 10000, 'mixed_order_requests': 3500, 'value_attributes_exercised': 1900,
              'eatt_accesses': 14000, 'refusals_with_matching_error': 5000},
    'thorough': {'refused_accesses_judged': 430000, 'granted_accesses_seen': 120000, 'disclosure_scans': 480000,
                 'value_unchanged_checks': 240000, 'mixed_order_requests': 84000, 'value_attributes_exercised': 45000,
                 'eatt_accesses': 336000, 'refusals_with_matching_error': 120000},
}
CASE_TIMEOUT = 300

LINKS = [('plain', False, False), ('encrypted', True, False), ('authenticated', True, True)]
PATTERNS = [p for n in (2, 3) for p in itertools.product('OP', repeat=n) if 'P' in p]   # every order with >=1 protected
OPEN_FALLBACK = [0x03, 0x03, 0x01]
PROT_FALLBACK = [0x00, 0x02, 0x07, 0x17, 0x43, 0x06]
DESC_PERM_ORDER = [(i * 37 + 11) % 256 for i in range(256)]     # a permutation of 0..255


def plan(tier, seed):
    cases = []
    reps = 3 if tier == 'quick' else 24
    for rep in range(reps):
        for chunk in range(8):
            for li in range(3):
                for bearer in ('att', 'eatt'):
                    cases.append({'chunk': chunk, 'link': li, 'bearer': bearer,
                                  'seed': seed * 1000003 + rep * 977 + chunk * 31 + li * 7 + (bearer == 'eatt')})
    return cases


# -----------------------------------------------------------------------------
READ_FAMILY = ra.P_READABLE | ra.P_READ_ENC | ra.P_READ_AUTHN | ra.P_READ_AUTHZ
WRITE_FAMILY = ra.P_WRITEABLE | ra.P_WRITE_ENC | ra.P_WRITE_AUTHN | ra.P_WRITE_AUTHZ


def reason_of(perm, enc, auth, write=False):
    """Discriminating class of a refusal:
      security-requirement              an encryption / authentication / authorization requirement is unmet
      no-read-permission (no-write-..)  none of the four read (write) permission bits is set
      access-bit-clear-requirement-met  READABLE (WRITEABLE) is clear, but some requirement bit is set and
                                        every requirement that is set is met by the link"""
    if write:
        sec = (perm & ra.P_WRITE_ENC and not enc) or (perm & ra.P_WRITE_AUTHN and not auth) or perm & ra.P_WRITE_AUTHZ
        return 'security-requirement' if sec else \
            'no-write-permission' if not perm & WRITE_FAMILY else 'access-bit-clear-requirement-met'
    sec = (perm & ra.P_READ_ENC and not enc) or (perm & ra.P_READ_AUTHN and not auth) or perm & ra.P_READ_AUTHZ
    return 'security-requirement' if sec else \
        'no-read-permission' if not perm & READ_FAMILY else 'access-bit-clear-requirement-met'


def role_class(m):
    return {'value': 'value', 'descriptor': 'descriptor', 'cccd': 'descriptor', 'builtin-descriptor': 'descriptor',
            'service': 'declaration', 'include': 'declaration', 'chardecl': 'declaration',
            'builtin-value': 'value'}[m.role]


def build_spec(rng, chunk, enc, auth):
    """Service A: one characteristic per permission byte of the chunk (+ one descriptor each);
    services B*: groups sharing a 16-bit type and a length, one group per open/protected order
    pattern; services C*: declarations whose permissions the application changed."""
    idx = itertools.count(1)
    perms = list(range(chunk * 32, chunk * 32 + 32))
    open_p = [p for p in perms if ra.allowed_read(p, enc, auth)] or OPEN_FALLBACK
    prot_p = [p for p in perms if not ra.allowed_read(p, enc, auth)] or PROT_FALLBACK
    services = []
    chars = []
    for k, p in enumerate(perms):
        i = next(idx)
        kind = rng.choice(['static', 'static', 'static', 'dyn', 'dyn-v2', 'dyn-async'])
        c = {'uuid': struct.pack('<H', 0xA100 + k).hex() if k % 3 else ra.marker_value(3000 + i, 16).hex(),
             'props': 0x0A, 'perm': p, 'len': rng.choice([8, 8, 30, 60]), 'index': i, 'kind': kind, 'descs': []}
        dp = DESC_PERM_ORDER[(chunk * 32 + k) % 256]
        c['descs'].append({'uuid': rng.choice(['0129', struct.pack('<H', 0xA900 + k).hex()]), 'perm': dp, 'len': 8,
                           'index': next(idx), 'kind': rng.choice(['static', 'static', 'dyn'])})
        if k % 8 == 0:
            c['props'] = 0x1A    # NOTIFY -> bumble adds a CCCD
        chars.append(c)
    services.append({'uuid': ra.marker_value(2000, 16).hex(), 'primary': True, 'chars': chars, 'includes': []})
    groups = []
    for gi, pat in enumerate(PATTERNS):
        uuid = struct.pack('<H', 0xC000 + gi).hex()
        ln = rng.choice([6, 8, 12])
        gchars = []
        for sym in pat:
            p = rng.choice(open_p if sym == 'O' else prot_p)
            gchars.append({'uuid': uuid, 'props': 0x0A, 'perm': p, 'len': ln, 'index': next(idx),
                           'kind': rng.choice(['static', 'static', 'dyn']), 'descs': []})
        groups.append({'pattern': ''.join(pat), 'uuid': uuid, 'indices': [c['index'] for c in gchars]})
        services.append({'uuid': ra.marker_value(2100 + gi, 16).hex(), 'primary': True, 'chars': gchars, 'includes': []})
    # declarations with application-modified permissions: three services in a row for Read By Group Type
    decl_groups = []
    for di, pat in enumerate([('O', 'P'), ('P', 'O'), ('O', 'P', 'O'), ('P', 'P', 'O')]):
        members = []
        for sym in pat:
            p = 0x01 if sym == 'O' else rng.choice([x for x in prot_p + PROT_FALLBACK if not ra.allowed_read(x, enc, auth)])
            si = next(idx)
            services.append({'uuid': ra.marker_value(si, 16).hex(), 'primary': True, 'perm': p, 'index': si,
                             'chars': [{'uuid': struct.pack('<H', 0xD000 + si).hex(), 'props': 0x02, 'perm': 0x01,
                                        'len': 8, 'index': next(idx), 'kind': 'static', 'descs': [],
                                        'decl_perm': rng.choice([None, p])}],
                             'includes': []})
            members.append(si)
        decl_groups.append({'pattern': ''.join(pat), 'service_indices': members})
    return services, groups, decl_groups


class Session:
    def __init__(self, hs, bearer, r, enc, auth, rng):
        self.hs, self.bearer, self.r, self.enc, self.auth, self.rng = hs, bearer, r, enc, auth, rng
        self.table = ra.MarkerTable()
        self.kind = bearer.kind
        self.refused_read = {}      # marker key -> model
        self.write_serial = 5000
        self.scanned = 0
        self.trail = 0
        for m in hs.models:
            if m.role == 'service' and m.value is not None and len(m.value) == 16 and m.value[0] == 0xE7:
                # service declaration value = its 128-bit UUID, which the generator made a marker
                a, b, c = m.value[1] - 0x10, m.value[2] - 0x10, m.value[3] - 0x10
                m.index = 100000 + m.handle
                self.table.add(a + 100 * b + 10000 * c, False, key=m.index)
                m.marker = True
            elif m.marker and m.index > 0:
                self.table.add(m.index, False)
            if m.marker and not self.readable(m):
                self.refused_read[m.index] = m

    # -- predicate ----------------------------------------------------------------
    def readable(self, m):
        return ra.allowed_read(m.perm, self.enc, self.auth)

    def writable(self, m):
        return ra.allowed_write(m.perm, self.enc, self.auth)

    # -- plumbing -----------------------------------------------------------------
    async def ask(self, pdu, what, touches=()):
        """touches: the attributes this request addresses. Their disclosure in the reply is judged
        (and keyed) by the operation's own clause; the scan reports every *other* leak."""
        if self.kind == 'eatt':
            self.r.ev('eatt_accesses')
        self.trail += 1
        replies = await self.hs.exchange(self.bearer, pdu, what, f'{self.kind} {what} {pdu[:24].hex()}')
        for b in self.hs.bearers:
            self.scan(b, {m.index for m in touches})
        return replies

    def scan(self, bearer, judged_elsewhere=frozenset()):
        """disclosure clause over every server->client PDU not yet scanned"""
        n = getattr(bearer, '_c11_scanned', 0)
        for pdu in bearer.rx[n:]:
            self.r.ev('disclosure_scans')
            self.r.ev('oracle_evals')
            for key in self.table.find(pdu):
                m = self.refused_read.get(key)
                if m is not None and key in judged_elsewhere:
                    self.r.ev('disclosures_in_reply_to_the_request_that_addressed_the_attribute')
                elif m is not None:
                    self.r.bad(f'perm/disclosed/{ra.opname(pdu[0])}/{reason_of(m.perm, self.enc, self.auth)}',
                               f'value of {m} (not readable with enc={self.enc} auth={self.auth}) appears in '
                               f'{ra.opname(pdu[0])} on {bearer.kind}: {pdu[:40].hex()}; last request: {self.hs.ctx}')
        bearer._c11_scanned = len(bearer.rx)

    def judge_refusal(self, op, opn, m, replies, codes, reason, handle_must_match=True, accept_not_found=False):
        """`replies` answer request opcode `op`, which had to be refused because of attribute m."""
        r = self.r
        r.ev('refused_accesses_judged')
        r.ev('oracle_evals')
        key_tail = f'{reason}'
        if not replies:
            r.bad(f'perm/{opn}/unanswered/{key_tail}',
                  f'{opn} touching {m} (enc={self.enc} auth={self.auth}) got no reply at all; {self.hs.ctx}')
            return False
        pdu = replies[0]
        if len(replies) > 1:
            r.bad(f'perm/{opn}/wrong-reply/{key_tail}', f'{len(replies)} replies: {[p[:8].hex() for p in replies]}')
            return False
        if pdu[0] != ra.ERROR_RSP:
            return None     # a response: caller decides whether its content is acceptable
        try:
            req, handle, code = ra.parse_error(pdu)
        except ra.Malformed as e:
            r.bad(f'perm/{opn}/wrong-reply/{key_tail}', f'{e}: {pdu.hex()}')
            return False
        ok_codes = set(codes) | ({ra.E_ATTRIBUTE_NOT_FOUND} if accept_not_found else set())
        if req != op or code not in ok_codes or (handle_must_match and code in codes and handle != m.handle):
            r.bad(f'perm/{opn}/wrong-reply/{key_tail}',
                  f'{opn} touching {m} (enc={self.enc} auth={self.auth}) answered by error (req={req:#x} '
                  f'handle={handle:#x} code={code:#x}); acceptable codes {sorted(ok_codes)} for handle {m.handle:#x}; '
                  f'{self.hs.ctx}')
            return False
        r.ev('refusals_with_matching_error')
        return True

    # -- single-handle operations --------------------------------------------------
    async def single_reads(self, m):
        r = self.r
        for opn, op, pdu in (('read', ra.READ_REQ, ra.read(m.handle)),
                             ('read-blob', ra.READ_BLOB_REQ, ra.read_blob(m.handle, self.rng.choice([0, 1])))):
            replies = await self.ask(pdu, opn, [m])
            if self.readable(m):
                if replies and replies[0][0] in (ra.READ_RSP, ra.READ_BLOB_RSP):
                    r.ev('granted_accesses_seen')
                elif replies and replies[0][0] == ra.ERROR_RSP:
                    r.ev('allowed_but_error')    # Attribute Not Long etc.: availability is not this property
                continue
            reason = reason_of(m.perm, self.enc, self.auth)
            if replies and len(replies) == 1 and len(replies[0]) == 5 and replies[0][0] == ra.ERROR_RSP and \
                    replies[0][1] == op and replies[0][4] in (ra.E_ATTRIBUTE_NOT_LONG, ra.E_INVALID_OFFSET):
                # these errors depend on the value's length: the server went past the permission check
                r.ev('refused_accesses_judged')
                r.ev('oracle_evals')
                r.bad(f'perm/{opn}/granted/{reason}',
                      f'{opn} of {m} with enc={self.enc} auth={self.auth} answered by error {replies[0][4]:#x}, which is '
                      f'decided from the value (its length) instead of the permission')
                continue
            res = self.judge_refusal(op, opn, m, replies, ra.read_refusal_codes(m.perm, self.enc, self.auth), reason)
            if res is None:
                r.bad(f'perm/{opn}/granted/{reason}',
                      f'{opn} of {m} with enc={self.enc} auth={self.auth} answered by {ra.opname(replies[0][0])} '
                      f'{replies[0][:24].hex()} instead of an error')

    def snapshot(self, m):
        if m.kind == 'static':
            v = m.obj.value
            return bytes(v) if isinstance(v, (bytes, bytearray)) else v
        if m.kind.startswith('dyn'):
            return len(m.state['writes'])
        return None

    async def single_writes(self, m):
        r = self.r
        for opn, op in (('write', ra.WRITE_REQ), ('write-command', ra.WRITE_CMD)):
            self.write_serial += 1
            ln = 2 if m.role == 'cccd' else self.rng.choice([4, 8, 20])
            new = ra.marker_value(self.write_serial, ln, written=True) if m.role != 'cccd' else b'\x00\x00'
            before = self.snapshot(m)
            pdu = ra.write_request(m.handle, new) if op == ra.WRITE_REQ else ra.write_command(m.handle, new)
            replies = await self.ask(pdu, opn)
            after = self.snapshot(m)
            if self.writable(m):
                if before is not None and after != before:
                    r.ev('granted_accesses_seen')
                    r.ev('granted_writes_took_effect')
                    if m.kind == 'static' and m.marker and not self.readable(m):
                        # the new content is now the protected value of this attribute
                        self.table.add(self.write_serial, True, key=m.index)
                continue
            reason = reason_of(m.perm, self.enc, self.auth, write=True)
            changed = False
            if before is not None:
                r.ev('value_unchanged_checks')
                r.ev('oracle_evals')
                if after != before:
                    changed = True
                    r.bad(f'perm/{opn}/changed/{reason}',
                          f'{opn} to {m} (not writable with enc={self.enc} auth={self.auth}) changed the server-side '
                          f'value from {str(before)[:40]} to {str(after)[:40]}')
                    if m.kind == 'static':
                        m.obj.value = before    # restore so that later clauses see the original database
            if op == ra.WRITE_REQ:
                res = self.judge_refusal(op, opn, m, replies, ra.write_refusal_codes(m.perm, self.enc, self.auth), reason)
                if res is None and not changed:
                    r.bad(f'perm/{opn}/granted/{reason}',
                          f'write to {m} with enc={self.enc} auth={self.auth} answered by {ra.opname(replies[0][0])}')
            else:
                r.ev('refused_accesses_judged')

    # -- ranges and handle lists ----------------------------------------------------
    async def ranged(self, members, type_le, pattern, group_type=False):
        """members: models sharing a type, consecutive in handle order (other attributes may lie between)."""
        r = self.r
        r.ev('mixed_order_requests')
        start, end = members[0].handle, members[-1].handle
        if group_type:
            opn, op, pdu = 'read-by-group-type', ra.READ_BY_GROUP_TYPE_REQ, ra.read_by_group_type(start, end, type_le)
        else:
            opn, op, pdu = 'read-by-type', ra.READ_BY_TYPE_REQ, ra.read_by_type(start, end, type_le)
        replies = await self.ask(pdu, f'{opn} pattern {pattern}', members)
        first_refused = next((m for m in members if not self.readable(m)), None)
        if first_refused is None:
            return
        reason = reason_of(first_refused.perm, self.enc, self.auth)
        pos = 'first' if first_refused is members[0] else 'later'
        codes = ra.read_refusal_codes(first_refused.perm, self.enc, self.auth)
        if replies and len(replies) == 1 and len(replies[0]) == 5 and replies[0][0] == ra.ERROR_RSP and replies[0][1] == op:
            _req, eh, ec = ra.parse_error(replies[0])
            later = [m for m in members[members.index(first_refused) + 1:] if not self.readable(m)]
            if any(eh == m.handle and ec in ra.read_refusal_codes(m.perm, self.enc, self.auth) for m in later) and \
                    not (eh == first_refused.handle):
                # the error names a protected attribute *behind* the first one: the first was passed over
                r.ev('refused_accesses_judged')
                r.ev('oracle_evals')
                r.bad(f'perm/{opn}/granted/{reason}',
                      f'{opn} {start:#x}..{end:#x} over pattern {pattern}: error names handle {eh:#x} (code {ec:#x}) although '
                      f'{first_refused} comes first and is not readable (enc={self.enc} auth={self.auth})')
                return
        res = self.judge_refusal(op, opn + '/' + pos, first_refused, replies, codes, reason)
        if res is None:
            # a response: acceptable only when the protected attribute is not the first match and
            # the list stops before it
            pdu = replies[0]
            try:
                listed = [e[0] for e in (ra.parse_read_by_group_type_rsp(pdu) if group_type else ra.parse_read_by_type_rsp(pdu))]
            except ra.Malformed as e:
                r.bad(f'perm/{opn}/{pos}/wrong-reply/{reason}', f'{e}: {pdu[:30].hex()}')
                return
            bad = [hd for hd in listed if hd in self.hs.by_handle and not self.readable(self.hs.by_handle[hd])]
            if pos == 'first' or bad:
                r.bad(f'perm/{opn}/granted/{reason}',
                      f'{opn} {start:#x}..{end:#x} over pattern {pattern} lists handles {[hex(x) for x in listed]}; '
                      f'protected: {[hex(m.handle) for m in members if not self.readable(m)]} '
                      f'(enc={self.enc} auth={self.auth})')
            else:
                r.ev('ranged_list_stopped_before_protected')

    async def multi(self, members, pattern):
        r = self.r
        for opn, op, enc in (('read-multiple', ra.READ_MULTIPLE_REQ, ra.read_multiple),
                             ('read-multiple-variable', ra.READ_MULTIPLE_VARIABLE_REQ, ra.read_multiple_variable)):
            r.ev('mixed_order_requests')
            handles = [m.handle for m in members]
            replies = await self.ask(enc(handles), f'{opn} pattern {pattern}', members)
            refused = [m for m in members if not self.readable(m)]
            if not refused:
                continue
            first = refused[0]
            reason = reason_of(first.perm, self.enc, self.auth)
            pos = 'first' if first is members[0] else 'later'
            # the error may name any refused attribute of the set with that attribute's own code
            ok = False
            if replies and len(replies) == 1 and replies[0][0] == ra.ERROR_RSP and len(replies[0]) == 5:
                req, handle, code = ra.parse_error(replies[0])
                ok = req == op and any(handle == m.handle and code in ra.read_refusal_codes(m.perm, self.enc, self.auth)
                                       for m in refused)
            r.ev('refused_accesses_judged')
            r.ev('oracle_evals')
            if not ok and pos == 'later' and replies and len(replies) == 1 and replies[0][0] == ra.RESPONSE_OF[op]:
                # a response that ends before the first protected handle touched nothing protected
                before = members[:members.index(first)]
                # (values the model does not know count as empty: the response is a prefix of the concatenation
                # in request order, so one no longer than the KNOWN bytes before the protected value ends before it)
                # A response that holds ALL the values before the protected one, whole, means the server reached
                # the protected attribute and passed over it without the error: that is not a stop for lack of room.
                known = all(m.value is not None for m in before)
                if op == ra.READ_MULTIPLE_REQ:
                    room = sum(len(m.value) for m in before if m.value is not None)
                    stopped = len(replies[0]) - 1 < room if known else len(replies[0]) - 1 <= room
                else:
                    try:
                        tuples = ra.parse_read_multiple_variable_rsp(replies[0])
                        stopped = len(tuples) < len(before) or (
                            len(tuples) == len(before) and bool(tuples) and len(tuples[-1][1]) < tuples[-1][0])
                    except ra.Malformed:
                        stopped = False
                if stopped:
                    r.ev('multi_read_stopped_before_protected')
                    continue
            if ok:
                r.ev('refusals_with_matching_error')
            elif not replies:
                r.bad(f'perm/{opn}/{pos}/unanswered/{reason}',
                      f'{opn} {[hex(x) for x in handles]} (pattern {pattern}, enc={self.enc} auth={self.auth}) got no reply')
            elif replies[0][0] == ra.ERROR_RSP:
                r.bad(f'perm/{opn}/{pos}/wrong-reply/{reason}',
                      f'{opn} {[hex(x) for x in handles]} answered by {replies[0].hex()}; protected: '
                      f'{[(hex(m.handle), sorted(ra.read_refusal_codes(m.perm, self.enc, self.auth))) for m in refused]}')
            else:
                r.bad(f'perm/{opn}/granted/{reason}',
                      f'{opn} {[hex(x) for x in handles]} (pattern {pattern}) answered by {ra.opname(replies[0][0])} '
                      f'{replies[0][:30].hex()} although {[hex(m.handle) for m in refused]} are not readable')

    async def find_by_value(self, members, type_le, pattern):
        """Ask for each member's value inside the group's range."""
        r = self.r
        start, end = members[0].handle, members[-1].handle
        t16 = struct.unpack('<H', type_le)[0]
        for target in members:
            r.ev('mixed_order_requests')
            replies = await self.ask(ra.find_by_type_value(start, end, t16, target.value),
                                     f'find-by-type-value pattern {pattern} target {"O" if self.readable(target) else "P"}')
            refused = [m for m in members if not self.readable(m)]
            if not refused:
                continue
            reason = reason_of(refused[0].perm, self.enc, self.auth)
            tclass = 'target-protected' if not self.readable(target) else 'target-open'
            r.ev('refused_accesses_judged')
            r.ev('oracle_evals')
            key = f'{reason}'
            if not replies:
                r.bad(f'perm/find-by-type-value/{tclass}/unanswered/{key}',
                      f'find-by-type-value {start:#x}..{end:#x} type {t16:#x} (pattern {pattern}) got no reply')
                continue
            pdu = replies[0]
            if pdu[0] == ra.ERROR_RSP and len(pdu) == 5:
                req, handle, code = ra.parse_error(pdu)
                okc = {ra.E_ATTRIBUTE_NOT_FOUND}
                for m in refused:
                    okc |= ra.read_refusal_codes(m.perm, self.enc, self.auth)
                if req != ra.FIND_BY_TYPE_VALUE_REQ or code not in okc:
                    r.bad(f'perm/find-by-type-value/{tclass}/wrong-reply/{key}', f'answered by {pdu.hex()}')
                else:
                    r.ev('refusals_with_matching_error')
                continue
            try:
                found = [e[0] for e in ra.parse_find_by_type_value_rsp(pdu)]
            except ra.Malformed as e:
                r.bad(f'perm/find-by-type-value/{tclass}/wrong-reply/{key}', f'{e}: {pdu[:30].hex()}')
                continue
            leaked = [hd for hd in found if hd in self.hs.by_handle and not self.readable(self.hs.by_handle[hd])]
            if leaked:
                r.bad(f'perm/find-by-type-value/{tclass}/disclosed/{key}',
                      f'find-by-type-value confirms the value of protected handles {[hex(x) for x in leaked]} '
                      f'(pattern {pattern}, enc={self.enc} auth={self.auth}): {pdu.hex()}')
            else:
                r.ev('find_by_type_value_listed_only_open')


async def run_case(case, r: R):
    import logging
    logging.disable(logging.CRITICAL)
    from vlib import att_peer as ap

    rng = random.Random(case['seed'])
    link_name, enc, auth = LINKS[case['link']]
    spec, groups, decl_groups = build_spec(rng, case['chunk'], enc, auth)
    # the pairing automaton keeps running (MTU tracking, windows) but its verdicts belong to C10
    side = R(case)
    hs = await ap.Harness.create(side, case['seed'], spec, eatt='config' if case['bearer'] == 'eatt' else 'off',
                                 raw_central=rng.random() < 0.5, max_delay=rng.choice([0, 0, 1, 2]),
                                 le_acl_len=[rng.choice([27, 251]), rng.choice([27, 251])])
    hs.set_link(enc, auth)
    bearer = hs.fixed
    if case['bearer'] == 'eatt':
        bearer = await hs.open_eatt(my_mtu=rng.choice([64, 185, 517]), my_mps=rng.choice([64, 251]), credits=200)
        if bearer is None:
            raise RuntimeError('could not open an enhanced ATT bearer')
    else:
        # (ATT_MTU 23 keeps the 30- and 60-byte values "long", so that Read Blob continuations exist)
        await hs.exchange(hs.fixed, ra.exchange_mtu(rng.choice([23, 23, 64, 185, 517])), 'mtu')
    ss = Session(hs, bearer, r, enc, auth, rng)
    by_index = {m.index: m for m in hs.models if m.index > 0}
    for m in hs.models:
        if m.role == 'value':
            r.ev('value_attributes_exercised')
    seen_perms = sorted({m.perm for m in hs.models if m.role == 'value'})
    # 1. single-handle operations on every attribute, reads first (before any write changes a value)
    order = list(hs.models)
    rng.shuffle(order)
    for m in order:
        await ss.single_reads(m)
    # 1b. the link loses its security in the middle of a long read: the continuation of a read that
    #     started while the link qualified must be judged against the link as it is NOW
    if not (enc and auth):
        for m in order:
            if ss.readable(m) or not ra.allowed_read(m.perm, True, True):
                continue
            hs.set_link(True, True)
            ss.enc, ss.auth = True, True
            first = await ss.ask(ra.read_blob(m.handle, 0), 'read-blob', [m])
            hs.set_link(enc, auth)
            ss.enc, ss.auth = enc, auth
            if not first or first[0][0] != ra.READ_BLOB_RSP:
                continue
            r.ev('downgrade_mid_long_read_probes')
            replies = await ss.ask(ra.read_blob(m.handle, 1), 'read-blob', [m])
            r.ev('refused_accesses_judged')
            r.ev('oracle_evals')
            if replies and replies[0][0] == ra.READ_BLOB_RSP:
                r.bad('perm/read-blob/granted/after-security-downgrade',
                      f'Read Blob offset 1 of {m} answered by {replies[0][:16].hex()} on a link with enc={enc} auth={auth}: '
                      f'the read was started (offset 0) while the link was encrypted and authenticated')
    # 2. ranges and handle lists over every open/protected order
    for g in groups:
        members = [by_index[i] for i in g['indices']]
        t = bytes.fromhex(g['uuid'])
        await ss.ranged(members, t, g['pattern'])
        await ss.multi(members, g['pattern'])
        # the same handles in the reverse and in a shuffled order, and mixed with attributes of service A
        rev = list(reversed(members))
        await ss.multi(rev, g['pattern'][::-1] + '/reversed')
        extra = members + [rng.choice(order)]
        rng.shuffle(extra)
        await ss.multi(extra, 'shuffled-with-random-attribute')
        await ss.find_by_value(members, t, g['pattern'])
    # Read By Type over a whole-database range for types that occur with mixed permissions
    for t_hex in ('0129', '0328', '0229'):
        t = bytes.fromhex(t_hex)
        members = [m for m in hs.models if m.type == t]
        if len(members) >= 2:
            for k in range(0, len(members) - 1, max(1, len(members) // 6)):
                await ss.ranged(members[k:k + 3], t, 'descriptors-or-declarations')
    for dg in decl_groups:
        members = [m for m in hs.models if m.role == 'service' and m.index - 100000 == m.handle
                   and m.value in [ra.marker_value(si, 16) for si in dg['service_indices']]]
        if len(members) == len(dg['service_indices']):
            await ss.ranged(members, bytes.fromhex('0028'), 'services ' + dg['pattern'], group_type=True)
            await ss.find_by_value(members, bytes.fromhex('0028'), 'services ' + dg['pattern'])
    # 3. writes (request and command) to every attribute
    for m in order:
        await ss.single_writes(m)
    # 4. after the writes, read everything again: content written to a non-readable attribute
    #    must not come back either
    for m in order[:40]:
        await ss.single_reads(m)
    await hs.finish()
    for b in hs.bearers:
        ss.scan(b)
    nontrivial = r.events.get('refused_accesses_judged', 0) > 0 and r.events.get('granted_accesses_seen', 0) > 0
    if nontrivial:
        r.sig(case['chunk'], link_name, case['bearer'], case['seed'])
    r.sched.add(hs.rg.schedule_signature)
    r.evals(ss.trail)
    r.ev('pairing_automaton_violations_left_to_C10', len(side.violations))
    r.extra['permission_bytes_on_value_attributes'] = seen_perms
    r.extra['permission_bytes_on_descriptors'] = sorted({m.perm for m in hs.models if m.role == 'descriptor'})
    r.sample = {'chunk': f'{case["chunk"] * 32:#04x}..{case["chunk"] * 32 + 31:#04x}', 'link': link_name,
                'bearer': case['bearer'], 'attributes': len(hs.models), 'requests': ss.trail,
                'not_readable_here': len(ss.refused_read), 'order_patterns': [g['pattern'] for g in groups],
                'declaration_patterns': [d['pattern'] for d in decl_groups]}


LEVEL_TEXT = ('Independent permission predicate + unique marker values: for 48 (quick) / 1152 (thorough) sessions covering '
              'all 256 permission bytes on value attributes and on descriptors, three link-security states and both bearer '
              'kinds, every attribute of a generated database (values, descriptors, CCCDs, declarations, built-in services) '
              'is attacked through Read, Read Blob, Write Request and Write Command, and every open/protected order of '
              'length 2-3 through Read By Type, Read By Group Type, Read Multiple, Read Multiple Variable and Find By Type '
              'Value; every server->client PDU of the session is scanned for markers of attributes the link may not read, '
              'server-side values are compared before/after refused writes, and refusals must carry an error naming a '
              'requirement the link really fails. Enumeration of paths and flags on sampled databases, not proof.')
LEVEL_NOTE = ('Trusted: vlib/ref_att.py (predicate, layouts, marker scan), vlib/att_peer.py. Link security is set on the '
              'server Connection object, not negotiated. Availability (an allowed access being served) is only counted, '
              'never judged. Pairing/MTU verdicts of the same sessions belong to C10.')
TECHNIQUE = 'runtime monitoring: independent permission predicate + marker-value disclosure scan + before/after value comparison over a hand-driven raw ATT client'
