"""C14 — both crypto back ends agree with each other and with the specification.

bumble/crypto/builtin.py and bumble/crypto/cryptography.py are imported side by side
(never through whichever one bumble.crypto happened to select) and every primitive is
evaluated on the same input by both, next to an independent third implementation that
shares no code with either:

  vlib/ref_smpcrypto.py   AES-128 from FIPS-197 (computed S-box), AES-CMAC from RFC 4493,
                          the SMP toolbox c1 s1 f4 f5 f6 g2 h6 h7 ah from Core Vol 3 Part H
  vlib/ref_p256.py        affine P-256 on Python ints + published sample data

Monitors (case kinds):
  vectors   every published vector against each back end (primitives called directly and
            toolbox functions with the back end patched into bumble.crypto)
  aes       e(key, block): builtin vs cryptography vs reference; boundary + random
  aes-sweep all single-bit keys/blocks, every byte value in every block position
  cmac-exh  every length 0..80 x message patterns x keys chosen to take each of the four
            sub-key derivation paths (msb(L), msb(K1))
  cmac-rand block-boundary-biased random lengths up to 4 KiB
  toolbox   the nine SMP functions under each back end vs the reference
  ecc       scalar pairs (boundary, random, real entropy from each back end's generate()):
            public-key derivation, dh both directions on both back ends, symmetry
  points    on-curve points lifted from boundary x values (0, small, near p) x scalars
  invalid   off-curve / out-of-range peer keys: both back ends must raise; the verdict
            on validity comes from the reference's curve equation, not from a back end
  session   the same keys delivered to smp.Session.on_smp_command as a Pairing Public
            Key command: no DH key may be stored for an invalid point
  rpa       Address.generate_private_address(irk) resolves under irk (same and other back
            end), not under unrelated IRKs (re-confirmed with a second unrelated IRK)
  reuse     every object of the layer used MORE THAN ONCE: one smp.AddressResolver (0..8 keys,
            given as list / tuple / plain Sequence, also the one Device.refresh_resolving_list
            builds from a key store) answers a whole sequence of interleaved hits, misses and
            can_resolve_to() questions, each judged by a model that walks the key list with the
            reference's ah; one EccKey object per back end serves a sequence of dh() calls
            (valid peers, refused peers, repeats) with x / y read in between; e / aes_cmac / ah
            are called again with an earlier key after other keys

  identity-types   (inside rpa and reuse) the resolving keys' identity addresses carry ALL FOUR address types
            (public device, random device, public identity, random identity): the resolved address equals
            the key's identity in value AND kind (public / random), and the resolver knows it (can_resolve_to)
  debugkey  the Security Manager's key-pair provider (smp.Manager.ecc_key, and what a new smp.Session
            picks up from it) over HISTORIES of debug_mode on / off, repeated reads and new sessions, on both
            back ends: with Debug mode ON the public key is the specification's debug key (Vol 3 Part H
            2.3.5.6.1) and dh() with a generated peer gives the reference's DHKey for the debug scalar; with
            it OFF the key is never the debug key and its public key is the reference's for its own scalar

Entropy is NOT replaced here: generate(), generate_prand() draw from the OS.  Every other
input is derived from the case seed; failing inputs are printed in full in the violation.
"""
from __future__ import annotations

import contextlib
import importlib
import random

from vlib import ref_p256 as E
from vlib import ref_smpcrypto as S
from vlib.result import R

ID = 'C14'
LEVEL = 'exploration'
RULE = ('seeded boundary-biased + random inputs (all-zero, all-one, single-bit, byte patterns, '
        'uniform); scalars from {1..16, n-16..n-1, 2^k-1/2^k/2^k+1, low/high Hamming weight, '
        '(n+-1)/2, uniform, OS entropy}; peer keys from {on-curve lifts of boundary x, (0,0), '
        'coordinates >= p incl. ones that reduce to a valid point, right x wrong y, wrong x, '
        'swapped, y=0, foreign-curve, uniform}; CMAC lengths 0..80 exhaustively. Every input is a '
        'full evaluation of both back ends and the reference, so every one is non-trivial; '
        'distinct = distinct (function, argument bytes). reuse: one AddressResolver per generated key list (0-8 keys; '
        'list, tuple, plain Sequence; also the one Device.refresh_resolving_list builds) answers 5-14 interleaved '
        'questions (RPA of key j made by the reference or by bumble, unrelated IRK, damaged hash, can_resolve_to of a '
        'listed / unlisted identity), one EccKey object per back end serves 4-7 dh() calls (valid, refused, repeated '
        'peers, an accepted abscissa with a wrong ordinate); non-trivial from the second use of the object on. The '
        'identity addresses of all resolving keys take the four address types (public / random x device / identity form) in '
        'turn. debugkey: 12 histories per case of 8-14 steps over {read the manager\'s key pair, read it through a new '
        'smp.Session, switch debug_mode, set it to the same value}, Debug mode initially on in one third (through '
        'DeviceConfiguration or the attribute), back ends alternating; every history ends with a switch after a hand-out; '
        'distinct = (back end, how configured, initial mode, step sequence).')
ASSUMPTIONS = [
    'the reference implementations in vlib/ref_smpcrypto.py and vlib/ref_p256.py are correct; '
    'they reproduce every published vector listed in them (re-checked at the start of each shard)',
    '"rejected" means the call raises; returning any byte string for a point the curve equation '
    'or the range check 0 <= x,y < p refuses is "producing a shared secret"',
    'private scalars are taken from [1, n-1] only (the property does not speak about 0 or >= n)',
    'real OS entropy feeds generate()/generate_prand(); such runs are not bit-for-bit replayable, '
    'so failing inputs are written out in the violation detail',
]
MIN_EVENTS = {
    'quick': {'e_evals': 5000, 'cmac_evals': 2000, 'cmac_exhaustive_lengths': 81 * 8,
              'toolbox_evals': 5000, 'pubkey_evals': 2000, 'ecdh_evals': 4000,
              'ecdh_symmetry_checks': 2000, 'invalid_keys_offered': 1500,
              'valid_keys_accepted': 500, 'rpa_generated': 2000, 'rpa_unrelated_checked': 2000,
              'vectors_checked': 80, 'entropy_keys': 100, 'session_keys_offered': 150,
              'reuse_resolvers': 300, 'reuse_lookups_after_first': 2500, 'reuse_hits_after_first': 800,
              'reuse_hits_after_a_hit_further_down': 150, 'reuse_misses_after_first': 500,
              'reuse_can_resolve_after_first': 400, 'reuse_device_resolver_lookups': 150,
              'reuse_dh_calls_after_first': 250, 'reuse_dh_after_rejected_key': 60,
              'reuse_fn_repeats': 500,
              **{f'resolved_identity_typed_{t}': 250 for t in ('public-device', 'random-device', 'public-identity',
                                                               'random-identity')},
              'resolved_identity_known_to_resolver_checks': 1500,
              'debug_key_histories': 180, 'debug_key_reads_with_debug_on': 500, 'debug_key_reads_with_debug_off': 500,
              'debug_key_reads_on_after_a_key_was_handed_out': 250, 'debug_key_reads_off_after_debug_was_on': 250,
              'debug_key_reads_through_a_new_session': 300, 'debug_key_dh_checks': 300,
              'debug_key_histories_builtin': 90, 'debug_key_histories_cryptography': 90},
    'thorough': {'e_evals': 50000, 'cmac_evals': 20000, 'cmac_exhaustive_lengths': 81 * 8,
                 'toolbox_evals': 50000, 'pubkey_evals': 100000, 'ecdh_evals': 200000,
                 'ecdh_symmetry_checks': 100000, 'invalid_keys_offered': 15000,
                 'valid_keys_accepted': 5000, 'rpa_generated': 20000,
                 'rpa_unrelated_checked': 20000, 'vectors_checked': 80, 'entropy_keys': 5000,
                 'session_keys_offered': 1500,
                 'reuse_resolvers': 3000, 'reuse_lookups_after_first': 25000, 'reuse_hits_after_first': 8000,
                 'reuse_hits_after_a_hit_further_down': 1500, 'reuse_misses_after_first': 5000,
                 'reuse_can_resolve_after_first': 4000, 'reuse_device_resolver_lookups': 1500,
                 'reuse_dh_calls_after_first': 2500, 'reuse_dh_after_rejected_key': 600,
                 'reuse_fn_repeats': 5000,
                 **{f'resolved_identity_typed_{t}': 2500 for t in ('public-device', 'random-device', 'public-identity',
                                                                   'random-identity')},
                 'resolved_identity_known_to_resolver_checks': 15000,
                 'debug_key_histories': 1800, 'debug_key_reads_with_debug_on': 5000, 'debug_key_reads_with_debug_off': 5000,
                 'debug_key_reads_on_after_a_key_was_handed_out': 2500, 'debug_key_reads_off_after_debug_was_on': 2500,
                 'debug_key_reads_through_a_new_session': 3000, 'debug_key_dh_checks': 3000,
                 'debug_key_histories_builtin': 900, 'debug_key_histories_cryptography': 900},
}
EXHAUSTIVE_NOTE = ('CMAC message lengths 0..80 for 8 keys covering all four (msb(L), msb(K1)) '
                   'sub-key paths; all 128 single-bit keys and blocks of e; every byte value at '
                   'every block position; all published vectors x both back ends')
CASE_TIMEOUT = 600
SHARD_TIMEOUT = {'quick': 900, 'thorough': 7200}

BACKENDS = ('builtin', 'cryptography')


# =============================================================================
# plan
# =============================================================================
def plan(tier, seed):
    q = tier == 'quick'
    base = seed * 1000003
    cases = [{'kind': 'vectors', 'seed': base}]
    cases.append({'kind': 'aes-sweep', 'seed': base})
    for i in range(16 if q else 80):
        cases.append({'kind': 'aes', 'seed': base + i, 'n': 400 if q else 800})
    for i in range(8):
        cases.append({'kind': 'cmac-exh', 'seed': base + i, 'key_class': i})
    for i in range(16 if q else 240):
        cases.append({'kind': 'cmac-rand', 'seed': base + i, 'n': 80})
    for i in range(16 if q else 160):
        cases.append({'kind': 'toolbox', 'seed': base + i, 'rounds': 60})
    for i in range(96 if q else 3200):
        cases.append({'kind': 'ecc', 'seed': base + i, 'pairs': 16})
    for i in range(16 if q else 160):
        cases.append({'kind': 'points', 'seed': base + i, 'n': 40})
    for i in range(32 if q else 320):
        cases.append({'kind': 'invalid', 'seed': base + i, 'n': 60})
    for i in range(8 if q else 80):
        cases.append({'kind': 'session', 'seed': base + i, 'n': 24})
    for i in range(16 if q else 160):
        cases.append({'kind': 'rpa', 'seed': base + i, 'n': 80})
    for i in range(16 if q else 160):
        cases.append({'kind': 'reuse', 'seed': base + i, 'resolvers': 24, 'eccs': 4, 'fn_runs': 6})
    for i in range(16 if q else 160):
        cases.append({'kind': 'debugkey', 'seed': base + i, 'histories': 12})
    return cases


# =============================================================================
# plumbing
# =============================================================================
_mods = {}


def backend(name):
    if name not in _mods:
        _mods[name] = importlib.import_module(f'bumble.crypto.{name}')
    return _mods[name]


def init_shard(tier, seed):
    # the references must reproduce the published vectors before they judge anything
    S.selftest()
    E.selftest()
    for n in BACKENDS:
        backend(n)  # an ImportError here is a harness error -> inconclusive


@contextlib.contextmanager
def patched(name):
    """bumble.crypto with one back end's primitives installed (what the repository's
    own crypto_backend fixture does)."""
    from bumble import crypto

    m = backend(name)
    saved = (crypto.e, crypto.aes_cmac, crypto.EccKey)
    crypto.e, crypto.aes_cmac, crypto.EccKey = m.e, m.aes_cmac, m.EccKey
    try:
        yield crypto
    finally:
        crypto.e, crypto.aes_cmac, crypto.EccKey = saved


def call(fn, *args):
    try:
        v = fn(*args)
    except Exception as ex:  # the code under test: an exception is an outcome
        return ('raise', type(ex).__name__)
    if isinstance(v, (bytes, bytearray, memoryview)):
        v = bytes(v)
    elif isinstance(v, tuple):
        v = tuple(bytes(x) if isinstance(x, (bytes, bytearray)) else x for x in v)
    return ('ok', v)


def show(v):
    if isinstance(v, (bytes, bytearray)):
        return bytes(v).hex()
    if isinstance(v, tuple):
        return '(' + ', '.join(show(x) for x in v) + ')'
    if isinstance(v, int) and v > 0xFFFF:
        return hex(v)
    return repr(v)


def judge(r: R, name, out_b, out_c, want, args, suffix='', extra=''):
    """Three-way comparison; the key names who deviates from the reference."""
    r.ev('oracle_evals')
    okb = out_b == ('ok', want)
    okc = out_c == ('ok', want)
    if okb and okc:
        return True
    if out_b == out_c:
        who = 'both-backends'
    elif okc:
        who = 'builtin'
    elif okb:
        who = 'cryptography'
    else:
        who = 'all-differ'
    r.bad(f'{name}/mismatch/{who}{suffix}',
          f'{name}({", ".join(show(a) for a in args)}){extra}: builtin={out_b[0]}:{show(out_b[1])} '
          f'cryptography={out_c[0]}:{show(out_c[1])} reference={show(want)}')
    return False


# ---- generators ----------------------------------------------------------------
def gen_bytes(rng: random.Random, n: int) -> bytes:
    c = rng.random()
    if c < 0.06:
        return bytes(n)
    if c < 0.12:
        return b'\xff' * n
    if c < 0.22:
        v = 1 << rng.randrange(8 * n)
        return v.to_bytes(n, 'big')
    if c < 0.30:
        v = ((1 << (8 * n)) - 1) ^ (1 << rng.randrange(8 * n))
        return v.to_bytes(n, 'big')
    if c < 0.36:
        return bytes([rng.choice([0x00, 0x01, 0x7F, 0x80, 0xFE, 0xFF, 0x36, 0x5C])]) * n
    if c < 0.42:
        b = bytearray(n)
        b[rng.randrange(n)] = rng.randrange(256)
        return bytes(b)
    if c < 0.46:
        return bytes((i * rng.choice([1, 17, 31])) & 0xFF for i in range(n))
    return rng.randbytes(n)


def gen_scalar(rng: random.Random):
    n = E.N
    c = rng.random()
    if c < 0.10:
        return rng.randint(1, 16), 'small'
    if c < 0.20:
        return n - rng.randint(1, 16), 'near-n'
    if c < 0.32:
        k = rng.randint(1, 255)
        v = (1 << k) + rng.choice([-1, 0, 1])
        return max(1, min(v, n - 1)), 'pow2'
    if c < 0.40:
        v = 0
        for _ in range(rng.randint(2, 3)):
            v |= 1 << rng.randrange(256)
        return (v % (n - 1)) + 1, 'low-weight'
    if c < 0.48:
        v = (1 << 256) - 1
        for _ in range(rng.randint(1, 3)):
            v &= ~(1 << rng.randrange(256))
        v &= ~(1 << rng.choice([255, 254, 253]))  # below n
        return (v % (n - 1)) + 1, 'high-weight'
    if c < 0.54:
        v = rng.choice([(n - 1) // 2, (n + 1) // 2]) + rng.randint(-2, 2)
        return v, 'half-n'
    return rng.randrange(1, n), 'uniform'


def b32(v: int) -> bytes:
    return v.to_bytes(32, 'big')


# =============================================================================
# vectors
# =============================================================================
def run_vectors(case, r: R):
    from bumble import smp

    def vec(cond, key, detail):
        r.ev('vectors_checked')
        r.check(cond, key, detail)

    for bn in BACKENDS:
        m = backend(bn)
        for name, k, p, c in S.AES_VECTORS:
            out = call(m.e, k[::-1], p[::-1])
            vec(out == ('ok', c[::-1]), f'spec/e/{bn}',
                f'{name}: e(key={k.hex()}, pt={p.hex()}) (MSB first) gave {show(out[1])}, published {c.hex()}')
        for name, k, msg, t in S.CMAC_VECTORS:
            out = call(m.aes_cmac, msg, k)
            vec(out == ('ok', t), f'spec/aes_cmac/{bn}',
                f'{name}: AES-CMAC(k={k.hex()}, m={msg.hex()}) gave {show(out[1])}, published {t.hex()}')
        with patched(bn) as crypto:
            for fn, name, args, want in S.TOOLBOX_VECTORS:
                out = call(getattr(crypto, fn), *args)
                vec(out == ('ok', want), f'spec/{fn}/{bn}',
                    f'Core Vol 3 Part {name}: {fn}({", ".join(show(a) for a in args)}) gave '
                    f'{out[0]}:{show(out[1])}, published {show(want)}')
            for ct2, ltk, lk in S.LTK_TO_LINK_KEY:
                out = call(smp.Session.derive_link_key, ltk, ct2)
                vec(out == ('ok', lk), f'spec/ltk-to-link-key/{bn}',
                    f'derive_link_key(ltk={ltk.hex()}, ct2={ct2}) gave {show(out[1])}, published {lk.hex()}')
            for ct2, lk, ltk in S.LINK_KEY_TO_LTK:
                out = call(smp.Session.derive_ltk, lk, ct2)
                vec(out == ('ok', ltk), f'spec/link-key-to-ltk/{bn}',
                    f'derive_ltk(link_key={lk.hex()}, ct2={ct2}) gave {show(out[1])}, published {ltk.hex()}')
            # the sample RPA of Appendix D.7 resolves under its IRK
            irk, prand, hash_ = S.TOOLBOX_VECTORS[7][2][0], S.TOOLBOX_VECTORS[7][2][1], S.TOOLBOX_VECTORS[7][3]
            from bumble.hci import Address
            rpa = Address(address=hash_ + prand, address_type=Address.RANDOM_DEVICE_ADDRESS)
            ident = Address('C0:01:02:03:04:05', Address.RANDOM_DEVICE_ADDRESS)
            res = call(smp.AddressResolver([(irk, ident)]).resolve, rpa)
            vec(res[0] == 'ok' and res[1] is not None and bytes(res[1]) == bytes(ident),
                f'spec/rpa-resolve/{bn}', f'sample RPA {rpa} did not resolve under the sample IRK: {res}')
        for v in E.BT_P256:
            for me, peer in (('a', 'b'), ('b', 'a')):
                d, px, py = v['d' + me], v[peer + 'x'], v[peer + 'y']
                key = call(m.EccKey.from_private_key_bytes, b32(d))
                pub = ('raise', key[1]) if key[0] != 'ok' else call(lambda k: (k.x, k.y), key[1])
                vec(pub == ('ok', (b32(v[me + 'x']), b32(v[me + 'y']))), f'spec/pubkey/{bn}',
                    f'{v["name"]}: public key of {d:#x} gave {show(pub[1])}')
                dh = ('raise', key[1]) if key[0] != 'ok' else call(key[1].dh, b32(px), b32(py))
                vec(dh == ('ok', b32(v['dh'])), f'spec/dh/{bn}',
                    f'{v["name"]}: dh({d:#x}, ({px:#x}, {py:#x})) gave {dh[0]}:{show(dh[1])}, '
                    f'published {v["dh"]:#x}')
        for k, (x, y) in E.KG.items():
            pub = call(lambda kk: (lambda o: (o.x, o.y))(m.EccKey.from_private_key_bytes(b32(kk))), k)
            vec(pub == ('ok', (b32(x), b32(y))), f'spec/pubkey/{bn}', f'{k}*G gave {show(pub[1])}')
        # debug key (Vol 3 Part H 2.3.5.6.1) as bumble stores and uses it
        vec(smp.SMP_DEBUG_KEY_PRIVATE == b32(E.DEBUG_PRIVATE) and smp.SMP_DEBUG_KEY_PUBLIC_X == b32(E.DEBUG_PUBLIC_X)
            and smp.SMP_DEBUG_KEY_PUBLIC_Y == b32(E.DEBUG_PUBLIC_Y), 'spec/debug-key/constants',
            'smp.SMP_DEBUG_KEY_* differ from the published debug key')
        with patched(bn):
            from bumble.device import Device, DeviceConfiguration
            dev = Device(config=DeviceConfiguration(smp_debug_mode=True))
            k = dev.smp_manager.ecc_key
            vec(isinstance(k, m.EccKey) and (k.x, k.y) == (b32(E.DEBUG_PUBLIC_X), b32(E.DEBUG_PUBLIC_Y)),
                f'spec/debug-key/{bn}', f'debug-mode manager key is ({show(k.x)}, {show(k.y)})')
    r.evals()
    r.sig('vectors')
    r.sample = {'kind': 'vectors', 'aes': len(S.AES_VECTORS), 'cmac': len(S.CMAC_VECTORS),
                'toolbox': [t[0] + ':' + t[1] for t in S.TOOLBOX_VECTORS],
                'p256': [v['name'] for v in E.BT_P256]}


# =============================================================================
# e
# =============================================================================
def eval_e(r: R, k: bytes, d: bytes, cls=''):
    Bm, Cm = backend('builtin'), backend('cryptography')
    want = S.e_le(k, d)
    r.ev('e_evals')
    r.evals()
    r.sig('e', k, d)
    return judge(r, 'e', call(Bm.e, k, d), call(Cm.e, k, d), want, (k, d))


def run_aes(case, r: R):
    rng = random.Random(case['seed'] ^ 0xAE5)
    for _ in range(case['n']):
        k, d = gen_bytes(rng, 16), gen_bytes(rng, 16)
        eval_e(r, k, d)
    r.sample = {'kind': 'aes', 'last_key': k.hex(), 'last_block': d.hex(), 'e': S.e_le(k, d).hex()}


def run_aes_sweep(case, r: R):
    rng = random.Random(case['seed'] ^ 0x5EE9)
    rk, rd = rng.randbytes(16), rng.randbytes(16)
    for bit in range(128):
        one = (1 << bit).to_bytes(16, 'big')
        eval_e(r, one, bytes(16))
        eval_e(r, bytes(16), one)
        eval_e(r, one, rd)
        eval_e(r, rk, one)
        r.ev('e_single_bit_inputs', 4)
    for pos in range(16):
        for val in range(256):
            blk = bytearray(rd)
            blk[pos] = val
            eval_e(r, rk, bytes(blk))
            key = bytearray(16)
            key[pos] = val
            eval_e(r, bytes(key), rd)
            r.ev('e_byte_sweep_inputs', 2)
    r.sample = {'kind': 'aes-sweep', 'single_bit': 512, 'byte_sweep': 8192}


# =============================================================================
# AES-CMAC
# =============================================================================
def len_class(n: int) -> str:
    if n == 0:
        return 'len=0'
    if n < 16:
        return 'len<16'
    if n == 16:
        return 'len=16'
    return 'len%16==0' if n % 16 == 0 else 'len%16!=0'


def eval_cmac(r: R, k: bytes, m: bytes):
    Bm, Cm = backend('builtin'), backend('cryptography')
    want = S.aes_cmac(k, m)
    r.ev('cmac_evals')
    r.evals()
    r.sig('cmac', k, m)
    return judge(r, 'aes_cmac', call(Bm.aes_cmac, m, k), call(Cm.aes_cmac, m, k), want, (m, k),
                 suffix='/' + len_class(len(m)), extra=f' [len {len(m)}]')


def key_for_path(rng: random.Random, want_l: int, want_k1: int) -> bytes:
    """A key whose CMAC sub-key derivation takes the given branches: msb(L), msb(K1)."""
    for _ in range(10000):
        k = rng.randbytes(16)
        l, k1, _k2 = S.cmac_subkeys(k)
        if (l[0] >> 7, k1[0] >> 7) == (want_l, want_k1):
            return k
    raise RuntimeError('no key found for sub-key path')


def run_cmac_exh(case, r: R):
    rng = random.Random(case['seed'] ^ 0xC3AC)
    kc = case['key_class']
    if kc < 4:
        k = key_for_path(rng, kc >> 1, kc & 1)
    else:
        k = [bytes(16), b'\xff' * 16, S.RFC4493_KEY, rng.randbytes(16)][kc - 4]
    l, k1, _ = S.cmac_subkeys(k)
    r.ev(f'cmac_subkey_path_msbL{l[0] >> 7}_msbK1{k1[0] >> 7}')
    for n in range(0, 81):
        r.ev('cmac_exhaustive_lengths')
        msgs = [rng.randbytes(n), bytes(n), b'\xff' * n]
        if n:
            msgs.append(rng.randbytes(n - 1) + b'\x80')  # looks like its own padding
            msgs.append(b'\x80' + bytes(n - 1))
        for m in msgs:
            eval_cmac(r, k, m)
    r.sample = {'kind': 'cmac-exh', 'key': k.hex(), 'msb_L': l[0] >> 7, 'msb_K1': k1[0] >> 7, 'lengths': '0..80'}


def run_cmac_rand(case, r: R):
    rng = random.Random(case['seed'] ^ 0xC3AD)
    lens = []
    for _ in range(case['n']):
        c = rng.random()
        if c < 0.45:
            n = 16 * rng.randint(1, 256) + rng.choice([-1, 0, 1])
        elif c < 0.55:
            n = rng.choice([4095, 4096, 4080, 4081, 4079, 2048, 1024, 1023, 1025])
        elif c < 0.8:
            n = rng.randint(81, 400)
        else:
            n = rng.randint(0, 4096)
        n = max(0, min(n, 4096))
        lens.append(n)
        k = gen_bytes(rng, 16)
        m = rng.randbytes(n) if rng.random() < 0.8 else gen_bytes(rng, n) if n else b''
        eval_cmac(r, k, m)
        r.ev('cmac_random_lengths')
    r.sample = {'kind': 'cmac-rand', 'lengths': lens[:20]}


# =============================================================================
# toolbox
# =============================================================================
def gen_toolbox_args(rng: random.Random, fn: str):
    g = lambda n: gen_bytes(rng, n)  # noqa: E731
    if fn == 'c1':
        return (g(16), g(16), g(7), g(7), rng.choice([0, 1]), rng.choice([0, 1]), g(6), g(6))
    if fn == 's1':
        return (g(16), g(16), g(16))
    if fn == 'f4':
        return (g(32), g(32), g(16), bytes([rng.choice([0, 0, 0x80, 0x81, rng.randrange(256)])]))
    if fn == 'f5':
        return (g(32), g(16), g(16), g(7), g(7))
    if fn == 'f6':
        return (g(16), g(16), g(16), g(16), g(3), g(7), g(7))
    if fn == 'g2':
        return (g(32), g(32), g(16), g(16))
    if fn == 'h6':
        return (g(16), rng.choice([b'lebr', b'brle', b'tmp1', b'tmp2', g(4)]))
    if fn == 'h7':
        return (rng.choice([S.SALT_TMP1, S.SALT_TMP2, g(16)]), g(16))
    if fn == 'ah':
        return (g(16), g(3))
    raise KeyError(fn)


def run_toolbox(case, r: R):
    rng = random.Random(case['seed'] ^ 0x700B)
    last = None
    for _ in range(case['rounds']):
        for fn in S.REF_TOOLBOX:
            args = gen_toolbox_args(rng, fn)
            want = S.REF_TOOLBOX[fn](*args)
            outs = {}
            for bn in BACKENDS:
                with patched(bn) as crypto:
                    outs[bn] = call(getattr(crypto, fn), *args)
            r.ev('toolbox_evals')
            r.ev('toolbox_' + fn)
            r.evals()
            r.sig(fn, args)
            judge(r, fn, outs['builtin'], outs['cryptography'], want, args)
            last = (fn, args, want)
    r.sample = {'kind': 'toolbox', 'fn': last[0], 'args': [show(a) for a in last[1]], 'result': show(last[2])}


# =============================================================================
# ECC: public keys, ECDH, symmetry
# =============================================================================
def private_value(bn: str, key) -> int:
    """Read the scalar a back end's generate() drew (harness-side introspection)."""
    if bn == 'builtin':
        return int(key.private_key.key)
    return int(key.private_key.private_numbers().private_value)


def pub_of(key):
    return (key.x, key.y)


def run_ecc(case, r: R):
    rng = random.Random(case['seed'] ^ 0xECC)
    Bm, Cm = backend('builtin'), backend('cryptography')
    mods = {'builtin': Bm, 'cryptography': Cm}
    sample = None
    for i in range(case['pairs']):
        if i == 0:
            # real entropy: one scalar from each back end's generate()
            kb, kc = Bm.EccKey.generate(), Cm.EccKey.generate()
            da, ca = private_value('builtin', kb), 'entropy-builtin'
            db, cb = private_value('cryptography', kc), 'entropy-cryptography'
            r.ev('entropy_keys', 2)
            for bn, k, d in (('builtin', kb, da), ('cryptography', kc, db)):
                r.check(1 <= d < E.N, f'generate/scalar-out-of-range/{bn}', f'generate() drew {d:#x}')
                if 1 <= d < E.N:
                    want = E.public_key(d)
                    got = call(pub_of, k)
                    r.check(got == ('ok', (b32(want[0]), b32(want[1]))), f'generate/pubkey-mismatch/{bn}',
                            f'generate() scalar {d:#x}: public key {show(got[1])}, reference ({want[0]:#x}, {want[1]:#x})')
            if not (1 <= da < E.N and 1 <= db < E.N):
                continue
        else:
            da, ca = gen_scalar(rng)
            db, cb = gen_scalar(rng)
        pa, pb = E.public_key(da), E.public_key(db)
        secret = E.ecdh(da, pb[0], pb[1])
        if i % 8 == 1:  # the reference against itself by another route: x((ab mod n)G)
            assert secret == E.mul(da * db % E.N, E.G)[0].to_bytes(32, 'big')
        # ---- public-key derivation ----
        keys = {}
        for who, d, cls, want in (('a', da, ca, pa), ('b', db, cb, pb)):
            outs = {}
            for bn in BACKENDS:
                k = call(mods[bn].EccKey.from_private_key_bytes, b32(d))
                keys[(bn, who)] = k
                outs[bn] = call(pub_of, k[1]) if k[0] == 'ok' else k
            r.ev('pubkey_evals', 2)
            r.ev('scalar_class_' + cls.split('-')[0])
            judge(r, 'pubkey', outs['builtin'], outs['cryptography'], (b32(want[0]), b32(want[1])), (d,),
                  suffix='/scalar=' + cls.split('-')[0])
        # ---- ECDH, both directions, both back ends; peer keys are the reference's ----
        dh = {}
        for bn in BACKENDS:
            for who, peer in (('a', pb), ('b', pa)):
                k = keys[(bn, who)]
                dh[(bn, who)] = call(k[1].dh, b32(peer[0]), b32(peer[1])) if k[0] == 'ok' else k
                r.ev('ecdh_evals')
                r.ev('valid_keys_accepted', 1 if dh[(bn, who)][0] == 'ok' else 0)
        for who, d, peer, cls in (('a', da, pb, ca), ('b', db, pa, cb)):
            judge(r, 'dh', dh[('builtin', who)], dh[('cryptography', who)], secret, (d, peer[0], peer[1]),
                  suffix='/scalar=' + cls.split('-')[0])
        for bn in BACKENDS:
            r.ev('ecdh_symmetry_checks')
            r.check(dh[(bn, 'a')] == dh[(bn, 'b')] and dh[(bn, 'a')][0] == 'ok', f'dh/asymmetric/{bn}',
                    f'a={da:#x} b={db:#x}: dh(a,B)={show(dh[(bn, "a")][1])} dh(b,A)={show(dh[(bn, "b")][1])}')
        # cross back end: a lives in builtin, b in cryptography
        r.ev('ecdh_symmetry_checks')
        r.check(dh[('builtin', 'a')] == dh[('cryptography', 'b')], 'dh/asymmetric/cross-backend',
                f'a={da:#x} b={db:#x}: builtin dh(a,B)={show(dh[("builtin", "a")][1])} '
                f'cryptography dh(b,A)={show(dh[("cryptography", "b")][1])}')
        r.evals()
        r.sig('ecc', da, db)
        sample = {'kind': 'ecc', 'a': hex(da), 'a_class': ca, 'b': hex(db), 'b_class': cb, 'dhkey': secret.hex()}
    r.sample = sample


# ---- peer keys -----------------------------------------------------------------
def gen_valid_point(rng: random.Random):
    """An on-curve point obtained WITHOUT scalar multiplication: lift a boundary x."""
    for _ in range(1000):
        c = rng.random()
        if c < 0.08:
            x = 0
        elif c < 0.25:
            x = rng.randint(0, 64)
        elif c < 0.40:
            x = E.P - 1 - rng.randint(0, 64)
        elif c < 0.50:
            x = (1 << rng.randint(1, 255)) + rng.choice([-1, 0, 1])
        elif c < 0.60:
            x = rng.randrange(1 << 224)  # x + p still fits in 32 bytes
        else:
            x = rng.randrange(E.P)
        pt = E.lift_x(x)
        if pt is not None:
            if rng.random() < 0.5:
                pt = E.neg(pt)
            return pt
    raise RuntimeError('no abscissa found')


def run_points(case, r: R):
    rng = random.Random(case['seed'] ^ 0x9017)
    Bm, Cm = backend('builtin'), backend('cryptography')
    sample = None
    for _ in range(case['n']):
        x, y = gen_valid_point(rng)
        d, cls = gen_scalar(rng)
        want = E.ecdh(d, x, y)
        outs = {}
        for bn, m in (('builtin', Bm), ('cryptography', Cm)):
            k = call(m.EccKey.from_private_key_bytes, b32(d))
            outs[bn] = call(k[1].dh, b32(x), b32(y)) if k[0] == 'ok' else k
            r.ev('ecdh_evals')
            r.ev('valid_keys_accepted', 1 if outs[bn][0] == 'ok' else 0)
            if outs[bn][0] != 'ok':
                r.bad(f'dh/valid-key-rejected/{bn}', f'dh({d:#x}, ({x:#x}, {y:#x})) raised {outs[bn][1]}; '
                      'the point satisfies the curve equation')
        judge(r, 'dh', outs['builtin'], outs['cryptography'], want, (d, x, y), suffix='/lifted-point')
        r.ev('lifted_points')
        r.evals()
        r.sig('point', d, x, y)
        sample = {'kind': 'points', 'd': hex(d), 'x': hex(x), 'y': hex(y), 'dhkey': want.hex()}
    r.sample = sample


SECP256K1_G = (0x79BE667EF9DCBBAC55A06295CE870B07029BFCDB2DCE28D959F2815B16F81798,
               0x483ADA7726A3C4655DA4FBFC0E1108A8FD17B448A68554199C47D08FFB10D4B8)


def gen_invalid_key(rng: random.Random):
    """(x bytes, y bytes, class, kind, x, y).  class is what goes into the mechanism key:
    'off-curve' (coordinates in range, curve equation fails), 'out-of-range' (a coordinate
    >= p and the pair reduced mod p is off the curve as well) or 'noncanonical' (a
    coordinate >= p whose reduction mod p is a valid point)."""
    P = E.P
    for _ in range(1000):
        kind = rng.choice(['zero', 'uniform', 'wrong-y-bit', 'wrong-y-plus1', 'wrong-y-random', 'wrong-x-bit',
                           'swapped', 'y-zero', 'x-zero-y-wrong', 'foreign-curve', 'x-plus-p', 'x-equals-p',
                           'y-plus-p', 'coord-max', 'x-33-bytes', 'one-one', 'uniform', 'wrong-y-bit'])
        vx, vy = gen_valid_point(rng)
        xb = yb = None
        if kind == 'zero':
            x, y = 0, 0
        elif kind == 'one-one':
            x, y = rng.choice([(1, 1), (0, 1), (1, 0), (2, 2)])
        elif kind == 'uniform':
            x, y = rng.randrange(P), rng.randrange(P)
        elif kind == 'wrong-y-bit':
            x, y = vx, vy ^ (1 << rng.randrange(256))
        elif kind == 'wrong-y-plus1':
            x, y = vx, (vy + rng.choice([1, -1])) % P
        elif kind == 'wrong-y-random':
            x, y = vx, rng.randrange(P)
        elif kind == 'wrong-x-bit':
            x, y = vx ^ (1 << rng.randrange(256)), vy
        elif kind == 'swapped':
            x, y = vy, vx
        elif kind == 'y-zero':
            x, y = vx, 0
        elif kind == 'x-zero-y-wrong':
            x, y = 0, vy
        elif kind == 'foreign-curve':
            x, y = SECP256K1_G
        elif kind == 'x-plus-p':
            # reduces mod p to a VALID point: only a range check refuses it
            pt = None
            for _ in range(64):
                pt = E.lift_x(rng.randrange(1 << 224) if rng.random() < 0.7 else rng.randint(0, 200))
                if pt is not None and pt[0] + P < (1 << 256):
                    break
            if pt is None:
                continue
            x, y = pt[0] + P, pt[1]
        elif kind == 'x-equals-p':
            pt = E.lift_x(0)
            x, y = P, rng.choice([pt[1], P - pt[1]])
        elif kind == 'y-plus-p':
            x, y = vx, P + rng.randint(0, (1 << 224) - 2)
        elif kind == 'coord-max':
            x, y = rng.choice([((1 << 256) - 1, vy), (vx, (1 << 256) - 1), ((1 << 256) - 1, (1 << 256) - 1), (P, P)])
        elif kind == 'x-33-bytes':
            x, y = vx + (1 << 256), vy
            xb = x.to_bytes(33, 'big')
        if x >= (1 << 256) and xb is None:
            continue
        if y >= (1 << 256):
            continue
        if E.on_curve(x, y):
            continue  # by chance a valid key: not an invalid-key case
        if x >= P or y >= P:
            # a coordinate that is not a field element; 'noncanonical' when reducing it mod p
            # happens to give a valid point (then only the range check can refuse it)
            cls = 'noncanonical' if E.on_curve(x % P, y % P) else 'out-of-range'
        else:
            cls = 'off-curve'
        return (xb or b32(x)), (yb or b32(y)), cls, kind, x, y
    raise RuntimeError('generator failed')


def run_invalid(case, r: R):
    rng = random.Random(case['seed'] ^ 0x1BAD)
    Bm, Cm = backend('builtin'), backend('cryptography')
    sample = None
    for _ in range(case['n']):
        xb, yb, cls, kind, x, y = gen_invalid_key(rng)
        if rng.random() < 0.3:
            d = rng.choice([1, 2, 3, 4, E.N - 1, E.N - 2])
        else:
            d, _c = gen_scalar(rng)
        r.ev('invalid_keys_offered')
        r.ev('invalid_kind_' + kind)
        r.ev('invalid_class_' + cls)
        for bn, m in (('builtin', Bm), ('cryptography', Cm)):
            k = m.EccKey.from_private_key_bytes(b32(d))
            out = call(k.dh, xb, yb)
            r.ev('oracle_evals')
            if out[0] == 'ok':
                r.ev(f'invalid_keys_accepted_{bn}')
                r.bad(f'dh/invalid-key-accepted/{bn}/{cls}',
                      f'{bn}.EccKey(d={d:#x}).dh(x={xb.hex()}, y={yb.hex()}) returned {show(out[1])} although the '
                      f'point [{kind}] is not on P-256 (range ok: {x < E.P and y < E.P}; '
                      f'y^2-(x^3-3x+b) mod p = {(y * y - (x * x * x + E.A * x + E.B)) % E.P:#x})')
            else:
                r.ev(f'invalid_keys_rejected_{bn}')
                r.add_extra_list(f'rejection_exceptions_{bn}', out[1])
        r.evals()
        r.sig('invalid', d, xb, yb)
        sample = {'kind': 'invalid', 'point_kind': kind, 'class': cls, 'd': hex(d), 'x': xb.hex(), 'y': yb.hex()}
    r.sample = sample


# =============================================================================
# session: the place peer-supplied keys reach ECDH
# =============================================================================
def run_session(case, r: R):
    from unittest import mock
    from bumble import smp
    from bumble.device import Device
    from bumble.pairing import PairingConfig

    rng = random.Random(case['seed'] ^ 0x5E55)
    sample = None
    for i in range(case['n']):
        bn = BACKENDS[i % 2]
        valid = (i % 4) >= 2
        if valid:
            x, y = gen_valid_point(rng)
            xb, yb, kind = b32(x), b32(y), 'valid'
        else:
            want_cls = ('off-curve', 'out-of-range', 'noncanonical')[(i // 4) % 3]
            while True:
                xb, yb, cls, kind, x, y = gen_invalid_key(rng)
                if cls == want_cls and len(xb) == 32:
                    break
        with patched(bn):
            device = Device()
            session = smp.Session(device.smp_manager, mock.MagicMock(), PairingConfig(), False)
            sent = []
            session.send_command = sent.append
            session.connection.cancel_on_disconnection = lambda aw: aw.close()  # mock link: nothing to await
            d = private_value(bn, session.ecc_key)
            cmd = smp.SMP_Pairing_Public_Key_Command(public_key_x=xb[::-1], public_key_y=yb[::-1])
            session.on_smp_command(cmd)
        failed = any(isinstance(c, smp.SMP_Pairing_Failed_Command) for c in sent)
        r.ev('session_keys_offered')
        r.ev('oracle_evals')
        if valid:
            want = E.ecdh(d, x, y)[::-1]
            r.ev('session_valid_keys')
            if session.dh_key != want:
                r.bad(f'session/dhkey-mismatch/{bn}', f'session stored DH key {show(session.dh_key)} for valid peer '
                      f'key ({x:#x}, {y:#x}), d={d:#x}; reference {want.hex()} (pairing failed sent: {failed})')
        else:
            r.ev('session_invalid_keys')
            if session.dh_key:
                r.bad(f'session/invalid-key-accepted/{bn}/{cls}',
                      f'Session.on_smp_command(Pairing Public Key x={xb.hex()} y={yb.hex()} [{kind}]) stored DH key '
                      f'{show(session.dh_key)} and sent {[type(c).__name__ for c in sent]}')
            else:
                r.ev('session_invalid_keys_refused')
                r.ev('session_pairing_failed_sent', 1 if failed else 0)
        r.evals()
        r.sig('session', bn, xb, yb)
        sample = {'kind': 'session', 'backend': bn, 'point_kind': kind, 'sent': [type(c).__name__ for c in sent],
                  'dh_key_stored': bool(session.dh_key)}
    r.sample = sample


# =============================================================================
# RPA
# =============================================================================
def run_rpa(case, r: R):
    from bumble import crypto as bcrypto
    from bumble.hci import Address
    from bumble.smp import AddressResolver

    rng = random.Random(case['seed'] ^ 0x49A)
    sample = None
    for i in range(case['n']):
        irk = gen_bytes(rng, 16)
        u1, u2 = rng.randbytes(16), rng.randbytes(16)
        if irk in (u1, u2) or u1 == u2:
            continue
        ityp = IDENTITY_TYPES[i % 4]
        ident = Address(bytes(rng.randbytes(5) + bytes([0xC0 | rng.randrange(64)])), _atype(ityp))
        other1 = Address(bytes(rng.randbytes(5) + b'\xC1'), Address.RANDOM_DEVICE_ADDRESS)
        other2 = Address(bytes(rng.randbytes(5) + b'\xC2'), Address.RANDOM_DEVICE_ADDRESS)
        for bn in BACKENDS:
            ob = BACKENDS[1 - BACKENDS.index(bn)]
            with patched(bn):
                prand = bcrypto.generate_prand()
                rpa = Address.generate_private_address(irk)
            r.ev('rpa_generated')
            ab = bytes(rpa)
            r.check(len(prand) == 3 and prand[2] >> 6 == 0b01, 'rpa/prand-format',
                    f'generate_prand() gave {prand.hex()}')
            r.check(len(ab) == 6 and ab[5] >> 6 == 0b01 and rpa.is_resolvable
                    and rpa.address_type == Address.RANDOM_DEVICE_ADDRESS, 'rpa/format',
                    f'generate_private_address({irk.hex()}) gave {rpa} type {rpa.address_type}')
            r.check(ab[0:3] == S.ah_le(irk, ab[3:6]), f'rpa/hash-mismatch/{bn}',
                    f'irk={irk.hex()} rpa={ab.hex()} (LSB first): hash part is not ah(irk, prand)='
                    f'{S.ah_le(irk, ab[3:6]).hex()}')
            for res_bn, tag in ((bn, bn), (ob, f'generated-{bn}-resolved-{ob}')):
                with patched(res_bn):
                    got = call(AddressResolver([(irk, ident)]).resolve, rpa)
                    got3 = call(AddressResolver([(u1, other1), (irk, ident), (u2, other2)]).resolve, rpa)
                    un1 = call(AddressResolver([(u1, other1)]).resolve, rpa)
                r.ev('rpa_resolved', 1 if got[0] == 'ok' and got[1] is not None else 0)
                r.check(got[0] == 'ok' and got[1] is not None and bytes(got[1]) == bytes(ident),
                        f'rpa/not-resolved/{tag}', f'irk={irk.hex()} rpa={ab.hex()}: resolve -> {got}')
                if got[0] == 'ok' and got[1] is not None:
                    judge_identity(r, got[1], ident, AddressResolver([(irk, ident)]), 'single-key',
                                   f'irk={irk.hex()} rpa={ab.hex()} [{tag}]')
                r.ev('rpa_unrelated_checked')
                r.ev('oracle_evals')
                if un1 != ('ok', None):
                    # a 24-bit hash collides by chance: confirm with a second unrelated IRK
                    with patched(res_bn):
                        un2 = call(AddressResolver([(u2, other2)]).resolve, rpa)
                    if un2 != ('ok', None):
                        r.bad(f'rpa/resolved-under-unrelated-irk/{tag}',
                              f'rpa={ab.hex()} from irk={irk.hex()} resolved under unrelated {u1.hex()} -> {un1} '
                              f'and under unrelated {u2.hex()} -> {un2}')
                    else:
                        r.ev('rpa_chance_collisions')
                        got3 = ('ok', ident)  # first entry legitimately matched by chance
                r.check(got3[0] == 'ok' and got3[1] is not None and bytes(got3[1]) == bytes(ident),
                        f'rpa/wrong-identity/{tag}', f'irk={irk.hex()} rpa={ab.hex()} among 3 keys: resolve -> {got3}')
            # a damaged hash must not resolve
            bad = bytearray(ab)
            bad[rng.randrange(3)] ^= 1 << rng.randrange(8)
            with patched(bn):
                gb = call(AddressResolver([(irk, ident)]).resolve,
                          Address(bytes(bad), Address.RANDOM_DEVICE_ADDRESS))
            r.check(gb == ('ok', None), f'rpa/damaged-hash-resolved/{bn}',
                    f'irk={irk.hex()} rpa={bytes(bad).hex()} (one hash bit flipped) -> {gb}')
            r.evals()
            r.sig('rpa', irk, ab)
            sample = {'kind': 'rpa', 'backend': bn, 'irk': irk.hex(), 'rpa': str(rpa), 'identity': str(ident)}
    r.sample = sample



# =============================================================================
# reuse: every object of the layer is used more than once
# =============================================================================
class PlainSequence:
    """A collections.abc.Sequence that is neither a list nor a tuple (what the annotation
    `Sequence[tuple[bytes, Address]]` of AddressResolver admits)."""

    def __init__(self, items):
        self._items = tuple(items)

    def __len__(self):
        return len(self._items)

    def __getitem__(self, i):
        return self._items[i]


import collections.abc as _abc  # noqa: E402

_abc.Sequence.register(PlainSequence)


def model_resolve(keys, ab: bytes):
    """Walk the key list in order with the REFERENCE's ah (Vol 3 Part H 2.2.2): the first key
    whose hash equals the address's hash part owns the address."""
    for j, (irk, ident) in enumerate(keys):
        if S.ah_le(irk, ab[3:6]) == ab[0:3]:
            return j, ident
    return None, None


def ref_rpa(rng: random.Random, irk: bytes) -> bytes:
    """An RPA made by the reference alone: prand with top bits 01, hash = ah(irk, prand)."""
    prand = rng.randbytes(2) + bytes([0x40 | rng.randrange(64)])
    return S.ah_le(irk, prand) + prand


def lookup_sequence(r: R, rng: random.Random, resolver, keys, bn: str, origin: str, first_index: int = 0):
    """Ask one resolver a sequence of questions; every answer is judged on its own by the model.
    Returns the number of lookups made.  `keys` is the harness's own copy of the key list."""
    from bumble.hci import Address

    n_ops = rng.randint(5, 14)
    prev_hit = None
    trace = []
    for op_i in range(n_ops):
        nth = first_index + op_i
        later = nth > 0
        pos = 'first-lookup' if not later else 'after-first-lookup'
        c = rng.random()
        if keys and c < 0.50:
            op = 'hit'
        elif c < 0.62:
            op = 'miss-unrelated'
        elif keys and c < 0.70:
            op = 'miss-damaged'
        elif keys and c < 0.84:
            op = 'can-hit'
        elif c < 0.94:
            op = 'can-miss'
        else:
            op = 'miss-unrelated'
        r.ev('reuse_lookups')
        r.ev('reuse_lookups_after_first', 1 if later else 0)
        r.ev('oracle_evals')
        if op in ('can-hit', 'can-miss'):
            if op == 'can-hit':
                q = keys[rng.randrange(len(keys))][1]
                q = Address(bytes(q), q.address_type)  # an equal address, not the same object
            else:
                q = Address(bytes(rng.randbytes(5) + b'\xC9'), Address.RANDOM_DEVICE_ADDRESS)
            want = any(bytes(q) == bytes(a) and q.is_public == a.is_public for _, a in keys)
            with patched(bn):
                got = call(resolver.can_resolve_to, q)
            r.ev('reuse_can_resolve_after_first', 1 if later else 0)
            trace.append(f'{op}:{got[1]}')
            if got != ('ok', want):
                r.bad(f'rpa/reuse/can-resolve-to/{"false-negative" if want else "false-positive"}/{pos}',
                      f'[{origin}, {len(keys)} keys, {bn}] lookup #{nth + 1}: can_resolve_to({q}) -> {got}, '
                      f'the key list {"holds" if want else "does not hold"} that identity; so far: {trace}')
            continue
        if op == 'hit':
            j = rng.randrange(len(keys))
            if rng.random() < 0.5:
                ab = ref_rpa(rng, keys[j][0])
            else:
                with patched(bn):
                    ab = bytes(Address.generate_private_address(keys[j][0]))
        elif op == 'miss-damaged':
            ab = bytearray(ref_rpa(rng, keys[rng.randrange(len(keys))][0]))
            ab[rng.randrange(3)] ^= 1 << rng.randrange(8)
            ab = bytes(ab)
        else:
            ab = ref_rpa(rng, rng.randbytes(16))
        rpa = Address(ab, Address.RANDOM_DEVICE_ADDRESS)
        wj, want = model_resolve(keys, ab)
        with patched(bn):
            got = call(resolver.resolve, rpa)
        trace.append(f'{op}:{"-" if got[1] is None else got[1]}')
        where = f'[{origin}, {len(keys)} keys, {bn}] lookup #{nth + 1} ({op}) rpa={ab.hex()} (LSB first)'
        if want is not None:
            r.ev('reuse_hits_after_first', 1 if later else 0)
            if later and prev_hit is not None and wj <= prev_hit:
                r.ev('reuse_hits_after_a_hit_further_down')
            if got[0] != 'ok' or got[1] is None:
                r.bad(f'rpa/reuse/not-resolved/{pos}',
                      f'{where}: resolve -> {got}; key #{wj} irk={keys[wj][0].hex()} owns it (identity {want}); '
                      f'so far: {trace}')
            elif bytes(got[1]) != bytes(want):
                r.bad(f'rpa/reuse/wrong-identity/{pos}',
                      f'{where}: resolve -> {got[1]}, the first matching key is #{wj} with identity {want}')
            elif want.address_type in (Address.PUBLIC_DEVICE_ADDRESS, Address.RANDOM_DEVICE_ADDRESS) and \
                    got[1].is_public != want.is_public:
                r.bad(f'rpa/reuse/identity-kind/{pos}',
                      f'{where}: resolve -> {got[1]} of type {got[1].address_type}, identity {want} has type '
                      f'{want.address_type}')
            else:
                judge_identity(r, got[1], want, resolver, pos, where)
            prev_hit = wj
        else:
            r.ev('reuse_misses_after_first', 1 if later else 0)
            if got != ('ok', None):
                r.bad(f'rpa/reuse/resolved-under-no-key/{pos}',
                      f'{where}: resolve -> {got}; no key of the list gives that hash; so far: {trace}')
    return n_ops


IDENTITY_TYPES = (0, 1, 2, 3)       # public device, random device, public identity, random identity (Vol 4 Part E 7.8.x)
IDENTITY_TYPE_NAMES = {0: 'public-device', 1: 'random-device', 2: 'public-identity', 3: 'random-identity'}


def _atype(code: int):
    from bumble import hci
    return hci.AddressType(code)


def judge_identity(r: R, got, want, resolver, pos: str, where: str):
    """`got` = what resolve() returned for an RPA owned by the key whose identity address is `want` (same six
    bytes already established). The resolved address IS the identity: the same kind (public / random; written
    here from the type codes 0/2 = public, 1/3 = random, not from Address.is_public), equal to it as bumble
    compares addresses, and an identity the resolver itself says it can resolve to. The type the identity was
    recorded with (device / identity form of the same address) is the discriminating class."""
    tname = IDENTITY_TYPE_NAMES[int(want.address_type)]
    r.ev(f'resolved_identity_typed_{tname}')
    r.ev('oracle_evals')
    want_public = int(want.address_type) in (0, 2)
    got_public = int(got.address_type) in (0, 2)
    if got_public != want_public:
        r.bad(f'rpa/resolved-identity/kind-differs/identity-typed-{tname}/{pos}',
              f'{where}: resolve -> {got!r} (type {int(got.address_type)}), the key\'s identity is {want!r} '
              f'(type {int(want.address_type)}): a {"public" if want_public else "random"} identity came back as a '
              f'{"public" if got_public else "random"} one')
        return
    eq = call(lambda: got == want and want == got)
    if eq != ('ok', True):
        r.bad(f'rpa/resolved-identity/not-equal-to-identity/identity-typed-{tname}/{pos}',
              f'{where}: resolve -> {got!r}, which does not compare equal to the key\'s identity {want!r}: {eq}')
        return
    r.ev('resolved_identity_known_to_resolver_checks')
    known = call(resolver.can_resolve_to, got)
    if known != ('ok', True):
        r.bad(f'rpa/resolved-identity/not-known-to-resolver/identity-typed-{tname}/{pos}',
              f'{where}: resolve -> {got!r}, but can_resolve_to() of that address -> {known}')


def gen_resolving_keys(rng: random.Random, n: int):
    from bumble.hci import Address

    keys = []
    first = rng.randrange(4)
    for j in range(n):
        irk = gen_bytes(rng, 16) if rng.random() < 0.3 else rng.randbytes(16)
        # all four address types an identity can be recorded with, in turn from a seeded start (the identity forms
        # are what a resolved peer address carries, e.g. connection.peer_address of a resolved peer)
        typ = IDENTITY_TYPES[(first + j) % 4]
        last = (0xC0 | rng.randrange(64)) if typ in (1, 3) else rng.randrange(256)
        ident = Address(bytes(rng.randbytes(4) + bytes([j, last])), _atype(typ))
        keys.append((irk, ident))
    return keys


def run_reuse(case, r: R):
    import asyncio
    from bumble.device import Device
    from bumble.hci import Address
    from bumble.keys import MemoryKeyStore, PairingKeys
    from bumble.smp import AddressResolver

    rng = random.Random(case['seed'] ^ 0x2E05E)
    sample = None
    # ---- A: one AddressResolver, many questions --------------------------------------
    for i in range(case['resolvers']):
        bn = BACKENDS[i % 2]
        n = (0, 1, 1, 2, 2, 3, 3, 5, 8)[i % 9] if i < 18 else rng.choice([0, 1, 2, 3, 4, 6])
        keys = gen_resolving_keys(rng, n)
        if n >= 2 and rng.random() < 0.2:
            keys[-1] = (keys[0][0], keys[-1][1])  # the same IRK twice: the first entry owns the address
        container = ('list', 'tuple', 'sequence')[(i // 2) % 3]
        given = {'list': list, 'tuple': tuple, 'sequence': PlainSequence}[container](keys)
        res = call(AddressResolver, given)
        r.ev('reuse_resolvers')
        r.ev('reuse_container_' + container)
        r.ev(f'reuse_resolver_keys_{min(n, 4)}{"+" if n >= 4 else ""}')
        if res[0] != 'ok':
            r.bad(f'rpa/reuse/constructor-raises/{container}', f'AddressResolver({container} of {n} keys) -> {res}')
            continue
        done = lookup_sequence(r, rng, res[1], keys, bn, container)
        r.ev('oracle_evals')
        if [(k, bytes(a)) for k, a in given] != [(k, bytes(a)) for k, a in keys] or len(given) != n:
            r.bad('rpa/reuse/key-list-altered', f'the {container} given to AddressResolver changed during {done} lookups')
        r.evals()
        r.sig('reuse-resolver', n, container, bn, tuple(k for k, _ in keys))
        sample = {'kind': 'reuse', 'keys': n, 'container': container, 'backend': bn, 'lookups': done}

    # ---- B: the resolver a Device builds from its key store ---------------------------
    async def device_resolver():
        device = Device()
        device.keystore = MemoryKeyStore()
        keys = []
        for rnd in range(2):
            for j in range(rng.randint(1, 3)):
                irk = rng.randbytes(16)
                typ = rng.choice([Address.PUBLIC_DEVICE_ADDRESS, Address.RANDOM_DEVICE_ADDRESS])
                ab = bytes(rng.randbytes(4) + bytes([rnd * 8 + j, 0xC0 | rng.randrange(64)]))
                ident = Address(ab, typ)
                await device.keystore.update(ident.to_string(False), PairingKeys(address_type=typ, irk=PairingKeys.Key(irk)))
                keys.append((irk, ident))
                # a bonded peer without an IRK contributes no resolving key
                await device.keystore.update(Address(bytes(rng.randbytes(5) + b'\x00')).to_string(False),
                                             PairingKeys(ltk=PairingKeys.Key(rng.randbytes(16))))
            await device.refresh_resolving_list()
            bn = BACKENDS[rnd]
            n = lookup_sequence(r, rng, device.address_resolver, keys, bn, f'device-refresh-{rnd + 1}')
            r.ev('reuse_device_resolver_lookups', n)
        r.ev('reuse_device_resolvers')

    loop = asyncio.new_event_loop()
    try:
        loop.run_until_complete(device_resolver())
    finally:
        loop.close()

    # ---- C: one EccKey object, many dh() calls ----------------------------------------
    for i in range(case['eccs']):
        d, cls = gen_scalar(rng)
        pub = E.public_key(d)
        want_pub = (b32(pub[0]), b32(pub[1]))
        for bn in BACKENDS:
            k = call(backend(bn).EccKey.from_private_key_bytes, b32(d))
            if k[0] != 'ok':
                r.bad(f'pubkey/mismatch/{bn}/scalar={cls.split("-")[0]}', f'from_private_key_bytes({d:#x}) -> {k}')
                continue
            key = k[1]
            read_pub_first = rng.random() < 0.5
            after = 'first-call'
            peers = []
            for c_i in range(rng.randint(4, 7)):
                if read_pub_first or c_i:
                    got = call(pub_of, key)
                    r.ev('reuse_pubkey_reads')
                    r.check(got == ('ok', want_pub), f'pubkey/reuse/changed/{bn}',
                            f'{bn} key d={d:#x}: public key read after {c_i} dh() calls ({after}) is {show(got[1])}, '
                            f'reference ({pub[0]:#x}, {pub[1]:#x})')
                c = rng.random()
                if peers and c < 0.2:
                    px, py, valid = peers[rng.randrange(len(peers))]  # the same peer again
                    xb, yb = b32(px), b32(py)
                elif c < 0.30 and any(v for _, _, v in peers):
                    # the abscissa of a peer this key object accepted before, with a wrong ordinate
                    px, py, _v = rng.choice([p for p in peers if p[2]])
                    py = (py + rng.randint(1, 5)) % E.P
                    if E.on_curve(px, py):
                        continue
                    xb, yb, valid = b32(px), b32(py), False
                    r.ev('reuse_dh_earlier_x_wrong_y')
                elif c < 0.45:
                    while True:
                        xb, yb, _cls, _kind, px, py = gen_invalid_key(rng)
                        if len(xb) == 32:
                            break
                    valid = False
                else:
                    px, py = gen_valid_point(rng) if rng.random() < 0.5 else E.public_key(gen_scalar(rng)[0])
                    xb, yb, valid = b32(px), b32(py), True
                peers.append((px, py, valid))
                out = call(key.dh, xb, yb)
                r.ev('reuse_dh_calls')
                r.ev('reuse_dh_calls_after_first', 1 if c_i else 0)
                r.ev('reuse_dh_after_rejected_key', 1 if after == 'after-rejected-key' else 0)
                r.ev('oracle_evals')
                if valid:
                    want = E.ecdh(d, px, py)
                    if out != ('ok', want):
                        r.bad(f'dh/reuse/mismatch/{bn}/{after}',
                              f'{bn} key d={d:#x}, dh() call #{c_i + 1} ({after}) with peer ({px:#x}, {py:#x}): '
                              f'{out[0]}:{show(out[1])}, reference {want.hex()}')
                    after = 'after-valid-key'
                else:
                    if out[0] == 'ok':
                        r.bad(f'dh/reuse/invalid-key-accepted/{bn}/{after}',
                              f'{bn} key d={d:#x}, dh() call #{c_i + 1} ({after}) accepted the off-curve / out-of-range '
                              f'peer x={xb.hex()} y={yb.hex()} -> {show(out[1])}')
                    after = 'after-rejected-key'
            r.evals()
            r.sig('reuse-ecc', bn, d)

    # ---- D: the functions called again with an earlier key after other keys ------------
    for i in range(case['fn_runs']):
        ks = [gen_bytes(rng, 16) for _ in range(3)]
        order = [0, 1, 0, 2, 1, 0, 0]
        blk, msg, pr = rng.randbytes(16), rng.randbytes(rng.choice([0, 5, 16, 17, 32, 40])), rng.randbytes(3)
        for bn in BACKENDS:
            m = backend(bn)
            for step, ki in enumerate(order):
                k = ks[ki]
                rep = 'repeat' if ki in order[:step] else 'first-use'
                for name, out, want, args in (
                        ('e', call(m.e, k, blk), S.e_le(k, blk), (k, blk)),
                        ('aes_cmac', call(m.aes_cmac, msg, k), S.aes_cmac(k, msg), (msg, k))):
                    r.ev('oracle_evals')
                    r.ev('reuse_fn_repeats', 1 if rep == 'repeat' else 0)
                    if out != ('ok', want):
                        r.bad(f'{name}/reuse/mismatch/{bn}/{rep}',
                              f'{bn}.{name}({", ".join(show(a) for a in args)}) as call #{step + 1} of a run over 3 keys '
                              f'({rep} of this key): {out[0]}:{show(out[1])}, reference {want.hex()}')
                with patched(bn) as crypto:
                    out = call(crypto.ah, k, pr)
                r.ev('oracle_evals')
                r.ev('reuse_fn_repeats', 1 if rep == 'repeat' else 0)
                if out != ('ok', S.ah_le(k, pr)):
                    r.bad(f'ah/reuse/mismatch/{bn}/{rep}', f'ah({k.hex()}, {pr.hex()}) as call #{step + 1} ({rep}): {out}, '
                          f'reference {S.ah_le(k, pr).hex()}')
    r.sample = sample


# =============================================================================
# debugkey: the Security Manager's key-pair provider over histories of debug_mode
# =============================================================================
def run_debugkey(case, r: R):
    from unittest import mock
    from bumble import smp
    from bumble.device import Device, DeviceConfiguration
    from bumble.pairing import PairingConfig

    rng = random.Random(case['seed'] ^ 0xDB6)
    debug_pub = (b32(E.DEBUG_PUBLIC_X), b32(E.DEBUG_PUBLIC_Y))
    sample = None
    for h in range(case['histories']):
        bn = BACKENDS[(h + case['seed']) % 2]
        start_on = (h // 2) % 3 == 0
        # a history: reads (through the manager / through a new Session) with debug_mode switched between them
        n = rng.randint(4, 10)
        ops = []
        while len(ops) < n:
            ops.append(rng.choice(['read', 'read', 'session', 'toggle', 'toggle', 'set-same']))
        ops += ['read', 'toggle', 'read', 'session']        # every history ends with a switch after a hand-out
        with patched(bn):
            how = rng.choice(['config', 'attribute'])
            if how == 'config':
                device = Device(config=DeviceConfiguration(smp_debug_mode=start_on))
            else:
                device = Device()
                device.smp_manager.debug_mode = start_on
            mgr = device.smp_manager
            on = start_on
            handed_out = False      # a key pair (of either kind) was handed out before
            handed_random = False   # ... a non-debug one
            was_on = start_on
            trail = [f'{how}:debug={"on" if on else "off"}']
            for op in ops:
                if op == 'toggle':
                    on = not on
                    mgr.debug_mode = on
                    was_on = was_on or on
                    trail.append('on' if on else 'off')
                    continue
                if op == 'set-same':
                    mgr.debug_mode = on
                    trail.append('on(again)' if on else 'off(again)')
                    continue
                if op == 'session':
                    got = call(lambda: smp.Session(mgr, mock.MagicMock(), PairingConfig(), False).ecc_key)   # (a responder session: no running loop needed)
                    r.ev('debug_key_reads_through_a_new_session')
                    via = 'new-session'
                else:
                    got = call(lambda: mgr.ecc_key)
                    via = 'manager'
                trail.append(f'{op}')
                state = 'debug-on' if on else 'debug-off'
                hist = ('first-read' if not handed_out else
                        ('after-a-random-key-was-handed-out' if handed_random else 'after-the-debug-key-was-handed-out')) if on \
                    else ('first-read' if not handed_out else ('after-debug-was-on' if was_on else 'after-earlier-reads'))
                r.ev(f'debug_key_reads_with_{"debug_on" if on else "debug_off"}')
                if on and handed_random:
                    r.ev('debug_key_reads_on_after_a_key_was_handed_out')
                if not on and was_on:
                    r.ev('debug_key_reads_off_after_debug_was_on')
                r.ev('oracle_evals')
                where = f'[{bn}] history {" > ".join(trail)}: key read through the {via}'
                key = f'debug-key/{state}/{hist}/{via}/{bn}'
                if got[0] != 'ok' or not isinstance(got[1], backend(bn).EccKey):
                    r.bad(f'{key}/no-key', f'{where} -> {got}')
                    handed_out = True
                    continue
                k = got[1]
                pub = call(pub_of, k)
                if on:
                    if pub != ('ok', debug_pub):
                        r.bad(f'{key}/not-the-debug-key',
                              f'{where} with Debug mode ON has public key {show(pub[1])}; the specification\'s debug '
                              f'public key (Vol 3 Part H 2.3.5.6.1) is {show(debug_pub)}')
                    else:
                        # ... and it really holds the debug private key: DHKey with a generated peer
                        px, py = E.public_key(gen_scalar(rng)[0]) if rng.random() < 0.7 else \
                            (E.BT_P256[0]['bx'], E.BT_P256[0]['by'])
                        dh = call(k.dh, b32(px), b32(py))
                        r.ev('debug_key_dh_checks')
                        r.ev('oracle_evals')
                        if dh != ('ok', E.ecdh(E.DEBUG_PRIVATE, px, py)):
                            r.bad(f'{key}/dhkey-not-the-debug-scalars',
                                  f'{where}: dh(({px:#x}, {py:#x})) -> {dh[0]}:{show(dh[1])}, reference for the debug '
                                  f'private key {E.ecdh(E.DEBUG_PRIVATE, px, py).hex()}')
                else:
                    if pub == ('ok', debug_pub):
                        r.bad(f'{key}/debug-key-in-use',
                              f'{where} with Debug mode OFF is the specification\'s debug key pair')
                    else:
                        d = call(private_value, bn, k)
                        if d[0] == 'ok':
                            wp = E.public_key(d[1])
                            r.ev('debug_key_own_public_key_checks')
                            r.ev('oracle_evals')
                            if pub != ('ok', (b32(wp[0]), b32(wp[1]))):
                                r.bad(f'{key}/public-key-not-of-its-scalar',
                                      f'{where}: public key {show(pub[1])}, the reference derives ({wp[0]:#x}, {wp[1]:#x}) '
                                      f'from its scalar {d[1]:#x}')
                    handed_random = True
                handed_out = True
        r.ev('debug_key_histories')
        r.ev(f'debug_key_histories_{bn}')
        r.evals()
        r.sig('debugkey', bn, how, start_on, tuple(ops))
        sample = {'kind': 'debugkey', 'backend': bn, 'history': trail}
    r.sample = sample


# =============================================================================
RUNNERS = {
    'vectors': run_vectors, 'aes': run_aes, 'aes-sweep': run_aes_sweep, 'cmac-exh': run_cmac_exh,
    'cmac-rand': run_cmac_rand, 'toolbox': run_toolbox, 'ecc': run_ecc, 'points': run_points,
    'invalid': run_invalid, 'session': run_session, 'rpa': run_rpa, 'reuse': run_reuse,
    'debugkey': run_debugkey,
}


def run_case(case, r: R):
    S.selftest()
    E.selftest()
    from bumble import crypto
    r.ev('selected_backend_is_' + ('cryptography' if crypto.e is backend('cryptography').e else
                                   'builtin' if crypto.e is backend('builtin').e else 'unknown'))
    RUNNERS[case['kind']](case, r)


LEVEL_TEXT = ('Three-way differential monitoring: bumble.crypto.builtin and bumble.crypto.cryptography are '
              'imported side by side and each of e, aes_cmac, c1, s1, f4, f5, f6, g2, h6, h7, ah, public-key '
              'derivation and ECDH is evaluated by both on the same generated input next to an independent '
              'reference (FIPS-197/RFC 4493/Core Vol 3 Part H written from the specification, affine P-256 on '
              'ints), plus all published vectors. Quick: 1.5x10^4 e, 4.5x10^3 CMAC (lengths 0..80 exhaustive for '
              '8 keys covering the four sub-key paths), 8.6x10^3 toolbox, 7.4x10^3 ECDH over 1.5x10^3 scalar '
              'pairs and 640 lifted points, 1.9x10^3 invalid peer keys offered to each back end, ~190 keys '
              'through smp.Session, 2.5x10^3 RPAs, 3.9x10^3 lookups on 384 re-used AddressResolver objects (3.5x10^3 of '
              'them after the first) and ~600 dh() calls on re-used key objects; resolving-key identities of all four address '
              'types (~1.7x10^3 resolutions each, value and public/random kind compared with the key\'s identity, plus '
              'can_resolve_to of the result); 192 histories of the Security Manager\'s key-pair provider with Debug mode '
              'switched on and off between ~1.2x10^3 reads (debug public key and DHKey of the debug scalar when on, never '
              'the debug key when off); thorough 2.2x10^5 ECDH, 1.9x10^4 invalid '
              'keys, 3.9x10^4 resolver lookups. Held = no refuting '
              'input among those evaluated; this is sampling of a 2^256-sized space, not proof.')
LEVEL_NOTE = ('Trusted: vlib/ref_smpcrypto.py and vlib/ref_p256.py (self-tested against every published vector '
              'at shard start), CPython big ints, OpenSSL behind the cryptography wheel (it is one of the two '
              'judged back ends, and the reference arbitrates). Key validity is decided by the curve equation '
              'and range check in ref_p256, never by a back end. Real OS entropy is used for generate() and '
              'generate_prand().')
TECHNIQUE = 'runtime monitoring: three-way differential oracle (two back ends + independent reference) and published vectors'
