"""C12 — a GATT client sees exactly the server's database, values and notifications.

Monitors
  tree     the ServiceProxy / included / CharacteristicProxy / DescriptorProxy trees and the
           discover_attributes / discover_service(uuid) lists returned by a bumble client are
           compared with an *independent* layout of the database (vlib/ref_gatt.py: handles
           computed from the order of definition by the GATT layout rule, declaration values
           written from the spec), never with server.attributes
  values   read_value == the current value (long reads), read_characteristics_by_uuid,
           writes (request / command) take effect on the server and are read back
  wire     per-bearer ATT streams parsed by hand from the tapped HCI log (fixed CID 4 and EATT
           K-frames reassembled), ATT_MTU computed from the Exchange MTU PDUs / the credit based
           connection request+response: notification (0x1B) vs indication (0x1D) vs
           confirmation (0x1E) per bearer, truncation to ATT_MTU-3, recipients == subscribed
           bearers (CCCD writes seen on the wire), indicate returns after the confirmation
           reached the server host (host-boundary log order)
  term     a hand-driven adversarial ATT server (RawPeer) answers every discovery procedure
           with non-progressing responses; requests are counted on the wire
"""
from __future__ import annotations

import asyncio
import random
import struct

from vlib import ref_gatt as rg
from vlib import vloop
from vlib.result import R

ID = 'C12'
LEVEL = 'exploration'
RULE = ('seeded cases. db: random database (0-6 services incl. secondary, included, unregistered-included; '
        '0-5 characteristics; 0-3 descriptors; 16/32/128-bit UUIDs mixed; value lengths around k*(MTU-1), '
        'MTU-3, 0..512) x client/server MTU preference 23..517 x optional enhanced bearers x ACL geometry x '
        'delay schedule; non-trivial when the database has >= 1 characteristic and the wire shows a '
        'multi-request discovery or a Read Blob. notif: 1-3 clients x fixed+enhanced bearers x random '
        'subscription sets x every server API form; non-trivial when >= 1 PDU was delivered and >= 1 bearer '
        'was (correctly or not) left out. term: procedure x adversarial strategy; non-trivial when the '
        'adversary answered >= 1 request. distinct = distinct descriptor tuple')
ASSUMPTIONS = [
    'a characteristic with NOTIFY or INDICATE gets a CCCD (0x2902) after its user descriptors (server API contract)',
    'a service included without having been added first must be laid out as its own service definition '
    'before the including service (service definitions never nest, Vol 3 Part G 3.1)',
    'subscription state is per bearer (as the property states); ground truth = last CCCD write seen on that bearer',
    'notify/indicate_subscribers(force=True): recipients must include every subscribed bearer; which '
    'further bearers are reached is not pinned, only their PDU kind and truncation',
    'notify/indicate_subscriber(connection, force=False) addresses every bearer of that connection',
    'writes longer than ATT_MTU-3 (long writes) are not exercised: the server has no Prepare Write',
    'termination: more than 1000 requests or a virtual-time hang is a violation; strategies whose responses '
    'legitimately advance by one handle are only used on ranges of <= 64 handles',
]
MIN_EVENTS = {
    'quick': {'tree_checks': 3000, 'read_checks': 3500, 'read_checks_long': 800, 'write_checks': 600,
              'notif_api_calls': 800, 'wire_notifications': 400, 'wire_indications': 300,
              'confirm_order_checks': 300, 'truncation_checks': 700, 'callback_checks': 700,
              'term_procedures': 600, 'wire_att_pdus': 40000},
    'thorough': {'tree_checks': 90000, 'read_checks': 100000, 'read_checks_long': 24000, 'write_checks': 18000,
                 'notif_api_calls': 24000, 'wire_notifications': 12000, 'wire_indications': 9000,
                 'confirm_order_checks': 9000, 'truncation_checks': 21000, 'callback_checks': 21000,
                 'term_procedures': 18000, 'wire_att_pdus': 1200000},
}
CASE_TIMEOUT = 600

MTUS = [23, 23, 24, 25, 26, 27, 30, 43, 48, 64, 100, 185, 247, 251, 255, 256, 257, 400, 512, 514, 515, 516, 517]
EATT_MTUS = [64, 65, 66, 67, 100, 128, 185, 247, 256, 512, 515, 517, 1024, 2048]
PROCS = ['discover_services', 'discover_service', 'discover_included_services', 'discover_characteristics',
         'discover_descriptors', 'discover_attributes', 'read_characteristics_by_uuid']
STRATEGIES = ['repeat', 'empty', 'first-then-empty', 'backwards', 'backwards-in-response', 'end-before-start',
              'ffff', 'ffff-run', 'zero-length', 'zero-handle', 'short-pdu', 'error-other', 'garbage']
REQUEST_LIMIT = 1000


def plan(tier, seed):
    cases = []
    n_db = 900 if tier == 'quick' else 9000
    n_notif = 528 if tier == 'quick' else 5200
    n_term = 24 if tier == 'quick' else 240
    for i in range(n_db):
        cases.append({'kind': 'db', 'seed': seed * 1000003 + i})
    for i in range(n_notif):
        cases.append({'kind': 'notif', 'seed': seed * 1000003 + i})
    for i in range(n_term):
        for p in PROCS:
            cases.append({'kind': 'term', 'proc': p, 'seed': seed * 1000003 + i})
    return cases


# =============================================================================
# generators
# =============================================================================
def gen_uuid(rng: random.Random, pool: list, w: int | None = None) -> bytes:
    if pool and w is None and rng.random() < 0.18:
        return rng.choice(pool)
    w = w or rng.choice([16, 16, 16, 32, 128, 128])
    while True:
        if w == 16:
            v = rng.choice([rng.randint(0x1800, 0x27FF), rng.randint(0x2A00, 0x2BFF), rng.randint(1, 0xFFFF)])
            u = struct.pack('<H', v)
        elif w == 32:
            u = struct.pack('<I', rng.choice([rng.getrandbits(32), rng.randint(0x10000, 0xFFFFFF), 0xFFFFFFFF]))
        else:
            if rng.random() < 0.12:   # a 128-bit UUID that is a widened 16-bit one
                u = rg.u128(struct.pack('<H', rng.randint(0x1800, 0x27FF)))
            else:
                u = bytes(rng.getrandbits(8) for _ in range(16))
        c = rg.u128(u)
        # never a GATT declaration type or the CCCD type, never all-zero
        if c[:12] == rg.u128(b'\x00\x00')[:12] and c[14:] == b'\x00\x00' and (c[13] in (0x28, 0x29) or c[12:14] == b'\x00\x00'):
            continue
        pool.append(u)
        return u


def gen_len(rng: random.Random, mtu: int) -> int:
    c = [0, 1, 2, mtu - 5, mtu - 4, mtu - 3, mtu - 2, mtu - 1, mtu, mtu + 1, 2 * (mtu - 1) - 1, 2 * (mtu - 1),
         2 * (mtu - 1) + 1, 3 * (mtu - 1), 3 * (mtu - 1) + 1, 251, 252, 253, 254, 511, 512, rng.randint(0, 512),
         rng.randint(0, 64)]
    return max(0, min(512, rng.choice(c)))


def make_value(tag: int, n: int) -> bytes:
    return bytes(((tag * 37 + i * 7 + (i >> 8) * 13 + 1) & 0xFF) for i in range(n))


def gen_db(rng: random.Random, mtu: int, max_services=6, allow_unregistered=True, props_pool=None,
           all_primary=False) -> rg.Db:
    pool: list = []
    n = rng.choice([0, 1, 1, 2, 2, 3, 3, 4, 5, 6])
    n = min(n, max_services)
    services: list[rg.Svc] = []
    top: list[int] = []
    tag = rng.randint(0, 255)
    unregistered = allow_unregistered and rng.random() < 0.12
    for si in range(n):
        chars = []
        for _ci in range(rng.choice([0, 1, 1, 2, 2, 3, 4, 5])):
            descs = []
            for _di in range(rng.choice([0, 0, 0, 1, 1, 2, 3])):
                tag += 1
                descs.append(rg.Desc(gen_uuid(rng, pool), make_value(tag, gen_len(rng, mtu) if rng.random() < 0.3
                                                                      else rng.randint(0, 20))))
            props = rng.choice(props_pool) if props_pool else rng.choice(
                [0x02, 0x0A, 0x0E, 0x12, 0x22, 0x32, 0x3A, 0x8A, rng.randint(0, 255)])
            tag += 1
            chars.append(rg.Char(gen_uuid(rng, pool), props, make_value(tag, gen_len(rng, mtu)),
                                 rng.random() < 0.4, descs))
        includes = []
        if services and rng.random() < 0.45:
            k = rng.randint(1, min(3, len(services)))
            includes = sorted(rng.sample(range(len(services)), k))
        primary = rng.random() < 0.75 or all_primary
        services.append(rg.Svc(gen_uuid(rng, pool), primary, includes, chars))
    # which services are handed to add_service(): all, unless `unregistered` leaves out one that is
    # included by a later service (it then gets registered through the include)
    skip = set()
    if unregistered:
        included = sorted({i for s in services for i in s.includes})
        if included:
            skip.add(rng.choice(included))
    top = [i for i in range(len(services)) if i not in skip]
    return rg.Db(services, top)


def uuid_obj(u: bytes):
    """A bumble UUID of exactly this width, without going through the registry."""
    from bumble.core import UUID
    return UUID(bytes(reversed(u)).hex())


def proxy_uuid(u) -> bytes:
    """Canonical 128-bit LE bytes of a UUID object returned by the client."""
    return rg.u128(bytes(u.uuid_bytes))


def build_server(db: rg.Db, device):
    """Creates the bumble objects for `db` and adds the top-level services in order.
    Returns {id(model obj): bumble attribute}."""
    from bumble import gatt

    objs = {}
    svc_objs = {}
    perms = gatt.Attribute.READABLE | gatt.Attribute.WRITEABLE
    for idx, s in enumerate(db.services):
        chars = []
        for c in s.chars:
            descs = []
            for d in c.user_descs:
                do = gatt.Descriptor(uuid_obj(d.uuid), perms, d.value)
                objs[id(d)] = do
                descs.append(do)
            if c.dynamic:
                def rd(_conn, c=c):
                    return c.value

                def wr(_conn, v, c=c):
                    c.value = bytes(v)

                value = gatt.CharacteristicValue(read=rd, write=wr)
            else:
                value = c.value
            co = gatt.Characteristic(uuid_obj(c.uuid), gatt.Characteristic.Properties(c.props), perms, value, descs)
            objs[id(c)] = co
            chars.append(co)
        so = gatt.Service(uuid_obj(s.uuid), chars, primary=s.primary,
                          included_services=[svc_objs[i] for i in s.includes])
        svc_objs[idx] = so
        objs[id(s)] = so
    for idx in db.top:
        device.add_service(svc_objs[idx])
    return objs


def server_value(objs, model) -> bytes | None:
    """Current value held by the server for a model characteristic/descriptor."""
    if isinstance(model, rg.Char) and model.dynamic:
        return bytes(model.value)
    v = objs[id(model)].value
    return bytes(v) if isinstance(v, (bytes, bytearray)) else None


def set_server_value(objs, model, v: bytes):
    model.value = bytes(v)
    if not (isinstance(model, rg.Char) and model.dynamic):
        objs[id(model)].value = bytes(v)


def make_configs(n, plain: set):
    from bumble import hci
    from bumble.device import DeviceConfiguration
    out = []
    for i in range(n):
        if i in plain:
            c = DeviceConfiguration(gap_service_enabled=False, gatt_service_enabled=False)
            c.address = hci.Address(':'.join([f'{0xE0 + i:02X}'] * 6), hci.Address.RANDOM_DEVICE_ADDRESS)
            c.name = f'dev{i}'
            out.append(c)
        else:
            out.append(None)
    return out


async def call(r: R, key: str, aw, t_v: float = vloop.T_V):
    """(ok, result). A hang or an exception of the code under test is a violation under `key`."""
    try:
        return True, await vloop.vwait(aw, t_v)
    except vloop.Hang as e:
        r.bad(f'{key}/hang', f'{e}')
    except asyncio.CancelledError:
        raise
    except Exception as e:  # noqa: BLE001 — the code under test raised
        r.bad(f'{key}/raised/{type(e).__name__}', f'{type(e).__name__}: {e}')
    return False, None


def first_diff(got: list, exp: list, fields: tuple):
    """Name of the first differing field ('count' when lengths differ and the common prefix agrees)."""
    for i, (g, e) in enumerate(zip(got, exp)):
        for f, gv, ev in zip(fields, g, e):
            if gv != ev:
                return f, i
    if len(got) != len(exp):
        return ('missing' if len(got) < len(exp) else 'extra'), min(len(got), len(exp))
    return None, None


def cmp_list(r: R, key: str, got: list, exp: list, fields: tuple, ctx, uuid_bits=None) -> bool:
    r.ev('tree_checks')
    r.ev('oracle_evals')
    f, i = first_diff(got, exp, fields)
    if f is None:
        return True
    k = f'{key}/{f}'
    if f == 'uuid' and uuid_bits is not None and i < len(uuid_bits):
        k += f'/{uuid_bits[i]}-bit'

    def show(l):
        return [tuple(x.hex() if isinstance(x, bytes) else x for x in t) for t in l[:12]]

    r.bad(k, f'entry {i}: got {show(got)} expected {show(exp)}; {ctx()}')
    return False


class Wire:
    """Incremental ATT wire view of a rig (fed at quiescent points)."""

    def __init__(self, rig_, links):
        from vlib import rig as vrig
        self.vrig = vrig
        self.rig = rig_
        self.att = rg.AttWire(links)
        self.pos = 0

    def add_link(self, a, b):
        self.att.links[a] = b
        self.att.links[b] = a

    def sync(self):
        log = self.rig.hci_log
        recs = self.vrig.l2cap_log(log[self.pos:], direction='h2c')
        self.pos = len(log)
        self.att.feed(recs)


def len_class(n: int, mtu: int) -> str:
    if n < mtu - 1:
        return 'short'
    if n == mtu - 1:
        return 'len=mtu-1'
    if n % (mtu - 1) == 0:
        return 'len=k(mtu-1)'
    return 'long'


# =============================================================================
# db: discovery / read / write
# =============================================================================
async def explore(r: R, client, db: rg.Db, objs, rng: random.Random, mtu: int, tag: str, ctx, full: bool):
    """Runs discovery, reads and writes through one gatt_client.Client and judges them."""
    from bumble import gatt_client  # noqa: F401

    cls = '/unregistered-include' if db.has_unregistered_include else ''
    k_disc = f'discovery{tag}'

    def read_key(key: str, got: bytes, want: bytes) -> str:
        # one mechanism key when the client's idea of the bearer's ATT_MTU is not the negotiated one
        # and the value came back cut short: every kind of long attribute is hit the same way
        if client.mtu != mtu and len(got) < len(want) and want[:len(got)] == got:
            return f'read{tag}/truncated/client-bearer-mtu-not-negotiated'
        return key
    by_handle = {s.handle: s for s in db.services if s.placed}

    # 1. primary services
    ok, services = await call(r, f'{k_disc}/services{cls}', client.discover_services())
    if not ok:
        return False
    got = [(s.handle, s.end_group_handle, proxy_uuid(s.uuid)) for s in services]
    exp = db.primaries()
    bits = [rg.width(s.uuid) for s in sorted(db.services, key=lambda s: s.handle) if s.placed and s.primary]
    # GATT structural rule, independent of where an unregistered include is placed:
    # service definitions never overlap
    r.ev('oracle_evals')
    spans = sorted((s.handle, s.end_group_handle) for s in services)
    for a, b in zip(spans, spans[1:]):
        if b[0] <= a[1]:
            r.bad(f'{k_disc}/services/overlapping-ranges{cls}', f'services {a} and {b} overlap; {ctx()}')
            if cls:
                return False
            break
    if cls:
        # one key for this class: every handle after a misplaced definition differs, so the
        # whole attribute table is compared first and nothing else is judged when it is off
        r.ev('tree_checks')
        r.ev('oracle_evals')
        ok, attrs = await call(r, f'{k_disc}/layout{cls}', client.discover_attributes())
        if not ok:
            return False
        a_got = [(a.handle, proxy_uuid(a.type)) for a in attrs]
        decl_ok = True
        if got == exp and a_got == db.all_attributes():
            # same types at the same handles: the declarations must also be the expected services
            for sv in db.services:
                if sv.placed:
                    ok, v = await call(r, f'{k_disc}/layout{cls}', client.read_value(sv.handle))
                    if not ok or bytes(v) != rg.pdu_uuid(sv.uuid):
                        decl_ok = False
        if got != exp or a_got != db.all_attributes() or not decl_ok:
            r.bad(f'{k_disc}/layout{cls}',
                  f'primary services got {[(h, e) for h, e, _u in got]} expected {[(h, e) for h, e, _u in exp]}; '
                  f'service declarations found at {[h for h, t in a_got if t in (rg.u128(rg.T_PRIMARY), rg.u128(rg.T_SECONDARY))]} '
                  f'expected at {[s.handle for s in sorted(db.services, key=lambda s: s.handle) if s.placed]}; {ctx()}')
            return False
        tree_ok = True
        cls = ''    # the layout is as expected: from here on the class does not matter
    else:
        tree_ok = cmp_list(r, f'{k_disc}/services', got, exp, ('handle', 'end-handle', 'uuid'), ctx, bits)
    if not tree_ok:
        services = []

    # 2-5. walk: included services, characteristics, descriptors (secondary services are reached
    # through the include declarations)
    queue = list(services)
    seen = set()
    char_proxies = {}
    while queue:
        sp = queue.pop(0)
        if sp.handle in seen or sp.handle not in by_handle:
            continue
        seen.add(sp.handle)
        s = by_handle[sp.handle]
        ok, incs = await call(r, f'{k_disc}/included{cls}', client.discover_included_services(sp))
        if ok:
            got = [(i.handle, i.end_group_handle, proxy_uuid(i.uuid)) for i in incs]
            ibits = [rg.width(db.services[i].uuid) for i in s.includes]
            if cmp_list(r, f'{k_disc}/included{cls}', got, db.includes_of(s), ('handle', 'end-handle', 'uuid'),
                        ctx, ibits):
                queue.extend(incs)
                if incs:
                    r.ev('included_services_discovered', len(incs))
        ok, chars = await call(r, f'{k_disc}/characteristics{cls}', client.discover_characteristics([], sp))
        if not ok:
            continue
        got = [(c.handle, c.end_group_handle, proxy_uuid(c.uuid), int(c.properties)) for c in chars]
        cbits = [rg.width(c.uuid) for c in s.chars]
        if not cmp_list(r, f'{k_disc}/characteristics{cls}', got, db.chars_of(s),
                        ('handle', 'end-handle', 'uuid', 'properties'), ctx, cbits):
            continue
        for cp, c in zip(chars, s.chars):
            char_proxies[c.handle] = cp
            ok, descs = await call(r, f'{k_disc}/descriptors{cls}', client.discover_descriptors(cp))
            if ok:
                got = [(d.handle, proxy_uuid(d.type)) for d in descs]
                cmp_list(r, f'{k_disc}/descriptors{cls}', got, db.descs_of(c), ('handle', 'uuid'), ctx,
                         [rg.width(d.uuid) for d in c.descs])
    if tree_ok:
        # every placed service must have been reachable (primary, or included by a reachable one)
        reachable = set()
        front = [s for s in db.services if s.placed and s.primary]
        while front:
            s = front.pop()
            if s.handle in reachable:
                continue
            reachable.add(s.handle)
            front.extend(db.services[i] for i in s.includes)
        r.ev('oracle_evals')
        if not reachable <= seen and not r.violations:
            r.bad(f'{k_disc}/walk-incomplete{cls}', f'reachable {sorted(reachable)} walked {sorted(seen)}; {ctx()}')

    # 6. all attributes
    ok, attrs = await call(r, f'{k_disc}/attributes{cls}', client.discover_attributes())
    if ok:
        got = [(a.handle, proxy_uuid(a.type)) for a in attrs]
        exp = db.all_attributes()
        cmp_list(r, f'{k_disc}/attributes{cls}', got, exp, ('handle', 'uuid'), ctx,
                 [rg.width(db.attrs[h][0]) for h, _ in exp])

    # 7. discover_service(uuid)
    prim = [s for s in db.services if s.placed and s.primary]
    cand = []
    for s in prim:
        same = [t for t in prim if rg.u128(t.uuid) == rg.u128(s.uuid)]
        if all(rg.pdu_uuid(t.uuid) == rg.pdu_uuid(s.uuid) for t in same) and s.uuid not in cand:
            cand.append(s.uuid)
    rng.shuffle(cand)
    absent = bytes(rng.getrandbits(8) for _ in range(16))
    for u in cand[:3 if full else 1] + [absent]:
        ok, found = await call(r, f'{k_disc}/service-by-uuid{cls}', client.discover_service(uuid_obj(u)))
        if ok:
            got = [(s.handle, s.end_group_handle) for s in found]
            exp = [(s.handle, s.end) for s in sorted(prim, key=lambda s: s.handle) if rg.u128(s.uuid) == rg.u128(u)]
            cmp_list(r, f'{k_disc}/service-by-uuid{cls}/{rg.width(u)}-bit', got, exp, ('handle', 'end-handle'), ctx)

    # 8. characteristics by uuid, in one service and over all known services
    if tree_ok and services and full:
        sp = rng.choice(services)
        s = by_handle[sp.handle]
        if s.chars:
            u = rng.choice(s.chars).uuid
            ok, chars = await call(r, f'{k_disc}/characteristics-by-uuid{cls}',
                                   client.discover_characteristics([uuid_obj(u)], sp))
            if ok:
                got = [(c.handle, c.end_group_handle, int(c.properties)) for c in chars]
                exp = [(c.handle, c.end, c.props & 0xFF) for c in s.chars if rg.u128(c.uuid) == rg.u128(u)]
                cmp_list(r, f'{k_disc}/characteristics-by-uuid{cls}', got, exp,
                         ('handle', 'end-handle', 'properties'), ctx)
        ok, chars = await call(r, f'{k_disc}/characteristics-all{cls}', client.discover_characteristics([], None))
        if ok:
            got = [(c.handle, c.end_group_handle) for c in chars]
            exp = [(c.handle, c.end) for sp in client.services if sp.handle in by_handle
                   for c in by_handle[sp.handle].chars]
            cmp_list(r, f'{k_disc}/characteristics-all{cls}', got, exp, ('handle', 'end-handle'), ctx)

    # 9. reads: every characteristic value (bounded), a sample of the other attributes
    handles = [h for h in sorted(db.attrs) if db.attrs[h][1] == 'value']
    rng.shuffle(handles)
    handles = handles[:10 if full else 5]
    others = [h for h in sorted(db.attrs) if db.attrs[h][1] != 'value']
    rng.shuffle(others)
    handles += others[:6 if full else 2]
    for h in handles:
        kind = db.attrs[h][1]
        exp = db.expected_value(h)
        lc = len_class(len(exp), mtu)
        sub = ''
        if kind == 'include':
            sub = f'/{rg.width(db.services[db.attrs[h][2][1]].uuid)}-bit'
        key = f'read{tag}/{kind}{sub}/{lc}'
        target = char_proxies.get(h, h) if rng.random() < 0.5 else h
        ok, v = await call(r, key, client.read_value(target))
        r.ev('read_checks')
        if lc != 'short':
            r.ev('read_checks_long')
        if ok:
            r.check(bytes(v) == exp, read_key(key, bytes(v), exp),
                    lambda: f'handle {h} ({kind}): read {len(v)} bytes {bytes(v)[:24].hex()}.. expected {len(exp)} bytes '
                            f'{exp[:24].hex()}..; first difference at '
                            f'{next((i for i in range(min(len(v), len(exp))) if v[i] != exp[i]), min(len(v), len(exp)))}; {ctx()}')

    # 10. read using characteristic UUID
    val_handles = [h for h in sorted(db.attrs) if db.attrs[h][1] == 'value']
    if val_handles:
        for _ in range(2 if full else 1):
            u = db.attrs[rng.choice(val_handles)][0]
            scope = None
            lo, hi = 1, 0xFFFF
            if services and rng.random() < 0.5:
                scope = rng.choice(services)
                lo, hi = scope.handle, scope.end_group_handle
            ok, vals = await call(r, f'read-by-uuid{tag}', client.read_characteristics_by_uuid(uuid_obj(u), scope))
            if ok:
                limit = min(mtu - 4, 253)
                exp = [db.expected_value(h)[:limit] for h in sorted(db.attrs)
                       if lo <= h <= hi and rg.u128(db.attrs[h][0]) == rg.u128(u)]
                r.ev('read_checks')
                r.check([bytes(v) for v in vals] == exp, f'read-by-uuid{tag}/{rg.width(u)}-bit',
                        lambda: f'got lengths {[len(v) for v in vals]} expected {[len(v) for v in exp]} '
                                f'(uuid {u.hex()}, range {lo}-{hi}); {ctx()}')

    # 11. writes (<= ATT_MTU-3), then the server changes a value and the client reads again
    writable = [h for h in sorted(db.attrs) if db.attrs[h][1] in ('value', 'desc')]
    rng.shuffle(writable)
    for h in writable[:4 if full else 2]:
        model = db.attrs[h][2]
        n = max(0, min(512, rng.choice([0, 1, 2, mtu - 4, mtu - 3, mtu - 3, rng.randint(0, mtu - 3)])))
        data = make_value(rng.randint(0, 255), n)
        with_response = rng.random() < 0.5
        how = 'request' if with_response else 'command'
        key = f'write{tag}/{how}/{db.attrs[h][1]}'
        target = char_proxies.get(h, h) if rng.random() < 0.5 else h
        ok, _ = await call(r, key, client.write_value(target, data, with_response))
        if not ok:
            continue
        await ctx.rig.quiesce()
        model.value = data if not (isinstance(model, rg.Char) and model.dynamic) else model.value
        sv = server_value(objs, model)
        r.ev('write_checks')
        if r.check(sv == data, f'{key}/no-effect',
                   lambda: f'handle {h}: wrote {n} bytes {data[:16].hex()}, server holds '
                           f'{None if sv is None else (len(sv), sv[:16].hex())}; {ctx()}'):
            ok, v = await call(r, f'{key}/read-back', client.read_value(h))
            r.ev('read_checks')
            if ok:
                r.check(bytes(v) == data, f'{key}/read-back', lambda: f'handle {h}: wrote {data.hex()} read {bytes(v).hex()}')
        else:
            model.value = sv if sv is not None else data
    for h in val_handles[:2 if full else 1]:
        model = db.attrs[h][2]
        new = make_value(rng.randint(0, 255), gen_len(rng, mtu))
        set_server_value(objs, model, new)
        lc = len_class(len(new), mtu)
        key = f'read{tag}/value-after-change/{lc}'
        ok, v = await call(r, key, client.read_value(h))
        r.ev('read_checks')
        if lc != 'short':
            r.ev('read_checks_long')
        if ok:
            r.check(bytes(v) == new, read_key(key, bytes(v), new),
                    lambda: f'handle {h}: read {len(v)} bytes, current value has {len(new)}; {ctx()}')
    return tree_ok


class Ctx:
    def __init__(self, rig_, text):
        self.rig = rig_
        self.text = text

    def __call__(self):
        return self.text


async def db_case(case, r: R):
    from bumble import att, gatt_client, l2cap
    from bumble.device import Peer
    from vlib import rig as vrig

    rng = random.Random(case['seed'])
    vrig.seed_entropy(case['seed'])
    c_mtu = rng.choice([None, None] + MTUS + [rng.randint(23, 517)])
    s_mtu = rng.choice(MTUS + [rng.randint(23, 517)])
    mtu = 23 if c_mtu is None else min(c_mtu, s_mtu)
    db = gen_db(rng, mtu)
    eatt = rng.random() < 0.35
    es_mtu = rng.choice(EATT_MTUS)
    ec_mtu = rng.choice(EATT_MTUS)
    e_count = rng.choice([1, 1, 2])
    e_mps = rng.choice([64, 251, 2048])
    delay = rng.choice([0, 0, 1, 3])
    lens = [rng.choice([27, 27, 64, 251]) for _ in range(2)]
    rig_ = vrig.Rig(2, seed=case['seed'], max_delay=delay, le_acl_len=lens, configs=make_configs(2, {0}))
    srv = rig_.devices[0]
    objs = build_server(db, srv)
    srv.gatt_server.max_mtu = s_mtu
    if eatt:
        srv.gatt_server.register_eatt(l2cap.LeCreditBasedChannelSpec(psm=att.EATT_PSM, mtu=es_mtu, mps=e_mps))
    await rig_.power_on()
    client_central = rng.random() < 0.5
    if client_central:
        cconn, sconn = await rig_.connect_le(1, 0)
    else:
        sconn, cconn = await rig_.connect_le(0, 1)
    wire = Wire(rig_, {(0, sconn.handle): (1, cconn.handle), (1, cconn.handle): (0, sconn.handle)})
    desc = (f'seed={case["seed"]} c_mtu={c_mtu} s_mtu={s_mtu} mtu={mtu} acl={lens} delay={delay} '
            f'db={db.describe()}')
    ctx = Ctx(rig_, desc)
    peer = Peer(cconn)
    if c_mtu is not None:
        ok, got = await call(r, 'mtu/exchange', peer.request_mtu(c_mtu))
        await rig_.quiesce()
        if ok:
            r.check(got == mtu and cconn.att_mtu == mtu and sconn.att_mtu == mtu, 'mtu/agreement/fixed',
                    f'client asked {c_mtu}, server max {s_mtu}: request_mtu returned {got}, client bearer '
                    f'{cconn.att_mtu}, server bearer {sconn.att_mtu}, expected {mtu}')
    tree_ok = await explore(r, peer.gatt_client, db, objs, rng, mtu, '', ctx, True)
    await rig_.quiesce()
    wire.sync()
    fixed = wire.att.fixed(1, cconn.handle)
    r.check(fixed.mtu == mtu, 'mtu/wire/fixed', f'Exchange MTU on the wire gives {fixed.mtu}, expected {mtu}')

    e_mtu = None
    if eatt:
        e_mtu = min(es_mtu, ec_mtu)
        ok, clients = await call(r, 'eatt/connect', gatt_client.Client.connect_eatt(
            cconn, l2cap.LeCreditBasedChannelSpec(psm=att.EATT_PSM, mtu=ec_mtu, mps=e_mps), e_count))
        if ok:
            if not isinstance(clients, list):
                clients = [clients]
            await rig_.quiesce()
            wire.sync()
            for ci, ecl in enumerate(clients):
                wb = wire.att.eatt(1, cconn.handle, ecl.bearer.source_cid)
                if wb is None:
                    raise RuntimeError('enhanced bearer not found on the wire')
                r.check(wb.mtu == e_mtu, 'mtu/wire/eatt', f'wire {wb.mtu} expected {e_mtu}')
                sch = [ch for ch in srv.l2cap_channel_manager.le_coc_channels.get(sconn.handle, {}).values()
                       if ch.source_cid == wb.s_cid]
                s_att = sch[0].att_mtu if sch else None
                r.check(ecl.mtu == e_mtu and s_att == e_mtu, 'mtu/agreement/eatt',
                        f'enhanced bearer with MTU {ec_mtu} (client) / {es_mtu} (server): ATT_MTU must be {e_mtu}; '
                        f'client bearer says {ecl.mtu}, server bearer says {s_att}')
                ectx = Ctx(rig_, desc + f' eatt(c={ec_mtu},s={es_mtu},mps={e_mps})')
                if tree_ok:
                    await explore(r, ecl, db, objs, rng, e_mtu, '/eatt', ectx, ci == 0)
    await rig_.quiesce()
    wire.sync()
    # what the wire looked like (non-triviality + evidence)
    n_pdus = sum(len(b.pdus) for b in wire.att.bearers.values())
    blobs = sum(1 for b in wire.att.bearers.values() for p in b.pdus if p[2][:1] == bytes([rg.OP_READ_BLOB_REQ]))
    groups = sum(1 for p in fixed.pdus if p[2][:1] == bytes([rg.OP_READ_BY_GROUP_REQ]))
    r.ev('wire_att_pdus', n_pdus)
    r.ev('wire_read_blob_requests', blobs)
    # every PDU on every bearer within the ATT_MTU in force (reads/discovery of this workload only)
    for b in wire.att.bearers.values():
        for _seq, sender, pdu, m in b.pdus:
            if sender == 0:
                r.ev('oracle_evals')
                if len(pdu) > m:
                    r.bad(f'wire/server-pdu-exceeds-mtu/{b.kind}', f'opcode {pdu[0]:#x} of {len(pdu)} bytes with ATT_MTU {m}')
    for where, e in rig_.exceptions:
        r.bad('exception-in-stack/db', f'{where}: {e}')
    nchars = sum(len(s.chars) for s in db.services if s.placed)
    if nchars and (blobs or groups > 2):
        r.sig('db', c_mtu, s_mtu, eatt and (ec_mtu, es_mtu), repr(db.describe()))
    r.sched.add(rig_.schedule_signature)
    r.evals()
    r.sample = {'kind': 'db', 'c_mtu': c_mtu, 's_mtu': s_mtu, 'att_mtu': mtu, 'eatt_mtu': e_mtu,
                'client_is_central': client_central, 'acl_len': lens, 'delay': delay,
                'attributes': db.last_handle, 'unregistered_include': db.has_unregistered_include,
                'db': db.describe()[:4], 'att_pdus': n_pdus, 'read_blob_requests': blobs}


# =============================================================================
# notif: who gets what, as which PDU, how long, and when indicate returns
# =============================================================================
class HB:
    """One client bearer as the harness sees it."""

    def __init__(self, idx, dev, kind, client, cconn, sconn):
        self.idx = idx
        self.dev = dev
        self.kind = kind               # 'fixed' | 'eatt'
        self.client = client
        self.cconn = cconn
        self.sconn = sconn
        self.server_bearer = None
        self.wire: rg.WireBearer | None = None
        self.seen = 0                  # PDUs of self.wire already consumed
        self.proxies = {}              # value handle -> CharacteristicProxy
        self.cccd = {}                 # value handle -> last CCCD value written on this bearer (wire)
        self.cbs = {}                  # value handle -> {'n': count, 'i': count}
        self.cb_log = []               # (value handle, kind, value)

    @property
    def name(self):
        return f'b{self.idx}:{self.kind}@dev{self.dev}'


async def notif_case(case, r: R):
    from bumble import att, gatt_client, l2cap
    from bumble.device import Peer
    from vlib import rig as vrig

    rng = random.Random(case['seed'])
    vrig.seed_entropy(case['seed'])
    n_clients = rng.choice([1, 2, 2, 2, 3])
    s_mtu = rng.choice(MTUS)
    es_mtu = rng.choice(EATT_MTUS)
    ref_mtu = rng.choice([23, s_mtu, min(es_mtu, 517)])
    db = gen_db(rng, ref_mtu, max_services=2, allow_unregistered=False,
                props_pool=[0x10, 0x12, 0x20, 0x22, 0x30, 0x30, 0x32, 0x3A, 0x02], all_primary=True)
    subs = [c for s in db.services if s.placed for c in s.chars]
    if not any(c.cccd for c in subs):
        # make sure there is something to subscribe to
        c = rg.Char(gen_uuid(rng, []), 0x32, make_value(7, gen_len(rng, ref_mtu)), rng.random() < 0.4, [])
        db = rg.Db([rg.Svc(gen_uuid(rng, []), True, [], [c])], [0])
        subs = [c]
    delay = rng.choice([0, 0, 1, 2, 5])
    n = 1 + n_clients
    rig_ = vrig.Rig(n, seed=case['seed'], max_delay=delay,
                    le_acl_len=[rng.choice([27, 64, 251]) for _ in range(n)], configs=make_configs(n, {0}))
    srv = rig_.devices[0]
    server = srv.gatt_server
    objs = build_server(db, srv)
    server.max_mtu = s_mtu
    server.register_eatt(l2cap.LeCreditBasedChannelSpec(psm=att.EATT_PSM, mtu=es_mtu))
    await rig_.power_on()
    wire = Wire(rig_, {})
    bearers: list[HB] = []
    setup = []
    for k in range(1, n):
        if rng.random() < 0.5:
            cconn, sconn = await rig_.connect_le(k, 0)
        else:
            sconn, cconn = await rig_.connect_le(0, k)
        wire.add_link((0, sconn.handle), (k, cconn.handle))
        c_mtu = rng.choice([None] + MTUS)
        if c_mtu is not None:
            await vloop.vwait(Peer(cconn).request_mtu(c_mtu))
        hb = HB(len(bearers), k, 'fixed', cconn.gatt_client, cconn, sconn)
        hb.server_bearer = sconn
        bearers.append(hb)
        n_e = rng.choice([0, 0, 1, 1, 2])
        ec_mtu = rng.choice(EATT_MTUS)
        setup.append((k, c_mtu, n_e, ec_mtu))
        if n_e:
            ecl = await vloop.vwait(gatt_client.Client.connect_eatt(
                cconn, l2cap.LeCreditBasedChannelSpec(psm=att.EATT_PSM, mtu=ec_mtu), n_e))
            for cl in (ecl if isinstance(ecl, list) else [ecl]):
                bearers.append(HB(len(bearers), k, 'eatt', cl, cconn, sconn))
    await rig_.quiesce()
    wire.sync()
    for hb in bearers:
        if hb.kind == 'fixed':
            hb.wire = wire.att.fixed(hb.dev, hb.cconn.handle)
        else:
            hb.wire = wire.att.eatt(hb.dev, hb.cconn.handle, hb.client.bearer.source_cid)
            if hb.wire is None:
                raise RuntimeError('enhanced bearer not found on the wire')
            chans = [ch for ch in srv.l2cap_channel_manager.le_coc_channels.get(hb.sconn.handle, {}).values()
                     if ch.source_cid == hb.wire.s_cid]
            if len(chans) != 1:
                raise RuntimeError(f'server end of enhanced bearer not found ({len(chans)})')
            hb.server_bearer = chans[0]
    # each bearer discovers the characteristics it will subscribe to
    for hb in bearers:
        svcs = await vloop.vwait(hb.client.discover_services())
        for sp in svcs:
            for cp in await vloop.vwait(hb.client.discover_characteristics([], sp)):
                hb.proxies[cp.handle] = cp
        for c in subs:
            hb.cbs[c.handle] = {'n': 0, 'i': 0}
            if c.handle not in hb.proxies:
                r.bad('notif/setup/characteristic-not-discovered', f'{hb.name}: value handle {c.handle} missing')
                return
    cccd_handles = {c.cccd.handle: c for c in subs if c.cccd}

    def absorb():
        """Consume new wire PDUs of every bearer: returns {bearer idx: [(seq, sender, pdu)]} and
        keeps the CCCD ground truth up to date."""
        wire.sync()
        out = {}
        for hb in bearers:
            new = hb.wire.pdus[hb.seen:]
            hb.seen = len(hb.wire.pdus)
            out[hb.idx] = new
            for _seq, sender, pdu, _m in new:
                if sender != 0 and pdu[:1] in (b'\x12', b'\x52') and len(pdu) == 5:
                    h = struct.unpack_from('<H', pdu, 1)[0]
                    if h in cccd_handles:
                        hb.cccd[cccd_handles[h].handle] = pdu[3] | (pdu[4] << 8)
        return out

    absorb()

    def ctx():
        return (f'seed={case["seed"]} s_mtu={s_mtu} eatt_server_mtu={es_mtu} clients={setup} '
                f'bearers={[(b.name, b.wire.mtu) for b in bearers]} '
                f'chars={[(c.handle, hex(c.props), len(c.value)) for c in subs]}')

    async def do_subscribe(hb: HB, c: rg.Char, prefer_notify: bool):
        if c.props & rg.P_NOTIFY and c.props & rg.P_INDICATE:
            kind = 'n' if prefer_notify else 'i'
        elif c.props & rg.P_NOTIFY:
            kind = 'n'
        else:
            kind = 'i'

        def cb(v, hb=hb, h=c.handle, kind=kind):
            hb.cb_log.append((h, kind, bytes(v)))

        ok, _ = await call(r, f'subscribe/{hb.kind}', hb.client.subscribe(hb.proxies[c.handle], cb, prefer_notify))
        await rig_.quiesce()
        absorb()
        if ok:
            hb.cbs[c.handle][kind] += 1
            want = 1 if kind == 'n' else 2
            r.check(hb.cccd.get(c.handle) == want, f'subscribe/cccd-on-wire/{hb.kind}',
                    lambda: f'{hb.name}: subscribe(prefer_notify={prefer_notify}) on props {c.props:#x} wrote CCCD '
                            f'{hb.cccd.get(c.handle)} expected {want}; {ctx()}')
            r.ev('subscriptions')

    async def do_unsubscribe(hb: HB, c: rg.Char):
        had = hb.cbs[c.handle]['n'] + hb.cbs[c.handle]['i']
        ok, _ = await call(r, f'unsubscribe/{hb.kind}', hb.client.unsubscribe(hb.proxies[c.handle]))
        await rig_.quiesce()
        absorb()
        if ok:
            hb.cbs[c.handle] = {'n': 0, 'i': 0}
            if had:
                r.check(hb.cccd.get(c.handle) == 0, f'unsubscribe/cccd-on-wire/{hb.kind}',
                        lambda: f'{hb.name}: after unsubscribe the last CCCD write is {hb.cccd.get(c.handle)}; {ctx()}')
            r.ev('unsubscriptions')

    async def do_raw_cccd(hb: HB, c: rg.Char, value: int):
        ok, _ = await call(r, f'cccd-write/{hb.kind}',
                           hb.client.write_value(c.cccd.handle, struct.pack('<H', value), True))
        await rig_.quiesce()
        absorb()

    with_cccd = [c for c in subs if c.cccd]
    for hb in bearers:
        for c in with_cccd:
            if rng.random() < 0.55:
                await do_subscribe(hb, c, rng.random() < 0.5)

    delivered = suppressed = 0
    steps = rng.randint(8, 16)
    sample_steps = []
    for _step in range(steps):
        op = rng.choices(['api', 'sub', 'unsub', 'both'], [12, 1.5, 1.0, 0.8])[0]
        hb = rng.choice(bearers)
        if op == 'sub':
            await do_subscribe(hb, rng.choice(with_cccd), rng.random() < 0.5)
            continue
        if op == 'unsub':
            await do_unsubscribe(hb, rng.choice(with_cccd))
            continue
        if op == 'both':
            await do_raw_cccd(hb, rng.choice(with_cccd), 3)
            continue
        api = rng.choice(['notify_subscriber', 'indicate_subscriber', 'notify_subscribers', 'indicate_subscribers'])
        force = rng.random() < 0.35
        c = rng.choice(with_cccd) if rng.random() < 0.9 else rng.choice(subs)
        attr = objs[id(c)]
        K = 'n' if api.startswith('notify') else 'i'
        bit = 1 if K == 'n' else 2
        want_op = rg.OP_NOTIFY if K == 'n' else rg.OP_INDICATE
        single = api.endswith('subscriber')
        if rng.random() < 0.3:
            value = None
            full = bytes(c.value)
        else:
            m = rng.choice(bearers).wire.mtu
            value = make_value(rng.randint(0, 255), max(0, min(512, rng.choice(
                [0, 1, m - 4, m - 3, m - 2, m - 1, m, 2 * m, 512, rng.randint(0, 512)]))))
            full = value
        sub_now = {b.idx for b in bearers if b.cccd.get(c.handle, 0) & bit}
        if single:
            if force:
                exact = {hb.idx}
            elif hb.kind == 'eatt':
                exact = {hb.idx} & sub_now
            else:
                exact = {b.idx for b in bearers if b.sconn is hb.sconn} & sub_now
            must = exact
        else:
            exact = None if force else set(sub_now)
            must = set(sub_now)
        cls = f'{hb.kind}/' if single else ''
        fcls = 'force' if force else 'noforce'
        b0 = len(rig_.boundary_log)
        for b in bearers:
            b.cb_log.clear()
        if single:
            aw = getattr(server, api)(hb.server_bearer, attr, value, force)
        else:
            aw = getattr(server, api)(attr, value, force)
        ok, _ = await call(r, f'delivery/{api}/{cls}{fcls}', aw)
        b1 = len(rig_.boundary_log)
        await rig_.quiesce()
        r.ev('notif_api_calls')
        r.ev(f'api_{api}_{fcls}')
        new = absorb()
        if not ok:
            continue
        confirm_pos = {}
        if K == 'i':
            # where (in host-boundary order) each confirmation reached the server's host
            for seq, _d, _dir, handle, cid, payload in vrig.l2cap_log(rig_.boundary_log[b0:], dev=0, direction='c2h'):
                for b in bearers:
                    if handle != b.sconn.handle:
                        continue
                    if (b.kind == 'fixed' and cid == rg.ATT_CID and payload == b'\x1e') or \
                       (b.kind == 'eatt' and cid == b.wire.s_cid and payload == b'\x01\x00\x1e'):
                        confirm_pos.setdefault(b.idx, seq)
        step_rec = {'api': api, 'force': force, 'target': hb.name if single else None, 'char': c.handle,
                    'value_len': len(full), 'subscribed': sorted(sub_now), 'got': {}}
        for b in bearers:
            bcls = f'{b.kind}/{fcls}'
            sent = [(seq, pdu) for seq, sender, pdu, _m in new[b.idx]
                    if sender == 0 and pdu[:1] in (b'\x1b', b'\x1d') and len(pdu) >= 3
                    and struct.unpack_from('<H', pdu, 1)[0] == c.handle]
            confs = [seq for seq, sender, pdu, _m in new[b.idx] if sender != 0 and pdu == b'\x1e']
            stray = [pdu[0] for _seq, sender, pdu, _m in new[b.idx]
                     if sender == 0 and pdu[:1] in (b'\x1b', b'\x1d') and len(pdu) >= 3
                     and struct.unpack_from('<H', pdu, 1)[0] != c.handle]
            r.ev('oracle_evals')
            if stray:
                r.bad(f'delivery/{api}/other-handle/{bcls}', f'{b.name} got PDUs for another handle: {stray}; {ctx()}')
            r.ev('wire_notifications', sum(1 for _s, p in sent if p[0] == rg.OP_NOTIFY))
            r.ev('wire_indications', sum(1 for _s, p in sent if p[0] == rg.OP_INDICATE))
            if sent:
                step_rec['got'][b.name] = [hex(p[0]) for _s, p in sent]
            expected_here = b.idx in must
            r.ev('oracle_evals')
            if expected_here and not sent:
                r.bad(f'delivery/{api}/missed/{bcls}',
                      f'{b.name} is subscribed (CCCD {b.cccd.get(c.handle)}) to handle {c.handle} but got nothing from '
                      f'{api}(target={hb.name if single else "all"}, force={force}); {ctx()}')
                continue
            if exact is not None and b.idx not in exact and sent:
                r.bad(f'delivery/{api}/to-unsubscribed/{bcls}',
                      f'{b.name} (CCCD {b.cccd.get(c.handle)}) got {[p.hex()[:12] for _s, p in sent]} from '
                      f'{api}(target={hb.name if single else "all"}, force={force}); {ctx()}')
                continue
            if not sent:
                if b.idx in sub_now or exact is not None:
                    suppressed += 1
                # nothing sent: no callback may have fired
                r.ev('oracle_evals')
                if b.cb_log:
                    r.bad(f'callback/spurious/{bcls}', f'{b.name}: callbacks {b.cb_log[:3]} without any PDU; {ctx()}')
                continue
            delivered += 1
            r.ev('oracle_evals')
            if len(sent) != 1:
                r.bad(f'delivery/{api}/duplicated/{bcls}', f'{b.name} got {len(sent)} PDUs for one call; {ctx()}')
                continue
            seq, pdu = sent[0]
            r.ev('oracle_evals')
            if pdu[0] != want_op:
                r.bad(f'delivery/{api}/wrong-kind/{bcls}',
                      f'{api}(target={hb.name if single else "all"}, force={force}) put opcode {pdu[0]:#x} on {b.name} '
                      f'instead of {want_op:#x}; {ctx()}')
                continue
            m = b.wire.mtu
            exp_v = full[:m - 3]
            tcls = 'longer' if len(full) > m - 3 else 'fits'
            r.ev('truncation_checks')
            r.check(pdu[3:] == exp_v, f'truncation/{api}/{b.kind}/{tcls}',
                    lambda: f'{b.name} ATT_MTU {m}: value of {len(full)} bytes arrived as {len(pdu) - 3} bytes '
                            f'(expected {len(exp_v)}); {ctx()}')
            if K == 'i':
                r.ev('oracle_evals')
                if len(confs) != 1:
                    r.bad(f'indication/confirmations/{b.kind}', f'{b.name}: {len(confs)} confirmations for one indication; {ctx()}')
                r.ev('confirm_order_checks')
                pos = confirm_pos.get(b.idx)
                r.ev('oracle_evals')
                if pos is None or pos >= b1:
                    r.bad(f'indication/returned-before-confirmation/{api}/{bcls}',
                          f'{api} returned at host-boundary index {b1}; the confirmation of {b.name} reached the '
                          f'server host at {pos}; {ctx()}')
            # client side: the registered callbacks of that kind fire once each with the exact value
            n_cb = b.cbs.get(c.handle, {}).get(K, 0)
            got_cb = [v for h, k, v in b.cb_log if h == c.handle and k == K]
            other_cb = [x for x in b.cb_log if not (x[0] == c.handle and x[1] == K)]
            r.ev('callback_checks')
            r.ev('oracle_evals')
            if len(got_cb) != n_cb or other_cb:
                r.bad(f'callback/count/{b.kind}/{"notification" if K == "n" else "indication"}',
                      f'{b.name}: {len(got_cb)} callbacks for {n_cb} registered subscribers (others fired: '
                      f'{len(other_cb)}); {ctx()}')
            elif any(v != pdu[3:] for v in got_cb):
                r.bad(f'callback/value/{b.kind}', f'{b.name}: callback values differ from the PDU value; {ctx()}')
        if len(sample_steps) < 4:
            sample_steps.append(step_rec)

    await rig_.quiesce()
    wire.sync()
    r.ev('wire_att_pdus', sum(len(b.pdus) for b in wire.att.bearers.values()))
    for hb in bearers:
        sa = hb.server_bearer.att_mtu
        r.check(sa == hb.wire.mtu, f'mtu/agreement/server/{hb.kind}',
                f'{hb.name}: wire ATT_MTU {hb.wire.mtu}, server bearer att_mtu {sa}')
    for where, e in rig_.exceptions:
        r.bad('exception-in-stack/notif', f'{where}: {e}')
    if delivered and suppressed:
        r.sig('notif', n_clients, s_mtu, es_mtu, tuple(setup), steps, case['seed'] % 997)
    r.sched.add(rig_.schedule_signature)
    r.evals()
    r.sample = {'kind': 'notif', 'clients': n_clients, 'server_max_mtu': s_mtu, 'eatt_server_mtu': es_mtu,
                'bearers': [(b.name, b.wire.mtu) for b in bearers], 'delay': delay,
                'chars': [(c.handle, hex(c.props), len(c.value)) for c in subs][:6],
                'delivered': delivered, 'suppressed': suppressed, 'steps': sample_steps}


# =============================================================================
# term: adversarial server
# =============================================================================
class Adversary:
    def __init__(self, raw, proc: str, strategy: str, rng: random.Random, bounded: bool):
        self.raw = raw
        self.proc = proc
        self.strategy = strategy
        self.rng = rng
        self.bounded = bounded
        self.requests = 0
        self.answered = 0
        self.first = None
        self.s0 = None
        self.ops = set()
        self.variant = rng.randint(0, 3)

    def value_for(self, h: int) -> bytes:
        if self.proc == 'discover_included_services':
            return struct.pack('<HHH', (h + 1) & 0xFFFF, (h + 3) & 0xFFFF, 0x1811)
        if self.proc == 'discover_characteristics':
            return struct.pack('<BHH', 0x0A, (h + 1) & 0xFFFF, 0x2A19)
        return b'\x11\x22\x33'

    def valid(self, op: int, handles, end_of=None) -> bytes:
        if op == rg.OP_READ_BY_GROUP_REQ:
            return rg.read_by_group_rsp([(h, (end_of(h) if end_of else h), b'\x0f\x18') for h in handles])
        if op == rg.OP_FIND_BY_TYPE_REQ:
            return rg.find_by_type_rsp([(h, (end_of(h) if end_of else h)) for h in handles])
        if op == rg.OP_READ_BY_TYPE_REQ:
            return rg.read_by_type_rsp([(h, self.value_for(h)) for h in handles])
        if op == rg.OP_FIND_INFO_REQ:
            return rg.find_info_rsp([(h, b'\x01\x29') for h in handles])
        return rg.error_rsp(op, 0, rg.ERR_UNLIKELY)

    def on_pdu(self, handle, cid, pdu):
        if cid != rg.ATT_CID or not pdu or not rg.is_request(pdu[0]):
            return
        self.requests += 1
        self.ops.add(pdu[0])
        if self.requests > REQUEST_LIMIT + 100:
            return   # stop answering: the client's own request timer ends the procedure
        rsp = self.respond(pdu[0], pdu)
        if rsp is not None:
            self.answered += 1
            self.raw.send(handle, rg.ATT_CID, rsp)

    def respond(self, op: int, pdu: bytes):
        if op == rg.OP_READ_REQ:
            return bytes([rg.OP_READ_RSP]) + bytes(range(16))
        if op not in (rg.OP_READ_BY_GROUP_REQ, rg.OP_FIND_BY_TYPE_REQ, rg.OP_READ_BY_TYPE_REQ, rg.OP_FIND_INFO_REQ) \
                or len(pdu) < 5:
            return rg.error_rsp(op, 0, 0x06)
        s, e = struct.unpack_from('<HH', pdu, 1)
        if self.s0 is None:
            self.s0 = s
        k = self.requests
        st = self.strategy

        def clip(hs):
            return [min(max(h, 0), 0xFFFF) for h in hs]

        if st == 'repeat':
            if self.first is None:
                self.first = self.valid(op, clip([s, s + 1, s + 2]))
            return self.first
        if st == 'empty':
            return self.valid(op, [])
        if st == 'first-then-empty':
            return self.valid(op, clip([s, s + 1])) if k == 1 else self.valid(op, [])
        if st == 'backwards':
            return self.valid(op, clip([self.s0 + 40 - 2 * k]))
        if st == 'backwards-in-response':
            if self.bounded:
                return self.valid(op, clip([min(e, s + 6), min(e, s + 3), s]))
            return self.valid(op, clip([s + 6, s + 3, s - 1]))
        if st == 'end-before-start':
            if op in (rg.OP_READ_BY_GROUP_REQ, rg.OP_FIND_BY_TYPE_REQ):
                return self.valid(op, clip([s + 5]), end_of=lambda h: max(0, h - 3))
            return self.valid(op, clip([s - 1]))
        if st == 'ffff':
            return self.valid(op, [0xFFFF], end_of=lambda h: 0xFFFF)
        if st == 'ffff-run':
            return self.valid(op, clip([s, 0xFFFF]), end_of=lambda h: h)
        if st == 'zero-handle':
            return self.valid(op, [0, 0], end_of=lambda h: 0)
        if st == 'zero-length':
            v = (self.variant + k - 1) % 4
            if op == rg.OP_READ_BY_GROUP_REQ:
                return [bytes([0x11, 0]) + bytes(12), bytes([0x11, 4]) + struct.pack('<HHHH', s, s, s + 1, s + 1),
                        bytes([0x11, 0]), bytes([0x11, 1]) + bytes(6)][v]
            if op == rg.OP_READ_BY_TYPE_REQ:
                return [bytes([0x09, 0]) + bytes(8), bytes([0x09, 2]) + struct.pack('<HH', s, s + 1),
                        bytes([0x09, 0]), bytes([0x09, 1]) + bytes(4)][v]
            if op == rg.OP_FIND_INFO_REQ:
                return [bytes([0x05, 0]) + bytes(8), bytes([0x05, 1]) + struct.pack('<H', s),
                        bytes([0x05, 3]), bytes([0x05, 2]) + struct.pack('<H', s) + bytes(3)][v]
            return [bytes([0x07]), bytes([0x07]) + struct.pack('<H', s), bytes([0x07, 0]), bytes([0x07, 0, 0, 0])][v]
        if st == 'short-pdu':
            return bytes([op + 1])
        if st == 'error-other':
            return rg.error_rsp(op if k % 2 else 0x7E, s, rg.ERR_UNLIKELY)
        if st == 'garbage':
            return bytes([op + 1]) + bytes(self.rng.getrandbits(8) for _ in range(self.rng.randint(0, 21)))
        return None


async def term_case(case, r: R):
    from bumble import gatt_client
    from vlib import rig as vrig

    rng = random.Random(case['seed'] * 31 + PROCS.index(case['proc']))
    vrig.seed_entropy(case['seed'])
    proc = case['proc']
    rig_ = vrig.Rig(2, seed=case['seed'], max_delay=rng.choice([0, 0, 1]))
    await rig_.power_on()
    if rng.random() < 0.5:
        cconn, rconn = await rig_.connect_le(0, 1)
    else:
        rconn, cconn = await rig_.connect_le(1, 0)
    await rig_.quiesce()
    raw = vrig.RawPeer(rig_, 1)
    client = cconn.gatt_client
    outcomes = []
    for st in STRATEGIES:
        bounded = rng.random() < 0.5
        lo = rng.choice([1, 2, 0x10, 0x100, 0xFF00, 0xFFC0])
        hi = min(0xFFFF, lo + rng.choice([0, 1, 7, 0x3F])) if bounded else 0xFFFF
        u16 = uuid_obj(struct.pack('<H', 0x180F))
        if proc == 'discover_services':
            bounded, aw = False, client.discover_services()
        elif proc == 'discover_service':
            bounded, aw = False, client.discover_service(u16)
        elif proc == 'discover_included_services':
            aw = client.discover_included_services(gatt_client.ServiceProxy(client, lo, hi, u16, True))
        elif proc == 'discover_characteristics':
            aw = client.discover_characteristics([], gatt_client.ServiceProxy(client, lo, hi, u16, True))
        elif proc == 'discover_descriptors':
            if rng.random() < 0.5:
                aw = client.discover_descriptors(gatt_client.CharacteristicProxy(client, lo, hi, u16, 0x0A))
            else:
                aw = client.discover_descriptors(None, lo, hi)
        elif proc == 'discover_attributes':
            bounded, aw = False, client.discover_attributes()
        else:
            if bounded:
                aw = client.read_characteristics_by_uuid(u16, gatt_client.ServiceProxy(client, lo, hi, u16, True))
            else:
                aw = client.read_characteristics_by_uuid(u16, None)
        adv = Adversary(raw, proc, st, rng, bounded)
        raw.handlers[:] = [adv.on_pdu]
        outcome = 'returned'
        try:
            res = await vloop.vwait(aw)
            outcome = f'returned {len(res) if hasattr(res, "__len__") else res}'
        except vloop.Hang:
            outcome = 'HANG'
        except asyncio.CancelledError:
            raise
        except Exception as e:  # noqa: BLE001
            outcome = f'raised {type(e).__name__}'
        await rig_.quiesce()
        raw.handlers[:] = []
        raw.take()
        r.ev('term_procedures')
        r.ev('term_requests', adv.requests)
        r.ev('oracle_evals')
        scope = 'bounded-range' if bounded else 'full-range'
        if outcome == 'HANG':
            r.bad(f'termination/{proc}/{st}/hang', f'{proc} against "{st}" ({scope} {lo:#x}-{hi:#x}) still pending after '
                  f'{vloop.T_V} virtual s; {adv.requests} requests seen')
        elif adv.requests > REQUEST_LIMIT:
            r.bad(f'termination/{proc}/{st}/unbounded-requests',
                  f'{proc} against "{st}" ({scope} {lo:#x}-{hi:#x}) issued {adv.requests} requests (> {REQUEST_LIMIT}) '
                  f'and only stopped when the server stopped answering ({outcome})')
        if adv.answered:
            r.sig('term', proc, st, bounded, lo, hi)
        outcomes.append((st, scope, adv.requests, outcome))
        rig_.exceptions.clear()
    r.evals()
    r.sample = {'kind': 'term', 'proc': proc, 'outcomes': outcomes}


async def run_case(case, r: R):
    from bumble.core import UUID
    # cases are independent: forget the UUIDs the previous cases put into bumble's process-wide
    # registry (it is searched linearly on every UUID.from_bytes, so it would only slow later cases)
    n0 = getattr(run_case, '_uuids', None)
    if n0 is None:
        n0 = run_case._uuids = len(UUID.UUIDS)
    del UUID.UUIDS[n0:]
    if case['kind'] == 'db':
        await db_case(case, r)
    elif case['kind'] == 'notif':
        await notif_case(case, r)
    else:
        await term_case(case, r)


LEVEL_TEXT = ('~300 (quick) / ~9000 (thorough) generated databases x MTU preferences x optional enhanced bearers are '
              'discovered, read and written through a real bumble client against a real bumble server on the virtual '
              'link and compared with an independently computed handle layout and declaration values; ~180 / ~5200 '
              'multi-client subscription scenarios call every notify/indicate API form and are judged on the tapped '
              'wire (opcode, recipients, truncation to the wire-derived ATT_MTU-3, confirmation before return) and on '
              'client callbacks; every discovery procedure is run against 13 non-progressing adversarial response '
              'strategies with the requests counted on the wire (> 1000 or a virtual-time hang = violation). Held = no '
              'refuting execution among those observed; sampling, not proof.')
LEVEL_NOTE = ('Trusted: vlib/ref_gatt.py (layout rule, declaration values, ATT/EATT wire parser, ~350 lines), the '
              'tap/reassembler of vlib/rig.py, the virtual-time loop. Subscription ground truth is the last CCCD write '
              'seen on each bearer; long writes are not exercised (no Prepare Write in the server).')
TECHNIQUE = ('runtime monitoring: independent database layout oracle + offline ATT wire checker over the tapped HCI log '
             '+ host-boundary ordering for confirmations + request counting against a scripted adversarial server')
