"""C12 — a GATT client sees exactly the server's database, values and notifications.

Monitors
  tree     the ServiceProxy / included / CharacteristicProxy / DescriptorProxy trees and the
           discover_attributes / discover_service(uuid) lists returned by a bumble client are
           compared with an *independent* layout of the database (vlib/ref_gatt.py: handles
           computed from the order of definition by the GATT layout rule, declaration values
           written from the spec), never with server.attributes
  values   read_value == the current value (long reads), read_characteristics_by_uuid,
           writes (request / command) take effect on the server and are read back
  wire     per-bearer ATT streams parsed by hand from the tapped HCI log (fixed CID 4 and EATT
           K-frames reassembled), ATT_MTU computed from the Exchange MTU PDUs / the credit based
           connection request+response: notification (0x1B) vs indication (0x1D) vs
           confirmation (0x1E) per bearer, truncation to ATT_MTU-3, recipients == subscribed
           bearers (CCCD writes seen on the wire), indicate returns after the confirmation
           reached the server host (host-boundary log order)
  bearer   per-bearer state through every read path: after any pattern of CCCD writes (subscribe /
           unsubscribe / raw 0..3 by request or command) on the fixed bearer, on 1-2 enhanced bearers
           of the same connection and on other connections, Read (client API and hand-written
           request), Read Blob, Read By Type (0x2902 / the characteristic's UUID; hand-written and
           read_characteristics_by_uuid), Read Multiple and Read Multiple Variable on a bearer return
           what THAT bearer wrote (0000 if never); the same for characteristics whose value callback
           is keyed by the bearer (AttributeValueV2) or by the connection (AttributeValue), read,
           written and notified (value=None) per bearer. Responses are judged as bytes on the wire.
  failed   an indication whose confirmation never reaches the server (peer silent / lost at the
           server's host boundary / delivered only after the call gave up) makes the call fail with
           a timeout after virtual time passed, a pending indicate call is cancelled; the NEXT
           indication on that bearer must be on the wire as an indication, confirmed, the call must
           complete (keys carry the history class after-timeout / after-cancel)
           ; likewise a client read whose response is withheld at the client's host boundary (times
           out / is cancelled) is followed by further requests on that bearer, judged as usual
  burst    server-initiated PDUs that share a burst with the response to the request that enabled them: the
           server's `subscription` handler (armed for one CCCD write of one bearer) pushes a notification /
           indication through the API from a task (the PDU follows the Write Response) or straight from the
           handler (the PDU precedes it) while subscribe() - Client.subscribe(proxy, f) or
           CharacteristicProxy.subscribe(f) - is still pending; in 70 % of the steps everything the client's
           controller hands to its host is held until the server is quiet and then released back to back, so that
           response and PDU reach the client host in consecutive loop turns. Whatever is on the wire (hand-parsed)
           must reach the subscriber passed to that very subscribe() call exactly once with the PDU's value, every
           subscriber registered earlier, and the proxy's 'update' event; an indication is confirmed once. Keys
           carry the arrival class before-response / with-response / after-return. Symmetric: unsubscribe of ONE
           subscriber (both API forms) or of all while the server pushes a forced PDU from the handler, then
           forced PDUs of both kinds after unsubscribe() returned: a removed subscriber is never called once
           unsubscribe() has returned (calls while it is pending are not pinned), the subscribers that stay
           get every PDU of their kind.
  term     a hand-driven adversarial ATT server (RawPeer) answers every discovery procedure
           with non-progressing responses; requests are counted on the wire
"""
from __future__ import annotations

import asyncio
import random
import struct

from vlib import ref_gatt as rg
from vlib import vloop
from vlib.result import R

ID = 'C12'
LEVEL = 'exploration'
RULE = ('seeded cases. db: random database (0-6 services incl. secondary, included, unregistered-included; '
        '0-5 characteristics; 0-3 descriptors; 16/32/128-bit UUIDs mixed; value lengths around k*(MTU-1), '
        'MTU-3, 0..512) x client/server MTU preference 23..517 x optional enhanced bearers x ACL geometry x '
        'delay schedule; non-trivial when the database has >= 1 characteristic and the wire shows a '
        'multi-request discovery or a Read Blob. notif: 1-3 clients x fixed+enhanced bearers x random '
        'subscription sets x every server API form x per-bearer reads of CCCDs and bearer-/connection-scoped '
        'values through 7 read paths x indications left unconfirmed (5 fault forms) or cancelled, each followed '
        'by another indication to the same bearer x subscribe / unsubscribe (2 API forms, one / all subscribers) '
        'with a PDU pushed from the server\'s subscription handler before / with / after the Write Response (client '
        'host packets held and released back to back); non-trivial when >= 1 PDU was delivered and >= 1 bearer '
        'was (correctly or not) left out. term: procedure x adversarial strategy; non-trivial when the '
        'adversary answered >= 1 request. distinct = distinct descriptor tuple')
ASSUMPTIONS = [
    'a characteristic with NOTIFY or INDICATE gets a CCCD (0x2902) after its user descriptors (server API contract)',
    'a service included without having been added first must be laid out as its own service definition '
    'before the including service (service definitions never nest, Vol 3 Part G 3.1)',
    'subscription state is per bearer (as the property states); ground truth = last CCCD write seen on that bearer',
    'notify/indicate_subscribers(force=True): recipients must include every subscribed bearer; which '
    'further bearers are reached is not pinned, only their PDU kind and truncation',
    'notify/indicate_subscriber(connection, force=False) addresses every bearer of that connection',
    'a notification / indication that reaches the client after the CCCD write was accepted (or before its Write '
    'Response: ATT allows server-initiated PDUs at any time) belongs to the subscriber passed to the pending '
    'subscribe(); a call of a removed subscriber while unsubscribe() is still pending is not pinned, one after it '
    'returned is a violation',
    'writes longer than ATT_MTU-3 (long writes) are not exercised: the server has no Prepare Write',
    'Read Blob of a value that fits in one Read Response may be answered with the data or with Attribute Not Long '
    '(Vol 3 Part F 3.4.4.5); Read Multiple (Variable) is only judged on sets of values that fit in ATT_MTU-1 '
    'untruncated with every value <= 251 bytes (how a server truncates such a set is not part of the property)',
    'an indication that is not confirmed: the single-bearer call must fail (not return normally) and not before '
    'virtual time passed; indicate_subscribers may return normally after the wait. While one bearer of a '
    'connection is left unconfirmed the faulted call addresses that bearer only (what indicate_subscriber does '
    'to the remaining bearers of the connection after a timeout is not pinned)',
    'termination: more than 1000 requests or a virtual-time hang is a violation; strategies whose responses '
    'legitimately advance by one handle are only used on ranges of <= 64 handles',
]
MIN_EVENTS = {
    'quick': {'tree_checks': 3000, 'read_checks': 3500, 'read_checks_long': 800, 'write_checks': 600,
              'notif_api_calls': 800, 'wire_notifications': 400, 'wire_indications': 300,
              'confirm_order_checks': 300, 'truncation_checks': 700, 'callback_checks': 700,
              'term_procedures': 600, 'wire_att_pdus': 40000,
              # per-bearer state through every read path; indications after a failed one
              'bearer_read_checks': 800, 'bearer_read_checks_state_differs': 500,
              'bearer_read_checks_eatt_differs_from_fixed': 250, 'bearer_read_read': 120, 'bearer_read_blob': 100,
              'bearer_read_by_type': 100, 'bearer_read_multiple': 80, 'bearer_read_multiple_variable': 80,
              'failed_indications': 70, 'unconfirmed_indications_on_wire': 70, 'indications_after_failed': 100,
              'indications_after_timeout': 70, 'indications_after_cancel': 25,
              'bearer_read_find_by_type_value': 60, 'failed_client_requests': 40, 'requests_after_failed': 80,
              # server-initiated PDUs in the burst of the response that enabled them; unsubscribe's return
              'pushed_callback_checks': 200, 'pushed_on_subscribe_before-response': 60,
              'pushed_on_subscribe_with-response': 70, 'pushed_on_subscribe_after-return': 25,
              'pushed_on_subscribe_fixed': 100, 'pushed_on_subscribe_eatt': 60, 'pushed_on_subscribe_notification': 80,
              'pushed_on_subscribe_indication': 80, 'pushes_on_subscribe_through_proxy_api': 80,
              'pushes_on_subscribe_through_client_api': 80, 'unsubscribe_return_checks': 80, 'unsubscribe_form_one': 45,
              'unsubscribe_form_all': 20, 'forced_pdus_after_unsubscribe_returned': 120,
              'remaining_subscriber_checks': 120},
    'thorough': {'tree_checks': 90000, 'read_checks': 100000, 'read_checks_long': 24000, 'write_checks': 18000,
                 'notif_api_calls': 24000, 'wire_notifications': 12000, 'wire_indications': 9000,
                 'confirm_order_checks': 9000, 'truncation_checks': 21000, 'callback_checks': 21000,
                 'term_procedures': 18000, 'wire_att_pdus': 1200000,
                 'bearer_read_checks': 24000, 'bearer_read_checks_state_differs': 15000,
                 'bearer_read_checks_eatt_differs_from_fixed': 7500, 'bearer_read_read': 3600, 'bearer_read_blob': 3000,
                 'bearer_read_by_type': 3000, 'bearer_read_multiple': 2400, 'bearer_read_multiple_variable': 2400,
                 'failed_indications': 2100, 'unconfirmed_indications_on_wire': 2100, 'indications_after_failed': 3000,
                 'indications_after_timeout': 2100, 'indications_after_cancel': 750,
                 'bearer_read_find_by_type_value': 1800, 'failed_client_requests': 1200, 'requests_after_failed': 2400,
                 'pushed_callback_checks': 1800, 'pushed_on_subscribe_before-response': 540,
                 'pushed_on_subscribe_with-response': 630, 'pushed_on_subscribe_after-return': 220,
                 'pushed_on_subscribe_fixed': 900, 'pushed_on_subscribe_eatt': 540, 'pushed_on_subscribe_notification': 720,
                 'pushed_on_subscribe_indication': 720, 'pushes_on_subscribe_through_proxy_api': 720,
                 'pushes_on_subscribe_through_client_api': 720, 'unsubscribe_return_checks': 720, 'unsubscribe_form_one': 400,
                 'unsubscribe_form_all': 180, 'forced_pdus_after_unsubscribe_returned': 1080,
                 'remaining_subscriber_checks': 1080},
}
CASE_TIMEOUT = 600

MTUS = [23, 23, 24, 25, 26, 27, 30, 43, 48, 64, 100, 185, 247, 251, 255, 256, 257, 400, 512, 514, 515, 516, 517]
EATT_MTUS = [64, 65, 66, 67, 100, 128, 185, 247, 256, 512, 515, 517, 1024, 2048]
PROCS = ['discover_services', 'discover_service', 'discover_included_services', 'discover_characteristics',
         'discover_descriptors', 'discover_attributes', 'read_characteristics_by_uuid']
STRATEGIES = ['repeat', 'empty', 'first-then-empty', 'backwards', 'backwards-in-response', 'end-before-start',
              'ffff', 'ffff-run', 'zero-length', 'zero-handle', 'short-pdu', 'error-other', 'garbage']
REQUEST_LIMIT = 1000


def plan(tier, seed):
    cases = []
    n_db = 900 if tier == 'quick' else 9000
    n_notif = 528 if tier == 'quick' else 5200
    n_term = 24 if tier == 'quick' else 240
    for i in range(n_db):
        cases.append({'kind': 'db', 'seed': seed * 1000003 + i})
    for i in range(n_notif):
        cases.append({'kind': 'notif', 'seed': seed * 1000003 + i})
    for i in range(n_term):
        for p in PROCS:
            cases.append({'kind': 'term', 'proc': p, 'seed': seed * 1000003 + i})
    return cases


# =============================================================================
# generators
# =============================================================================
def gen_uuid(rng: random.Random, pool: list, w: int | None = None) -> bytes:
    if pool and w is None and rng.random() < 0.18:
        return rng.choice(pool)
    w = w or rng.choice([16, 16, 16, 32, 128, 128])
    while True:
        if w == 16:
            v = rng.choice([rng.randint(0x1800, 0x27FF), rng.randint(0x2A00, 0x2BFF), rng.randint(1, 0xFFFF)])
            u = struct.pack('<H', v)
        elif w == 32:
            u = struct.pack('<I', rng.choice([rng.getrandbits(32), rng.randint(0x10000, 0xFFFFFF), 0xFFFFFFFF]))
        else:
            if rng.random() < 0.12:   # a 128-bit UUID that is a widened 16-bit one
                u = rg.u128(struct.pack('<H', rng.randint(0x1800, 0x27FF)))
            else:
                u = bytes(rng.getrandbits(8) for _ in range(16))
        c = rg.u128(u)
        # never a GATT declaration type or the CCCD type, never all-zero
        if c[:12] == rg.u128(b'\x00\x00')[:12] and c[14:] == b'\x00\x00' and (c[13] in (0x28, 0x29) or c[12:14] == b'\x00\x00'):
            continue
        pool.append(u)
        return u


def gen_len(rng: random.Random, mtu: int) -> int:
    c = [0, 1, 2, mtu - 5, mtu - 4, mtu - 3, mtu - 2, mtu - 1, mtu, mtu + 1, 2 * (mtu - 1) - 1, 2 * (mtu - 1),
         2 * (mtu - 1) + 1, 3 * (mtu - 1), 3 * (mtu - 1) + 1, 251, 252, 253, 254, 511, 512, rng.randint(0, 512),
         rng.randint(0, 64)]
    return max(0, min(512, rng.choice(c)))


def make_value(tag: int, n: int) -> bytes:
    return bytes(((tag * 37 + i * 7 + (i >> 8) * 13 + 1) & 0xFF) for i in range(n))


def gen_db(rng: random.Random, mtu: int, max_services=6, allow_unregistered=True, props_pool=None,
           all_primary=False) -> rg.Db:
    pool: list = []
    n = rng.choice([0, 1, 1, 2, 2, 3, 3, 4, 5, 6])
    n = min(n, max_services)
    services: list[rg.Svc] = []
    top: list[int] = []
    tag = rng.randint(0, 255)
    unregistered = allow_unregistered and rng.random() < 0.12
    for si in range(n):
        chars = []
        for _ci in range(rng.choice([0, 1, 1, 2, 2, 3, 4, 5])):
            descs = []
            for _di in range(rng.choice([0, 0, 0, 1, 1, 2, 3])):
                tag += 1
                descs.append(rg.Desc(gen_uuid(rng, pool), make_value(tag, gen_len(rng, mtu) if rng.random() < 0.3
                                                                      else rng.randint(0, 20))))
            props = rng.choice(props_pool) if props_pool else rng.choice(
                [0x02, 0x0A, 0x0E, 0x12, 0x22, 0x32, 0x3A, 0x8A, rng.randint(0, 255)])
            tag += 1
            chars.append(rg.Char(gen_uuid(rng, pool), props, make_value(tag, gen_len(rng, mtu)),
                                 rng.random() < 0.4, descs))
        includes = []
        if services and rng.random() < 0.45:
            k = rng.randint(1, min(3, len(services)))
            includes = sorted(rng.sample(range(len(services)), k))
        primary = rng.random() < 0.75 or all_primary
        services.append(rg.Svc(gen_uuid(rng, pool), primary, includes, chars))
    # which services are handed to add_service(): all, unless `unregistered` leaves out one that is
    # included by a later service (it then gets registered through the include)
    skip = set()
    if unregistered:
        included = sorted({i for s in services for i in s.includes})
        if included:
            skip.add(rng.choice(included))
    top = [i for i in range(len(services)) if i not in skip]
    return rg.Db(services, top)


def uuid_obj(u: bytes):
    """A bumble UUID of exactly this width, without going through the registry."""
    from bumble.core import UUID
    return UUID(bytes(reversed(u)).hex())


def proxy_uuid(u) -> bytes:
    """Canonical 128-bit LE bytes of a UUID object returned by the client."""
    return rg.u128(bytes(u.uuid_bytes))


def build_server(db: rg.Db, device, scoped=None):
    """Creates the bumble objects for `db` and adds the top-level services in order.
    Returns {id(model obj): bumble attribute}. `scoped(c)` supplies the value object of a
    characteristic whose model carries a `scope` ('bearer' | 'conn': the value depends on who reads)."""
    from bumble import gatt

    objs = {}
    svc_objs = {}
    perms = gatt.Attribute.READABLE | gatt.Attribute.WRITEABLE
    for idx, s in enumerate(db.services):
        chars = []
        for c in s.chars:
            descs = []
            for d in c.user_descs:
                do = gatt.Descriptor(uuid_obj(d.uuid), perms, d.value)
                objs[id(d)] = do
                descs.append(do)
            if scoped is not None and getattr(c, 'scope', None):
                value = scoped(c)
            elif c.dynamic:
                def rd(_conn, c=c):
                    return c.value

                def wr(_conn, v, c=c):
                    c.value = bytes(v)

                value = gatt.CharacteristicValue(read=rd, write=wr)
            else:
                value = c.value
            co = gatt.Characteristic(uuid_obj(c.uuid), gatt.Characteristic.Properties(c.props), perms, value, descs)
            objs[id(c)] = co
            chars.append(co)
        so = gatt.Service(uuid_obj(s.uuid), chars, primary=s.primary,
                          included_services=[svc_objs[i] for i in s.includes])
        svc_objs[idx] = so
        objs[id(s)] = so
    for idx in db.top:
        device.add_service(svc_objs[idx])
    return objs


def server_value(objs, model) -> bytes | None:
    """Current value held by the server for a model characteristic/descriptor."""
    if isinstance(model, rg.Char) and model.dynamic:
        return bytes(model.value)
    v = objs[id(model)].value
    return bytes(v) if isinstance(v, (bytes, bytearray)) else None


def set_server_value(objs, model, v: bytes):
    model.value = bytes(v)
    if not (isinstance(model, rg.Char) and model.dynamic):
        objs[id(model)].value = bytes(v)


def make_configs(n, plain: set):
    from bumble import hci
    from bumble.device import DeviceConfiguration
    out = []
    for i in range(n):
        if i in plain:
            c = DeviceConfiguration(gap_service_enabled=False, gatt_service_enabled=False)
            c.address = hci.Address(':'.join([f'{0xE0 + i:02X}'] * 6), hci.Address.RANDOM_DEVICE_ADDRESS)
            c.name = f'dev{i}'
            out.append(c)
        else:
            out.append(None)
    return out


async def call(r: R, key: str, aw, t_v: float = vloop.T_V):
    """(ok, result). A hang or an exception of the code under test is a violation under `key`."""
    try:
        return True, await vloop.vwait(aw, t_v)
    except vloop.Hang as e:
        r.bad(f'{key}/hang', f'{e}')
    except asyncio.CancelledError:
        raise
    except Exception as e:  # noqa: BLE001 — the code under test raised
        r.bad(f'{key}/raised/{type(e).__name__}', f'{type(e).__name__}: {e}')
    return False, None


def first_diff(got: list, exp: list, fields: tuple):
    """Name of the first differing field ('count' when lengths differ and the common prefix agrees)."""
    for i, (g, e) in enumerate(zip(got, exp)):
        for f, gv, ev in zip(fields, g, e):
            if gv != ev:
                return f, i
    if len(got) != len(exp):
        return ('missing' if len(got) < len(exp) else 'extra'), min(len(got), len(exp))
    return None, None


def cmp_list(r: R, key: str, got: list, exp: list, fields: tuple, ctx, uuid_bits=None) -> bool:
    r.ev('tree_checks')
    r.ev('oracle_evals')
    f, i = first_diff(got, exp, fields)
    if f is None:
        return True
    k = f'{key}/{f}'
    if f == 'uuid' and uuid_bits is not None and i < len(uuid_bits):
        k += f'/{uuid_bits[i]}-bit'

    def show(l):
        return [tuple(x.hex() if isinstance(x, bytes) else x for x in t) for t in l[:12]]

    r.bad(k, f'entry {i}: got {show(got)} expected {show(exp)}; {ctx()}')
    return False


class Wire:
    """Incremental ATT wire view of a rig (fed at quiescent points)."""

    def __init__(self, rig_, links):
        from vlib import rig as vrig
        self.vrig = vrig
        self.rig = rig_
        self.att = rg.AttWire(links)
        self.pos = 0

    def add_link(self, a, b):
        self.att.links[a] = b
        self.att.links[b] = a

    def sync(self):
        log = self.rig.hci_log
        recs = self.vrig.l2cap_log(log[self.pos:], direction='h2c')
        self.pos = len(log)
        self.att.feed(recs)


def len_class(n: int, mtu: int) -> str:
    if n < mtu - 1:
        return 'short'
    if n == mtu - 1:
        return 'len=mtu-1'
    if n % (mtu - 1) == 0:
        return 'len=k(mtu-1)'
    return 'long'


# =============================================================================
# db: discovery / read / write
# =============================================================================
async def explore(r: R, client, db: rg.Db, objs, rng: random.Random, mtu: int, tag: str, ctx, full: bool):
    """Runs discovery, reads and writes through one gatt_client.Client and judges them."""
    from bumble import gatt_client  # noqa: F401

    cls = '/unregistered-include' if db.has_unregistered_include else ''
    k_disc = f'discovery{tag}'

    def read_key(key: str, got: bytes, want: bytes) -> str:
        # one mechanism key when the client's idea of the bearer's ATT_MTU is not the negotiated one
        # and the value came back cut short: every kind of long attribute is hit the same way
        if client.mtu != mtu and len(got) < len(want) and want[:len(got)] == got:
            return f'read{tag}/truncated/client-bearer-mtu-not-negotiated'
        return key
    by_handle = {s.handle: s for s in db.services if s.placed}

    # 1. primary services
    ok, services = await call(r, f'{k_disc}/services{cls}', client.discover_services())
    if not ok:
        return False
    got = [(s.handle, s.end_group_handle, proxy_uuid(s.uuid)) for s in services]
    exp = db.primaries()
    bits = [rg.width(s.uuid) for s in sorted(db.services, key=lambda s: s.handle) if s.placed and s.primary]
    # GATT structural rule, independent of where an unregistered include is placed:
    # service definitions never overlap
    r.ev('oracle_evals')
    spans = sorted((s.handle, s.end_group_handle) for s in services)
    for a, b in zip(spans, spans[1:]):
        if b[0] <= a[1]:
            r.bad(f'{k_disc}/services/overlapping-ranges{cls}', f'services {a} and {b} overlap; {ctx()}')
            if cls:
                return False
            break
    if cls:
        # one key for this class: every handle after a misplaced definition differs, so the
        # whole attribute table is compared first and nothing else is judged when it is off
        r.ev('tree_checks')
        r.ev('oracle_evals')
        ok, attrs = await call(r, f'{k_disc}/layout{cls}', client.discover_attributes())
        if not ok:
            return False
        a_got = [(a.handle, proxy_uuid(a.type)) for a in attrs]
        decl_ok = True
        if got == exp and a_got == db.all_attributes():
            # same types at the same handles: the declarations must also be the expected services
            for sv in db.services:
                if sv.placed:
                    ok, v = await call(r, f'{k_disc}/layout{cls}', client.read_value(sv.handle))
                    if not ok or bytes(v) != rg.pdu_uuid(sv.uuid):
                        decl_ok = False
        if got != exp or a_got != db.all_attributes() or not decl_ok:
            r.bad(f'{k_disc}/layout{cls}',
                  f'primary services got {[(h, e) for h, e, _u in got]} expected {[(h, e) for h, e, _u in exp]}; '
                  f'service declarations found at {[h for h, t in a_got if t in (rg.u128(rg.T_PRIMARY), rg.u128(rg.T_SECONDARY))]} '
                  f'expected at {[s.handle for s in sorted(db.services, key=lambda s: s.handle) if s.placed]}; {ctx()}')
            return False
        tree_ok = True
        cls = ''    # the layout is as expected: from here on the class does not matter
    else:
        tree_ok = cmp_list(r, f'{k_disc}/services', got, exp, ('handle', 'end-handle', 'uuid'), ctx, bits)
    if not tree_ok:
        services = []

    # 2-5. walk: included services, characteristics, descriptors (secondary services are reached
    # through the include declarations)
    queue = list(services)
    seen = set()
    char_proxies = {}
    while queue:
        sp = queue.pop(0)
        if sp.handle in seen or sp.handle not in by_handle:
            continue
        seen.add(sp.handle)
        s = by_handle[sp.handle]
        ok, incs = await call(r, f'{k_disc}/included{cls}', client.discover_included_services(sp))
        if ok:
            got = [(i.handle, i.end_group_handle, proxy_uuid(i.uuid)) for i in incs]
            ibits = [rg.width(db.services[i].uuid) for i in s.includes]
            if cmp_list(r, f'{k_disc}/included{cls}', got, db.includes_of(s), ('handle', 'end-handle', 'uuid'),
                        ctx, ibits):
                queue.extend(incs)
                if incs:
                    r.ev('included_services_discovered', len(incs))
        ok, chars = await call(r, f'{k_disc}/characteristics{cls}', client.discover_characteristics([], sp))
        if not ok:
            continue
        got = [(c.handle, c.end_group_handle, proxy_uuid(c.uuid), int(c.properties)) for c in chars]
        cbits = [rg.width(c.uuid) for c in s.chars]
        if not cmp_list(r, f'{k_disc}/characteristics{cls}', got, db.chars_of(s),
                        ('handle', 'end-handle', 'uuid', 'properties'), ctx, cbits):
            continue
        for cp, c in zip(chars, s.chars):
            char_proxies[c.handle] = cp
            ok, descs = await call(r, f'{k_disc}/descriptors{cls}', client.discover_descriptors(cp))
            if ok:
                got = [(d.handle, proxy_uuid(d.type)) for d in descs]
                cmp_list(r, f'{k_disc}/descriptors{cls}', got, db.descs_of(c), ('handle', 'uuid'), ctx,
                         [rg.width(d.uuid) for d in c.descs])
    if tree_ok:
        # every placed service must have been reachable (primary, or included by a reachable one)
        reachable = set()
        front = [s for s in db.services if s.placed and s.primary]
        while front:
            s = front.pop()
            if s.handle in reachable:
                continue
            reachable.add(s.handle)
            front.extend(db.services[i] for i in s.includes)
        r.ev('oracle_evals')
        if not reachable <= seen and not r.violations:
            r.bad(f'{k_disc}/walk-incomplete{cls}', f'reachable {sorted(reachable)} walked {sorted(seen)}; {ctx()}')

    # 6. all attributes
    ok, attrs = await call(r, f'{k_disc}/attributes{cls}', client.discover_attributes())
    if ok:
        got = [(a.handle, proxy_uuid(a.type)) for a in attrs]
        exp = db.all_attributes()
        cmp_list(r, f'{k_disc}/attributes{cls}', got, exp, ('handle', 'uuid'), ctx,
                 [rg.width(db.attrs[h][0]) for h, _ in exp])

    # 7. discover_service(uuid)
    prim = [s for s in db.services if s.placed and s.primary]
    cand = []
    for s in prim:
        same = [t for t in prim if rg.u128(t.uuid) == rg.u128(s.uuid)]
        if all(rg.pdu_uuid(t.uuid) == rg.pdu_uuid(s.uuid) for t in same) and s.uuid not in cand:
            cand.append(s.uuid)
    rng.shuffle(cand)
    absent = bytes(rng.getrandbits(8) for _ in range(16))
    for u in cand[:3 if full else 1] + [absent]:
        ok, found = await call(r, f'{k_disc}/service-by-uuid{cls}', client.discover_service(uuid_obj(u)))
        if ok:
            got = [(s.handle, s.end_group_handle) for s in found]
            exp = [(s.handle, s.end) for s in sorted(prim, key=lambda s: s.handle) if rg.u128(s.uuid) == rg.u128(u)]
            cmp_list(r, f'{k_disc}/service-by-uuid{cls}/{rg.width(u)}-bit', got, exp, ('handle', 'end-handle'), ctx)

    # 8. characteristics by uuid, in one service and over all known services
    if tree_ok and services and full:
        sp = rng.choice(services)
        s = by_handle[sp.handle]
        if s.chars:
            u = rng.choice(s.chars).uuid
            ok, chars = await call(r, f'{k_disc}/characteristics-by-uuid{cls}',
                                   client.discover_characteristics([uuid_obj(u)], sp))
            if ok:
                got = [(c.handle, c.end_group_handle, int(c.properties)) for c in chars]
                exp = [(c.handle, c.end, c.props & 0xFF) for c in s.chars if rg.u128(c.uuid) == rg.u128(u)]
                cmp_list(r, f'{k_disc}/characteristics-by-uuid{cls}', got, exp,
                         ('handle', 'end-handle', 'properties'), ctx)
        ok, chars = await call(r, f'{k_disc}/characteristics-all{cls}', client.discover_characteristics([], None))
        if ok:
            got = [(c.handle, c.end_group_handle) for c in chars]
            exp = [(c.handle, c.end) for sp in client.services if sp.handle in by_handle
                   for c in by_handle[sp.handle].chars]
            cmp_list(r, f'{k_disc}/characteristics-all{cls}', got, exp, ('handle', 'end-handle'), ctx)

    # 9. reads: every characteristic value (bounded), a sample of the other attributes
    handles = [h for h in sorted(db.attrs) if db.attrs[h][1] == 'value']
    rng.shuffle(handles)
    handles = handles[:10 if full else 5]
    others = [h for h in sorted(db.attrs) if db.attrs[h][1] != 'value']
    rng.shuffle(others)
    handles += others[:6 if full else 2]
    for h in handles:
        kind = db.attrs[h][1]
        exp = db.expected_value(h)
        lc = len_class(len(exp), mtu)
        sub = ''
        if kind == 'include':
            sub = f'/{rg.width(db.services[db.attrs[h][2][1]].uuid)}-bit'
        key = f'read{tag}/{kind}{sub}/{lc}'
        target = char_proxies.get(h, h) if rng.random() < 0.5 else h
        ok, v = await call(r, key, client.read_value(target))
        r.ev('read_checks')
        if lc != 'short':
            r.ev('read_checks_long')
        if ok:
            r.check(bytes(v) == exp, read_key(key, bytes(v), exp),
                    lambda: f'handle {h} ({kind}): read {len(v)} bytes {bytes(v)[:24].hex()}.. expected {len(exp)} bytes '
                            f'{exp[:24].hex()}..; first difference at '
                            f'{next((i for i in range(min(len(v), len(exp))) if v[i] != exp[i]), min(len(v), len(exp)))}; {ctx()}')

    # 10. read using characteristic UUID
    val_handles = [h for h in sorted(db.attrs) if db.attrs[h][1] == 'value']
    if val_handles:
        for _ in range(2 if full else 1):
            u = db.attrs[rng.choice(val_handles)][0]
            scope = None
            lo, hi = 1, 0xFFFF
            if services and rng.random() < 0.5:
                scope = rng.choice(services)
                lo, hi = scope.handle, scope.end_group_handle
            ok, vals = await call(r, f'read-by-uuid{tag}', client.read_characteristics_by_uuid(uuid_obj(u), scope))
            if ok:
                limit = min(mtu - 4, 253)
                exp = [db.expected_value(h)[:limit] for h in sorted(db.attrs)
                       if lo <= h <= hi and rg.u128(db.attrs[h][0]) == rg.u128(u)]
                r.ev('read_checks')
                r.check([bytes(v) for v in vals] == exp, f'read-by-uuid{tag}/{rg.width(u)}-bit',
                        lambda: f'got lengths {[len(v) for v in vals]} expected {[len(v) for v in exp]} '
                                f'(uuid {u.hex()}, range {lo}-{hi}); {ctx()}')

    # 11. writes (<= ATT_MTU-3), then the server changes a value and the client reads again
    writable = [h for h in sorted(db.attrs) if db.attrs[h][1] in ('value', 'desc')]
    rng.shuffle(writable)
    for h in writable[:4 if full else 2]:
        model = db.attrs[h][2]
        n = max(0, min(512, rng.choice([0, 1, 2, mtu - 4, mtu - 3, mtu - 3, rng.randint(0, mtu - 3)])))
        data = make_value(rng.randint(0, 255), n)
        with_response = rng.random() < 0.5
        how = 'request' if with_response else 'command'
        key = f'write{tag}/{how}/{db.attrs[h][1]}'
        target = char_proxies.get(h, h) if rng.random() < 0.5 else h
        ok, _ = await call(r, key, client.write_value(target, data, with_response))
        if not ok:
            continue
        await ctx.rig.quiesce()
        model.value = data if not (isinstance(model, rg.Char) and model.dynamic) else model.value
        sv = server_value(objs, model)
        r.ev('write_checks')
        if r.check(sv == data, f'{key}/no-effect',
                   lambda: f'handle {h}: wrote {n} bytes {data[:16].hex()}, server holds '
                           f'{None if sv is None else (len(sv), sv[:16].hex())}; {ctx()}'):
            ok, v = await call(r, f'{key}/read-back', client.read_value(h))
            r.ev('read_checks')
            if ok:
                r.check(bytes(v) == data, f'{key}/read-back', lambda: f'handle {h}: wrote {data.hex()} read {bytes(v).hex()}')
        else:
            model.value = sv if sv is not None else data
    for h in val_handles[:2 if full else 1]:
        model = db.attrs[h][2]
        new = make_value(rng.randint(0, 255), gen_len(rng, mtu))
        set_server_value(objs, model, new)
        lc = len_class(len(new), mtu)
        key = f'read{tag}/value-after-change/{lc}'
        ok, v = await call(r, key, client.read_value(h))
        r.ev('read_checks')
        if lc != 'short':
            r.ev('read_checks_long')
        if ok:
            r.check(bytes(v) == new, read_key(key, bytes(v), new),
                    lambda: f'handle {h}: read {len(v)} bytes, current value has {len(new)}; {ctx()}')
    return tree_ok


class Ctx:
    def __init__(self, rig_, text):
        self.rig = rig_
        self.text = text

    def __call__(self):
        return self.text


async def db_case(case, r: R):
    from bumble import att, gatt_client, l2cap
    from bumble.device import Peer
    from vlib import rig as vrig

    rng = random.Random(case['seed'])
    vrig.seed_entropy(case['seed'])
    c_mtu = rng.choice([None, None] + MTUS + [rng.randint(23, 517)])
    s_mtu = rng.choice(MTUS + [rng.randint(23, 517)])
    mtu = 23 if c_mtu is None else min(c_mtu, s_mtu)
    db = gen_db(rng, mtu)
    eatt = rng.random() < 0.35
    es_mtu = rng.choice(EATT_MTUS)
    ec_mtu = rng.choice(EATT_MTUS)
    e_count = rng.choice([1, 1, 2])
    e_mps = rng.choice([64, 251, 2048])
    delay = rng.choice([0, 0, 1, 3])
    lens = [rng.choice([27, 27, 64, 251]) for _ in range(2)]
    rig_ = vrig.Rig(2, seed=case['seed'], max_delay=delay, le_acl_len=lens, configs=make_configs(2, {0}))
    srv = rig_.devices[0]
    objs = build_server(db, srv)
    srv.gatt_server.max_mtu = s_mtu
    if eatt:
        srv.gatt_server.register_eatt(l2cap.LeCreditBasedChannelSpec(psm=att.EATT_PSM, mtu=es_mtu, mps=e_mps))
    await rig_.power_on()
    client_central = rng.random() < 0.5
    if client_central:
        cconn, sconn = await rig_.connect_le(1, 0)
    else:
        sconn, cconn = await rig_.connect_le(0, 1)
    wire = Wire(rig_, {(0, sconn.handle): (1, cconn.handle), (1, cconn.handle): (0, sconn.handle)})
    desc = (f'seed={case["seed"]} c_mtu={c_mtu} s_mtu={s_mtu} mtu={mtu} acl={lens} delay={delay} '
            f'db={db.describe()}')
    ctx = Ctx(rig_, desc)
    peer = Peer(cconn)
    if c_mtu is not None:
        ok, got = await call(r, 'mtu/exchange', peer.request_mtu(c_mtu))
        await rig_.quiesce()
        if ok:
            r.check(got == mtu and cconn.att_mtu == mtu and sconn.att_mtu == mtu, 'mtu/agreement/fixed',
                    f'client asked {c_mtu}, server max {s_mtu}: request_mtu returned {got}, client bearer '
                    f'{cconn.att_mtu}, server bearer {sconn.att_mtu}, expected {mtu}')
    tree_ok = await explore(r, peer.gatt_client, db, objs, rng, mtu, '', ctx, True)
    await rig_.quiesce()
    wire.sync()
    fixed = wire.att.fixed(1, cconn.handle)
    r.check(fixed.mtu == mtu, 'mtu/wire/fixed', f'Exchange MTU on the wire gives {fixed.mtu}, expected {mtu}')

    e_mtu = None
    if eatt:
        e_mtu = min(es_mtu, ec_mtu)
        ok, clients = await call(r, 'eatt/connect', gatt_client.Client.connect_eatt(
            cconn, l2cap.LeCreditBasedChannelSpec(psm=att.EATT_PSM, mtu=ec_mtu, mps=e_mps), e_count))
        if ok:
            if not isinstance(clients, list):
                clients = [clients]
            await rig_.quiesce()
            wire.sync()
            for ci, ecl in enumerate(clients):
                wb = wire.att.eatt(1, cconn.handle, ecl.bearer.source_cid)
                if wb is None:
                    raise RuntimeError('enhanced bearer not found on the wire')
                r.check(wb.mtu == e_mtu, 'mtu/wire/eatt', f'wire {wb.mtu} expected {e_mtu}')
                sch = [ch for ch in srv.l2cap_channel_manager.le_coc_channels.get(sconn.handle, {}).values()
                       if ch.source_cid == wb.s_cid]
                s_att = sch[0].att_mtu if sch else None
                r.check(ecl.mtu == e_mtu and s_att == e_mtu, 'mtu/agreement/eatt',
                        f'enhanced bearer with MTU {ec_mtu} (client) / {es_mtu} (server): ATT_MTU must be {e_mtu}; '
                        f'client bearer says {ecl.mtu}, server bearer says {s_att}')
                ectx = Ctx(rig_, desc + f' eatt(c={ec_mtu},s={es_mtu},mps={e_mps})')
                if tree_ok:
                    await explore(r, ecl, db, objs, rng, e_mtu, '/eatt', ectx, ci == 0)
    await rig_.quiesce()
    wire.sync()
    # what the wire looked like (non-triviality + evidence)
    n_pdus = sum(len(b.pdus) for b in wire.att.bearers.values())
    blobs = sum(1 for b in wire.att.bearers.values() for p in b.pdus if p[2][:1] == bytes([rg.OP_READ_BLOB_REQ]))
    groups = sum(1 for p in fixed.pdus if p[2][:1] == bytes([rg.OP_READ_BY_GROUP_REQ]))
    r.ev('wire_att_pdus', n_pdus)
    r.ev('wire_read_blob_requests', blobs)
    # every PDU on every bearer within the ATT_MTU in force (reads/discovery of this workload only)
    for b in wire.att.bearers.values():
        for _seq, sender, pdu, m in b.pdus:
            if sender == 0:
                r.ev('oracle_evals')
                if len(pdu) > m:
                    r.bad(f'wire/server-pdu-exceeds-mtu/{b.kind}', f'opcode {pdu[0]:#x} of {len(pdu)} bytes with ATT_MTU {m}')
    for where, e in rig_.exceptions:
        r.bad('exception-in-stack/db', f'{where}: {e}')
    nchars = sum(len(s.chars) for s in db.services if s.placed)
    if nchars and (blobs or groups > 2):
        r.sig('db', c_mtu, s_mtu, eatt and (ec_mtu, es_mtu), repr(db.describe()))
    r.sched.add(rig_.schedule_signature)
    r.evals()
    r.sample = {'kind': 'db', 'c_mtu': c_mtu, 's_mtu': s_mtu, 'att_mtu': mtu, 'eatt_mtu': e_mtu,
                'client_is_central': client_central, 'acl_len': lens, 'delay': delay,
                'attributes': db.last_handle, 'unregistered_include': db.has_unregistered_include,
                'db': db.describe()[:4], 'att_pdus': n_pdus, 'read_blob_requests': blobs}


# =============================================================================
# notif: who gets what, as which PDU, how long, and when indicate returns
# =============================================================================
class HB:
    """One client bearer as the harness sees it."""

    def __init__(self, idx, dev, kind, client, cconn, sconn):
        self.idx = idx
        self.dev = dev
        self.kind = kind               # 'fixed' | 'eatt'
        self.client = client
        self.cconn = cconn
        self.sconn = sconn
        self.server_bearer = None
        self.wire: rg.WireBearer | None = None
        self.seen = 0                  # PDUs of self.wire already consumed
        self.proxies = {}              # value handle -> CharacteristicProxy
        self.cccd = {}                 # value handle -> last CCCD value written on this bearer (wire)
        self.cbs = {}                  # value handle -> {'n': count, 'i': count}
        self.cb_log = []               # (value handle, kind, value)
        self.subs = {}                 # value handle -> [{'sid', 'kind', 'cb'}] registered through subscribe()
        self.cb_trace = []             # (sid, value handle, kind, value, phase the harness was in)
        self.hist = ''                 # 'after-timeout' | 'after-cancel' once an indication on it failed
        self.who = 0                   # small id the scoped values are derived from (1 + idx)
        self.conn_who = 0              # id of the fixed bearer of the same connection

    @property
    def name(self):
        return f'b{self.idx}:{self.kind}@dev{self.dev}'


async def notif_case(case, r: R):
    from bumble import att, gatt_client, l2cap
    from bumble.device import Peer
    from vlib import rig as vrig

    rng = random.Random(case['seed'])
    vrig.seed_entropy(case['seed'])
    n_clients = rng.choice([1, 2, 2, 2, 3])
    s_mtu = rng.choice(MTUS)
    es_mtu = rng.choice(EATT_MTUS)
    ref_mtu = rng.choice([23, s_mtu, min(es_mtu, 517)])
    db = gen_db(rng, ref_mtu, max_services=2, allow_unregistered=False,
                props_pool=[0x10, 0x12, 0x20, 0x22, 0x30, 0x30, 0x32, 0x3A, 0x02], all_primary=True)
    subs = [c for s in db.services if s.placed for c in s.chars]
    if not any(c.cccd for c in subs):
        # make sure there is something to subscribe to
        c = rg.Char(gen_uuid(rng, []), 0x32, make_value(7, gen_len(rng, ref_mtu)), rng.random() < 0.4, [])
        db = rg.Db([rg.Svc(gen_uuid(rng, []), True, [], [c])], [0])
        subs = [c]
    delay = rng.choice([0, 0, 1, 2, 5])
    n = 1 + n_clients
    rig_ = vrig.Rig(n, seed=case['seed'], max_delay=delay,
                    le_acl_len=[rng.choice([27, 64, 251]) for _ in range(n)], configs=make_configs(n, {0}))
    srv = rig_.devices[0]
    server = srv.gatt_server
    # characteristics whose value depends on who reads it: 'bearer' (AttributeValueV2: the callback is
    # handed the bearer) and 'conn' (AttributeValue: handed the connection, also on an enhanced bearer).
    # The callbacks only map the object they are handed to the small id the harness gave it.
    who_id: dict[int, int] = {}      # id(server-side Connection / enhanced channel) -> 1 + bearer idx
    for c in subs:
        x = rng.random()
        c.scope = 'bearer' if x < 0.3 else 'conn' if x < 0.45 else None
        c.over = {}                  # who -> value written through that bearer / connection
        if c.scope and rng.random() < 0.5:
            c.value = make_value(len(c.value), rng.choice([1, 7, 22, 23, 40, 64, 100, 255, 300, 512]))

    def scoped_bytes(c, who: int) -> bytes:
        ov = c.over.get(who)
        return ov if ov is not None else make_value((c.handle * 5 + 29 * who) & 0xFF, len(c.value))

    def scoped(c):
        from bumble import gatt

        def rd(obj, c=c):
            return scoped_bytes(c, who_id.get(id(obj), 0))

        def wr(obj, v, c=c):
            c.over[who_id.get(id(obj), 0)] = bytes(v)

        return (att.AttributeValueV2 if c.scope == 'bearer' else gatt.CharacteristicValue)(read=rd, write=wr)

    objs = build_server(db, srv, scoped)
    server.max_mtu = s_mtu
    server.register_eatt(l2cap.LeCreditBasedChannelSpec(psm=att.EATT_PSM, mtu=es_mtu))
    await rig_.power_on()
    wire = Wire(rig_, {})
    bearers: list[HB] = []
    setup = []
    for k in range(1, n):
        if rng.random() < 0.5:
            cconn, sconn = await rig_.connect_le(k, 0)
        else:
            sconn, cconn = await rig_.connect_le(0, k)
        wire.add_link((0, sconn.handle), (k, cconn.handle))
        c_mtu = rng.choice([None] + MTUS)
        if c_mtu is not None:
            await vloop.vwait(Peer(cconn).request_mtu(c_mtu))
        hb = HB(len(bearers), k, 'fixed', cconn.gatt_client, cconn, sconn)
        hb.server_bearer = sconn
        bearers.append(hb)
        n_e = rng.choice([0, 0, 1, 1, 2])
        ec_mtu = rng.choice(EATT_MTUS)
        setup.append((k, c_mtu, n_e, ec_mtu))
        if n_e:
            ecl = await vloop.vwait(gatt_client.Client.connect_eatt(
                cconn, l2cap.LeCreditBasedChannelSpec(psm=att.EATT_PSM, mtu=ec_mtu), n_e))
            for cl in (ecl if isinstance(ecl, list) else [ecl]):
                bearers.append(HB(len(bearers), k, 'eatt', cl, cconn, sconn))
    await rig_.quiesce()
    wire.sync()
    for hb in bearers:
        if hb.kind == 'fixed':
            hb.wire = wire.att.fixed(hb.dev, hb.cconn.handle)
        else:
            hb.wire = wire.att.eatt(hb.dev, hb.cconn.handle, hb.client.bearer.source_cid)
            if hb.wire is None:
                raise RuntimeError('enhanced bearer not found on the wire')
            chans = [ch for ch in srv.l2cap_channel_manager.le_coc_channels.get(hb.sconn.handle, {}).values()
                     if ch.source_cid == hb.wire.s_cid]
            if len(chans) != 1:
                raise RuntimeError(f'server end of enhanced bearer not found ({len(chans)})')
            hb.server_bearer = chans[0]
    for hb in bearers:
        hb.who = 1 + hb.idx
        who_id[id(hb.server_bearer)] = hb.who
    for hb in bearers:
        hb.conn_who = who_id[id(hb.sconn)]
    # each bearer discovers the characteristics it will subscribe to
    for hb in bearers:
        svcs = await vloop.vwait(hb.client.discover_services())
        for sp in svcs:
            for cp in await vloop.vwait(hb.client.discover_characteristics([], sp)):
                hb.proxies[cp.handle] = cp
        for c in subs:
            hb.cbs[c.handle] = {'n': 0, 'i': 0}
            if c.handle not in hb.proxies:
                r.bad('notif/setup/characteristic-not-discovered', f'{hb.name}: value handle {c.handle} missing')
                return
    cccd_handles = {c.cccd.handle: c for c in subs if c.cccd}

    def absorb():
        """Consume new wire PDUs of every bearer: returns {bearer idx: [(seq, sender, pdu)]} and
        keeps the CCCD ground truth up to date."""
        wire.sync()
        out = {}
        for hb in bearers:
            new = hb.wire.pdus[hb.seen:]
            hb.seen = len(hb.wire.pdus)
            out[hb.idx] = new
            for _seq, sender, pdu, _m in new:
                if sender != 0 and pdu[:1] in (b'\x12', b'\x52') and len(pdu) == 5:
                    h = struct.unpack_from('<H', pdu, 1)[0]
                    if h in cccd_handles:
                        hb.cccd[cccd_handles[h].handle] = pdu[3] | (pdu[4] << 8)
        return out

    absorb()

    def ctx():
        return (f'seed={case["seed"]} s_mtu={s_mtu} eatt_server_mtu={es_mtu} clients={setup} '
                f'bearers={[(b.name, b.wire.mtu) for b in bearers]} '
                f'chars={[(c.handle, hex(c.props), len(c.value)) for c in subs]}')

    phase = {'now': ''}              # where the harness is inside a push step (recorded by every callback)
    sids = [0]

    def make_cb(hb: HB, c: rg.Char, kind: str):
        sids[0] += 1

        def cb(v, hb=hb, h=c.handle, kind=kind, sid=sids[0]):
            hb.cb_log.append((h, kind, bytes(v)))
            hb.cb_trace.append((sid, h, kind, bytes(v), phase['now']))
        cb.sid = sids[0]
        return cb

    def sub_kind(c: rg.Char, prefer_notify: bool) -> str:
        if c.props & rg.P_NOTIFY and c.props & rg.P_INDICATE:
            return 'n' if prefer_notify else 'i'
        return 'n' if c.props & rg.P_NOTIFY else 'i'

    async def do_subscribe(hb: HB, c: rg.Char, prefer_notify: bool):
        if c.props & rg.P_NOTIFY and c.props & rg.P_INDICATE:
            kind = 'n' if prefer_notify else 'i'
        elif c.props & rg.P_NOTIFY:
            kind = 'n'
        else:
            kind = 'i'

        cb = make_cb(hb, c, kind)
        ok, _ = await call(r, f'subscribe/{hb.kind}', hb.client.subscribe(hb.proxies[c.handle], cb, prefer_notify))
        await rig_.quiesce()
        absorb()
        if ok:
            hb.cbs[c.handle][kind] += 1
            hb.subs.setdefault(c.handle, []).append({'sid': cb.sid, 'kind': kind, 'cb': cb})
            want = 1 if kind == 'n' else 2
            r.check(hb.cccd.get(c.handle) == want, f'subscribe/cccd-on-wire/{hb.kind}',
                    lambda: f'{hb.name}: subscribe(prefer_notify={prefer_notify}) on props {c.props:#x} wrote CCCD '
                            f'{hb.cccd.get(c.handle)} expected {want}; {ctx()}')
            r.ev('subscriptions')

    async def do_unsubscribe(hb: HB, c: rg.Char):
        had = hb.cbs[c.handle]['n'] + hb.cbs[c.handle]['i']
        ok, _ = await call(r, f'unsubscribe/{hb.kind}', hb.client.unsubscribe(hb.proxies[c.handle]))
        await rig_.quiesce()
        absorb()
        if ok:
            hb.cbs[c.handle] = {'n': 0, 'i': 0}
            hb.subs[c.handle] = []
            if had:
                r.check(hb.cccd.get(c.handle) == 0, f'unsubscribe/cccd-on-wire/{hb.kind}',
                        lambda: f'{hb.name}: after unsubscribe the last CCCD write is {hb.cccd.get(c.handle)}; {ctx()}')
            r.ev('unsubscriptions')

    async def do_raw_cccd(hb: HB, c: rg.Char, value: int, with_response: bool = True):
        ok, _ = await call(r, f'cccd-write/{hb.kind}',
                           hb.client.write_value(c.cccd.handle, struct.pack('<H', value), with_response))
        await rig_.quiesce()
        absorb()
        r.ev('raw_cccd_writes')

    # ---- server-initiated PDUs in the same burst as the response to the request that enabled them ----
    # A server may push the current value from its `subscription` event handler (what profiles do): through the
    # API from a task (the PDU follows the Write Response) or straight from the handler (the PDU precedes it).
    # The handler below is armed for one CCCD write of one bearer at a time and does nothing otherwise.
    armed = {'now': None}

    def make_on_subscription(c: rg.Char, attr):
        def on_subscription(bearer, notify_enabled, indicate_enabled):
            a = armed['now']
            if a is None or a['c'] is not c or bearer is not a['bearer']:
                return
            if a['on'] == 'subscribe' and not (notify_enabled or indicate_enabled):
                return
            if a['on'] == 'unsubscribe' and (notify_enabled or indicate_enabled):
                return
            armed['now'] = None
            a['fired'] = True
            if a['mode'] == 'inline':
                server.send_gatt_pdu(bearer, bytes([a['op']]) + struct.pack('<H', c.handle) + a['value'][:a['room']])
            else:
                fn = server.notify_subscriber if a['op'] == rg.OP_NOTIFY else server.indicate_subscriber
                a['task'] = asyncio.ensure_future(fn(bearer, attr, a['value'], a['force']))
        return on_subscription

    for c_ in subs:
        if c_.cccd:
            objs[id(c_)].on(objs[id(c_)].EVENT_SUBSCRIPTION, make_on_subscription(c_, objs[id(c_)]))

    async def run_held(hb: HB, coro, hold: bool, a: dict):
        """Runs `coro` (a client call of bearer hb). hold: what the client's controller hands to its host is held
        back until the server side has gone quiet; exchanges that precede the CCCD write (subscribe() discovers
        the descriptors first) are let through one by one; once the armed subscription handler has run, the
        Write Response and whatever the server sent with it are released back to back, so that they reach the
        client host in consecutive loop turns."""
        task = asyncio.ensure_future(coro)
        if hold:
            fifo = rig_.c2h[hb.dev].fifo
            fifo.paused = True
            try:
                for _round in range(8):
                    calm = 0
                    for _ in range(20000):
                        await asyncio.sleep(0)
                        calm = calm + 1 if rig_.in_flight == len(fifo.queue) and not task.done() else 0
                        if calm >= 40 or task.done():
                            break
                    if task.done() or a['fired']:
                        break
                    fifo.paused = False
                    for _ in range(5000):
                        await asyncio.sleep(0)
                        if not fifo.queue:
                            break
                    fifo.paused = True
                for e in fifo.queue:
                    e[0] = 0
            finally:
                fifo.paused = False
        return task

    def pdus_for(new, hb: HB, h: int):
        """(position, opcode, value) of the notifications / indications for handle h the server put on hb's wire,
        position of the Write Response, number of confirmations the client sent"""
        sent, rsp, confs = [], None, 0
        for pos, (_seq, sender, pdu, _m) in enumerate(new[hb.idx]):
            if sender == 0 and pdu[:1] in (b'\x1b', b'\x1d') and len(pdu) >= 3 and struct.unpack_from('<H', pdu, 1)[0] == h:
                sent.append((pos, pdu[0], pdu[3:]))
            elif sender == 0 and pdu == b'\x13' and rsp is None:
                rsp = pos
            elif sender != 0 and pdu == b'\x1e':
                confs += 1
        return sent, rsp, confs

    async def do_push_subscribe(hb: HB):
        """subscribe() while the server answers the CCCD write with a notification / indication of its own"""
        c = rng.choice(with_cccd)
        prefer_notify = rng.random() < 0.5
        kind = sub_kind(c, prefer_notify)
        proxy = hb.proxies[c.handle]
        m = hb.wire.mtu
        mode = rng.choice(['task', 'task', 'inline'])
        hold = rng.random() < 0.7
        value = make_value(rng.randint(0, 255), max(0, rng.choice([0, 1, 7, 16, 16, 16, m - 3, m])))
        op = rg.OP_NOTIFY if kind == 'n' else rg.OP_INDICATE
        a = {'c': c, 'bearer': hb.server_bearer, 'on': 'subscribe', 'mode': mode, 'op': op, 'value': value,
             'room': m - 3, 'force': rng.random() < 0.3, 'fired': False, 'task': None}
        cb = make_cb(hb, c, kind)
        updates = []

        def on_update(v):
            updates.append((bytes(v), phase['now']))

        arrivals = []

        def hook(dev, direction, pkt):
            if dev == hb.dev and direction == 'c2h' and pkt[:1] == b'\x02' and len(pkt) >= 5 and \
                    struct.unpack_from('<H', pkt, 1)[0] & 0xFFF == hb.cconn.handle:
                arrivals.append(phase['now'])

        via = rng.choice(['client', 'proxy'])       # Client.subscribe(proxy, f) / CharacteristicProxy.subscribe(f)

        async def subscribe_then_mark():
            if via == 'proxy':
                await proxy.subscribe(cb, prefer_notify)
            else:
                await hb.client.subscribe(proxy, cb, prefer_notify)
            phase['now'] = 'returned'

        for b in bearers:
            b.cb_log.clear()
        n_before = len(hb.cb_trace)
        before = {'n': hb.cbs[c.handle]['n'], 'i': hb.cbs[c.handle]['i']}
        proxy.on('update', on_update)
        rig_.on_hci_delivery.append(hook)
        phase['now'] = 'pending'
        armed['now'] = a
        try:
            task = await run_held(hb, subscribe_then_mark(), hold, a)
            ok, _ = await call(r, f'subscribe/{hb.kind}', task)
            await rig_.quiesce()
            if a['task'] is not None:
                await call(r, f'delivery/{"notify" if kind == "n" else "indicate"}_subscriber/{hb.kind}/'
                              f'from-subscription-handler', a['task'])
                await rig_.quiesce()
        finally:
            armed['now'] = None
            phase['now'] = ''
            rig_.on_hci_delivery.remove(hook)
            proxy.remove_listener('update', on_update)
        new = absorb()
        r.ev('pushes_on_subscribe')
        if not ok:
            return
        hb.cbs[c.handle][kind] += 1
        hb.subs.setdefault(c.handle, []).append({'sid': cb.sid, 'kind': kind, 'cb': cb, 'via': via})
        r.ev('subscriptions')
        r.ev(f'pushes_on_subscribe_through_{via}_api')
        sent, rsp, confs = pdus_for(new, hb, c.handle)
        if not a['fired'] or not sent or rsp is None:
            r.ev('pushes_on_subscribe_without_pdu')
            return
        K = 'notification' if kind == 'n' else 'indication'
        r.ev('oracle_evals')
        if len(sent) != 1 or sent[0][1] != op:
            r.bad(f'delivery/on-subscription/{hb.kind}/{K}/{mode}',
                  f'{hb.name}: the subscription handler pushed one {K} for handle {c.handle}; on the wire: '
                  f'{[(hex(o), len(v)) for _p, o, v in sent]}; {ctx()}')
            return
        pos, _op, wire_value = sent[0]
        # arrival class: the PDU precedes the Write Response / reached the client host before subscribe()
        # resumed (the last ACL packet of the burst did) / reached it afterwards
        arrival = 'before-response' if pos < rsp else \
            'with-response' if arrivals and arrivals[-1] == 'pending' else 'after-return'
        r.ev('pushed_pdus_on_wire')
        r.ev(f'pushed_on_subscribe_{arrival}')
        r.ev(f'pushed_on_subscribe_{hb.kind}')
        r.ev(f'pushed_on_subscribe_{K}')
        if hold:
            r.ev('pushed_on_subscribe_released_back_to_back')
        trace = hb.cb_trace[n_before:]
        mine = [t for t in trace if t[0] == cb.sid]
        where = (f'{hb.name}: subscribe(prefer_notify={prefer_notify}) to handle {c.handle} (props {c.props:#x}); the '
                 f'server\'s subscription handler pushed a {K} of {len(value)} bytes ({mode}: '
                 f'{"straight from the handler, before the Write Response" if mode == "inline" else "through the API from a task"}), '
                 f'which is on the wire {arrival.replace("-", " ")} (PDU position {pos}, Write Response at {rsp}; client '
                 f'host packets held and released back to back: {hold}); ')
        r.ev('pushed_callback_checks')
        r.ev('oracle_evals')
        if len(mine) != 1:
            r.bad(f'callback/on-subscribe/missed/{hb.kind}/{K}/{arrival}',
                  where + f'the subscriber passed to subscribe() was called {len(mine)} times; {ctx()}')
        elif mine[0][3] != wire_value:
            r.bad(f'callback/on-subscribe/value/{hb.kind}/{K}', where + f'the subscriber got {len(mine[0][3])} bytes, '
                  f'the PDU carries {len(wire_value)}; {ctx()}')
        # the subscribers registered earlier for that kind of PDU on this bearer, once each
        others = [t for t in trace if t[0] != cb.sid and t[1] == c.handle and t[2] == kind]
        r.ev('oracle_evals')
        if len(others) != before[kind] or any(t[3] != wire_value for t in others):
            r.bad(f'callback/on-subscribe/earlier-subscribers/{hb.kind}/{K}/{arrival}',
                  where + f'{before[kind]} subscribers were registered before, {len(others)} calls; {ctx()}')
        r.ev('oracle_evals')
        if len(updates) != 1 or updates[0][0] != wire_value:
            r.bad(f'callback/on-subscribe/update-event/{hb.kind}/{K}/{arrival}',
                  where + f'the characteristic proxy emitted {len(updates)} update events; {ctx()}')
        if kind == 'i':
            r.ev('oracle_evals')
            if confs != 1:
                r.bad(f'indication/confirmations/{hb.kind}/on-subscribe',
                      where + f'{confs} confirmations on the wire for one indication; {ctx()}')
        if len(sample_steps) < 10 and not any('pushed_on_subscribe' in x for x in sample_steps):
            sample_steps.append({'pushed_on_subscribe': hb.name, 'char': c.handle, 'kind': K, 'how': mode,
                                 'arrival': arrival, 'callbacks': len(mine) + len(others)})

    async def do_push_unsubscribe(hb: HB):
        """unsubscribe() of ONE subscriber or of all, while the server answers the CCCD write with a forced
        notification / indication, then forced PDUs after unsubscribe() returned: a removed subscriber is never
        called after the return, the remaining ones get every PDU"""
        cands = [c for c in with_cccd if hb.subs.get(c.handle)]
        if not cands:
            return
        c = rng.choice(cands)
        proxy = hb.proxies[c.handle]
        regs = hb.subs[c.handle]
        form = rng.choice(['one', 'one', 'all'])
        gone = [rng.choice(regs)] if form == 'one' else list(regs)
        stay = [x for x in regs if x not in gone]
        m = hb.wire.mtu
        K0 = gone[0]['kind']
        op = rg.OP_NOTIFY if K0 == 'n' else rg.OP_INDICATE
        mode = rng.choice(['task', 'inline'])
        hold = rng.random() < 0.7
        value = make_value(rng.randint(0, 255), rng.choice([0, 1, 7, 16, 16]))
        a = {'c': c, 'bearer': hb.server_bearer, 'on': 'unsubscribe', 'mode': mode, 'op': op, 'value': value,
             'room': m - 3, 'force': True, 'fired': False, 'task': None}

        async def unsubscribe_then_mark():
            if form == 'one' and gone[0].get('via') == 'proxy':
                await proxy.unsubscribe(gone[0]['cb'])
            elif form == 'one':
                await hb.client.unsubscribe(proxy, gone[0]['cb'])
            else:
                await hb.client.unsubscribe(proxy)
            phase['now'] = 'returned'

        for b in bearers:
            b.cb_log.clear()
        n_before = len(hb.cb_trace)
        phase['now'] = 'pending'
        armed['now'] = a
        try:
            task = await run_held(hb, unsubscribe_then_mark(), hold, a)
            ok, _ = await call(r, f'unsubscribe/{hb.kind}', task)
            await rig_.quiesce()
            if a['task'] is not None:
                await call(r, f'delivery/{"notify" if K0 == "n" else "indicate"}_subscriber/{hb.kind}/'
                              f'from-subscription-handler', a['task'])
                await rig_.quiesce()
        finally:
            armed['now'] = None
        new = absorb()
        r.ev('pushes_on_unsubscribe')
        r.ev(f'unsubscribe_form_{form}')
        if not ok:
            phase['now'] = ''
            return
        hb.subs[c.handle] = stay
        hb.cbs[c.handle] = {'n': sum(1 for x in stay if x['kind'] == 'n'), 'i': sum(1 for x in stay if x['kind'] == 'i')}
        r.ev('unsubscriptions')
        sent, rsp, _confs = pdus_for(new, hb, c.handle)
        if a['fired'] and sent:
            r.ev('pushed_on_unsubscribe_pdus_on_wire')
        # after the return: forced PDUs of both kinds the characteristic supports
        phase['now'] = 'after'
        after_pdus = []
        for kk, bit, api in (('n', rg.P_NOTIFY, 'notify_subscriber'), ('i', rg.P_INDICATE, 'indicate_subscriber')):
            if not c.props & bit:
                continue
            v = make_value(rng.randint(0, 255), rng.choice([1, 5, 16]))
            ok2, _ = await call(r, f'delivery/{api}/{hb.kind}/force', getattr(server, api)(hb.server_bearer, objs[id(c)], v, True))
            await rig_.quiesce()
            got, _rsp, _c = pdus_for(absorb(), hb, c.handle)
            if ok2 and len(got) == 1:
                after_pdus.append((kk, got[0][2]))
                r.ev('forced_pdus_after_unsubscribe_returned')
        phase['now'] = ''
        trace = hb.cb_trace[n_before:]
        gone_ids = {x['sid'] for x in gone}
        where = (f'{hb.name}: unsubscribe({"proxy, subscriber" if form == "one" else "proxy"}) of handle {c.handle} with '
                 f'{len(regs)} registered subscribers ({len(stay)} stay); the server pushed a forced PDU from its '
                 f'subscription handler: {a["fired"]} ({mode}); then {len(after_pdus)} forced PDUs after the return; ')
        r.ev('unsubscribe_return_checks')
        r.ev('oracle_evals')
        late = [t for t in trace if t[0] in gone_ids and t[4] in ('returned', 'after')]
        if late:
            r.bad(f'callback/after-unsubscribe-returned/{hb.kind}/{form}',
                  where + f'a removed subscriber was called {len(late)} times after unsubscribe() had returned '
                  f'(phases {[t[4] for t in late]}); {ctx()}')
        early = [t for t in trace if t[0] in gone_ids and t[4] == 'pending']
        if early:
            r.ev('removed_subscriber_called_while_unsubscribe_pending')      # not pinned
        # the subscribers that stay get every PDU of their kind that came after the return
        for kk, wire_value in after_pdus:
            want = [x['sid'] for x in stay if x['kind'] == kk]
            got = [t[0] for t in trace if t[4] == 'after' and t[2] == kk and t[3] == wire_value and t[0] not in gone_ids]
            r.ev('remaining_subscriber_checks')
            r.ev('oracle_evals')
            if sorted(got) != sorted(want):
                r.bad(f'callback/after-unsubscribe/remaining-subscribers/{hb.kind}/{form}',
                      where + f'{len(want)} subscribers of kind {kk} stay registered, {len(got)} calls for the forced '
                      f'PDU; {ctx()}')

    # ---- per-bearer state through every read path ---------------------------------------------
    def exp_attr(b: HB, h: int) -> bytes:
        """What a read of handle `h` over bearer `b` must return (spec + what was written on the wire)."""
        kind = db.attrs[h][1]
        if kind == 'cccd':
            return struct.pack('<H', b.cccd.get(cccd_handles[h].handle, 0))
        if kind == 'value':
            cc = db.attrs[h][2]
            if cc.scope == 'bearer':
                return scoped_bytes(cc, b.who)
            if cc.scope == 'conn':
                return scoped_bytes(cc, b.conn_who)
        return db.expected_value(h)

    def attr_kind(h: int) -> str:
        kind = db.attrs[h][1]
        if kind == 'value':
            sc = db.attrs[h][2].scope
            return f'{sc}-scoped-value' if sc else 'plain-value'
        return kind

    read_targets = [c.cccd.handle for c in subs if c.cccd] + [c.handle for c in subs if c.scope]
    short_handles = sorted(h for h in db.attrs if db.attrs[h][1] in ('cccd', 'service', 'chardecl')
                           or (db.attrs[h][1] == 'value' and db.attrs[h][2].scope and len(db.attrs[h][2].value) <= 7))
    READ_PATHS = ['read-api', 'read', 'blob', 'by-type', 'by-type-api', 'multiple', 'multiple-variable',
                  'find-by-type-value']

    async def raw_exchange(b: HB, req: bytes) -> list:
        """A hand-written request goes out on `b`; returns the PDUs the server put on that bearer."""
        b.client.send_gatt_pdu(req)
        await rig_.quiesce()
        new = absorb()
        got_req = [p for _s, sender, p, _m in new[b.idx] if sender != 0]
        if got_req != [req]:
            raise RuntimeError(f'harness: request {req.hex()} seen on the wire of {b.name} as {[p.hex() for p in got_req]}')
        return [p for _s, sender, p, _m in new[b.idx] if sender == 0]

    def differing(b: HB, h: int):
        """(differs from another bearer of the same connection, eatt differing from its fixed bearer)"""
        e = exp_attr(b, h)
        same_conn = [o for o in bearers if o is not b and o.sconn is b.sconn]
        d1 = any(exp_attr(o, h) != e for o in same_conn)
        d2 = b.kind == 'eatt' and any(o.kind == 'fixed' and exp_attr(o, h) != e for o in same_conn)
        return d1, d2

    async def do_read(b: HB, h: int | None = None, path: str | None = None, hist: str = ''):
        m = b.wire.mtu
        if h is None:
            h = rng.choice(read_targets)
        path = path or rng.choice(READ_PATHS)
        exp = exp_attr(b, h)
        if path == 'find-by-type-value' and (len(db.attrs[h][0]) != 2 or len(exp) > m - 7):
            path = 'read'           # the request carries a 16-bit type and the whole value
        if path in ('multiple', 'multiple-variable'):
            per = 2 if path == 'multiple-variable' else 0
            hs, total = [h], per + len(exp)
            pool = [x for x in short_handles if x != h]
            rng.shuffle(pool)
            for x in pool[:rng.choice([1, 2, 3])]:
                if total + per + len(exp_attr(b, x)) <= m - 1 and len(exp_attr(b, x)) <= 251:
                    hs.append(x)
                    total += per + len(exp_attr(b, x))
            rng.shuffle(hs)
            if len(hs) < 2 or total > m - 1 or len(exp) > 251:
                path = 'read'       # (see ASSUMPTIONS: Read Multiple is only judged on sets that fit untruncated)
        ak = attr_kind(h)
        key = f'per-bearer-read/{ak}/{path}/{b.kind}' + (f'/{hist}' if hist else '')
        d1, d2 = differing(b, h)

        def where():
            others = {o.name: exp_attr(o, h)[:8].hex() for o in bearers if o is not b and o.sconn is b.sconn}
            return (f'{b.name} (ATT_MTU {m}) handle {h} ({ak}); this bearer must see {exp[:8].hex()}'
                    f'{".." if len(exp) > 8 else ""} ({len(exp)} bytes), the other bearers of the connection '
                    f'{others}; {ctx()}')

        verdict = None      # (ok, text)
        if path == 'read-api':
            ok, v = await call(r, key, b.client.read_value(h))
            await rig_.quiesce()
            absorb()
            if not ok:
                return
            verdict = (bytes(v) == exp, f'read_value returned {len(v)} bytes {bytes(v)[:8].hex()}')
        elif path == 'by-type-api':
            u = db.attrs[h][0]
            ok, vals = await call(r, key, b.client.read_characteristics_by_uuid(uuid_obj(u), None))
            await rig_.quiesce()
            absorb()
            if not ok:
                return
            limit = min(m - 4, 253)
            want = [exp_attr(b, x)[:limit] for x in sorted(db.attrs) if rg.u128(db.attrs[x][0]) == rg.u128(u)]
            verdict = ([bytes(v) for v in vals] == want,
                       f'read_characteristics_by_uuid returned {[bytes(v)[:4].hex() for v in vals]} expected '
                       f'{[v[:4].hex() for v in want]}')
        else:
            if path == 'read':
                req = struct.pack('<BH', rg.OP_READ_REQ, h)
                allowed = [bytes([rg.OP_READ_RSP]) + exp[:m - 1]]
            elif path == 'blob':
                off = rng.choice([0, 1, 2, len(exp), len(exp) + 1, m - 1, rng.randint(0, max(1, len(exp)))])
                req = struct.pack('<BHH', rg.OP_READ_BLOB_REQ, h, off)
                allowed = []
                if off > len(exp):
                    allowed.append(rg.error_rsp(rg.OP_READ_BLOB_REQ, h, 0x07))      # Invalid Offset
                else:
                    allowed.append(bytes([rg.OP_READ_BLOB_RSP]) + exp[off:off + m - 1])
                if len(exp) <= m - 1:
                    allowed.append(rg.error_rsp(rg.OP_READ_BLOB_REQ, h, 0x0B))      # Attribute Not Long (may)
            elif path == 'by-type':
                u = db.attrs[h][0]
                svc = [s for s in db.services if s.placed and s.handle <= h <= s.end][0]
                lo = rng.choice([1, h, svc.handle])
                hi = rng.choice([0xFFFF, h, svc.end])
                req = struct.pack('<BHH', rg.OP_READ_BY_TYPE_REQ, lo, hi) + rg.pdu_uuid(u)
                limit = min(m - 4, 253)
                ents = []
                for x in sorted(db.attrs):
                    if lo <= x <= hi and rg.u128(db.attrs[x][0]) == rg.u128(u):
                        v = exp_attr(b, x)[:limit]
                        if ents and (len(v) != len(ents[0][1]) or 2 + (len(ents) + 1) * (2 + len(v)) > m):
                            break
                        ents.append((x, v))
                # any non-empty prefix of the run of equal-length entries is a valid response
                allowed = [rg.read_by_type_rsp(ents[:k]) for k in range(1, len(ents) + 1)]
            elif path == 'find-by-type-value':
                # which attributes of this type hold, for THIS bearer, the value this bearer must see
                svc = [s for s in db.services if s.placed and s.handle <= h <= s.end][0]
                lo = rng.choice([1, h, svc.handle])
                hi = rng.choice([0xFFFF, h, svc.end])
                req = struct.pack('<BHH', rg.OP_FIND_BY_TYPE_REQ, lo, hi) + db.attrs[h][0] + exp
                hits = [(x, x) for x in sorted(db.attrs) if lo <= x <= hi
                        and rg.u128(db.attrs[x][0]) == rg.u128(db.attrs[h][0]) and exp_attr(b, x) == exp]
                hits = hits[:(m - 1) // 4]
                allowed = [rg.find_by_type_rsp(hits[:k]) for k in range(1, len(hits) + 1)]
            elif path == 'multiple':
                req = bytes([0x0E]) + b''.join(struct.pack('<H', x) for x in hs)
                allowed = [bytes([0x0F]) + b''.join(exp_attr(b, x) for x in hs)]
            else:
                req = bytes([0x20]) + b''.join(struct.pack('<H', x) for x in hs)
                allowed = [bytes([0x21]) + b''.join(struct.pack('<H', len(exp_attr(b, x))) + exp_attr(b, x)
                                                    for x in hs)]
            rsp = await raw_exchange(b, req)
            verdict = (len(rsp) == 1 and rsp[0] in allowed,
                       f'request {req.hex()} answered {[p[:24].hex() for p in rsp]}, allowed '
                       f'{[p[:24].hex() for p in allowed[:3]]}')
        r.ev('bearer_read_checks')
        r.ev(f'bearer_read_{path.replace("-", "_")}')
        if b.kind == 'eatt':
            r.ev('bearer_read_checks_eatt')
        if d1:
            r.ev('bearer_read_checks_state_differs')
        if d2:
            r.ev('bearer_read_checks_eatt_differs_from_fixed')
        if hist:
            r.ev('requests_after_failed')
            r.ev(f'requests_{hist.replace("-", "_")}')
        r.check(verdict[0], key, lambda: f'{verdict[1]}; {where()}')

    async def do_client_fault(b: HB):
        """A client request whose response does not reach the client (lost / delivered only after the client
        gave up) fails with a timeout, or the pending call is cancelled; the next request on that bearer must
        be sent and answered as usual."""
        mode = rng.choice(['timeout/lost', 'timeout/late', 'timeout/late', 'cancel/lost', 'cancel/late'])
        if b.kind == 'eatt':
            mode = mode.replace('lost', 'late')      # dropping a K-frame would also lose an L2CAP credit
        fk = mode.split('/')[0]
        h = rng.choice([c.cccd.handle for c in with_cccd])       # 2-byte value: the response is one ACL packet
        cid = rg.ATT_CID if b.kind == 'fixed' else b.wire.c_cid
        held = []

        def flt(pkt: bytes):
            if pkt[:1] == b'\x02' and len(pkt) >= 9:
                hf, _ln, _l2, pcid = struct.unpack_from('<HHHH', pkt, 1)
                if (hf & 0xFFF) == b.cconn.handle and ((hf >> 12) & 3) != 1 and pcid == cid:
                    held.append(pkt)
                    return None
            return pkt

        rig_.c2h[b.dev].filters.append(flt)
        t0 = loop.time()
        task = asyncio.ensure_future(b.client.read_value(h))
        premature = False
        if fk == 'cancel':
            await rig_.quiesce()
            premature = task.done()
            task.cancel()
        done, _pending = await asyncio.wait([task], timeout=vloop.T_V)
        if not done:
            outcome = 'hang'
            task.cancel()
        elif task.cancelled():
            outcome = 'cancelled'
        elif task.exception() is not None:
            outcome = f'raised/{type(task.exception()).__name__}'
        else:
            outcome = 'returned'
        elapsed = loop.time() - t0
        rig_.c2h[b.dev].filters.remove(flt)
        if mode.endswith('late'):
            for pkt in held:
                rig_.c2h[b.dev].on_packet(pkt)
        await rig_.quiesce()
        absorb()
        r.ev('failed_client_requests')
        r.ev(f'failed_client_requests_{fk}')
        r.ev('oracle_evals')
        where = (f'read_value({h}) on {b.name} with the response withheld at the client host ({mode}, '
                 f'{len(held)} packets): {outcome} after {elapsed:g} virtual s; {ctx()}')
        if len(held) != 1:
            raise RuntimeError(f'harness: expected one response packet, held {len(held)}')
        if outcome == 'hang':
            r.bad(f'read/unanswered-request/{fk}/hang/{b.kind}', where)
            return
        if fk == 'timeout':
            if outcome == 'returned':
                r.bad(f'read/unanswered-request/returned-a-value/{b.kind}', where)
            elif 'Timeout' not in outcome:
                r.bad(f'read/unanswered-request/{outcome}/{b.kind}', where)
            elif elapsed < 1.0:
                r.bad(f'read/unanswered-request/did-not-wait/{b.kind}', where)
        elif premature or outcome != 'cancelled':
            r.bad(f'read/unanswered-request/cancel/{outcome}/{b.kind}', where)
        hist = 'after-request-timeout' if fk == 'timeout' else 'after-request-cancel'
        for _ in range(2):
            await do_read(b, None, rng.choice(['read-api', 'by-type-api', 'read-api', 'read']), hist)

    async def do_scoped_write(b: HB):
        cs = [c for c in subs if c.scope]
        if not cs:
            return
        c = rng.choice(cs)
        m = b.wire.mtu
        data = make_value(rng.randint(0, 255), max(0, min(512, rng.choice([0, 1, 2, m - 4, m - 3, rng.randint(0, m - 3)]))))
        with_response = rng.random() < 0.6
        before = dict(c.over)
        ok, _ = await call(r, f'per-bearer-write/{c.scope}-scoped-value/{b.kind}',
                           b.client.write_value(c.handle, data, with_response))
        await rig_.quiesce()
        absorb()
        if not ok:
            return
        who = b.who if c.scope == 'bearer' else b.conn_who
        want = {**before, who: data}
        got = dict(c.over)
        r.ev('bearer_write_checks')
        r.check(got == want, f'per-bearer-write/{c.scope}-scoped-value/{b.kind}',
                lambda: f'{b.name} wrote {len(data)} bytes to handle {c.handle} ({c.scope}-scoped): the write '
                        f'callback stored it for ids {sorted(k for k in got if got[k] != before.get(k))} '
                        f'(0 = an object that is neither a connection nor a bearer of this server), expected '
                        f'for id {who} only; {ctx()}')
        c.over = want                # keep the model in step with what the peer did
        await do_read(b, c.handle, rng.choice(['read-api', 'read', 'blob']))

    with_cccd = [c for c in subs if c.cccd]
    for hb in bearers:
        for c in with_cccd:
            if rng.random() < 0.55:
                await do_subscribe(hb, c, rng.random() < 0.5)

    delivered = suppressed = 0
    steps = rng.randint(10, 20)
    sample_steps = []
    loop = asyncio.get_running_loop()
    FAULTS = ['timeout/silent', 'timeout/silent', 'timeout/lost', 'timeout/late', 'cancel/silent', 'cancel/late']

    def conf_matcher(b: HB):
        """Recognises, at the server's controller->host boundary, the ACL packet that carries the Handle
        Value Confirmation of bearer `b` (a confirmation is 1 byte: never fragmented)."""
        body = b'\x1e' if b.kind == 'fixed' else b'\x01\x00\x1e'
        l2 = struct.pack('<HH', len(body), rg.ATT_CID if b.kind == 'fixed' else b.wire.s_cid) + body

        def match(pkt: bytes) -> bool:
            if pkt[:1] != b'\x02' or len(pkt) < 5:
                return False
            hf, ln = struct.unpack_from('<HH', pkt, 1)
            return (hf & 0xFFF) == b.sconn.handle and pkt[5:5 + ln] == l2
        return match

    followup = None      # (bearer, characteristic): the next step indicates to it again
    step = 0
    while step < steps or followup is not None:
        step += 1
        fault = None
        is_followup = False
        op = 'api' if followup is not None else rng.choices(
            ['api', 'sub', 'unsub', 'cccd', 'read', 'write', 'fault', 'client-fault', 'push-sub', 'push-unsub'],
            [12, 1.5, 1.0, 1.6, 5.0, 0.8, 1.8, 0.9, 1.3, 0.7])[0]
        hb = rng.choice(bearers)
        if op == 'push-sub':
            await do_push_subscribe(hb)
            continue
        if op == 'push-unsub':
            await do_push_unsubscribe(hb)
            continue
        if op == 'sub':
            await do_subscribe(hb, rng.choice(with_cccd), rng.random() < 0.5)
            continue
        if op == 'unsub':
            await do_unsubscribe(hb, rng.choice(with_cccd))
            continue
        if op == 'cccd':
            await do_raw_cccd(hb, rng.choice(with_cccd), rng.choice([0, 1, 2, 3, 3]), rng.random() < 0.7)
            continue
        if op == 'read':
            await do_read(hb)
            continue
        if op == 'write':
            await do_scoped_write(hb)
            continue
        if op == 'client-fault':
            await do_client_fault(hb)
            continue
        api = rng.choice(['notify_subscriber', 'indicate_subscriber', 'notify_subscribers', 'indicate_subscribers'])
        force = rng.random() < 0.35
        c = rng.choice(with_cccd) if rng.random() < 0.9 else rng.choice(subs)
        if op == 'fault' or followup is not None:
            # an indication that is never confirmed / whose call is cancelled, then (next step) another
            # indication to the same bearer
            if followup is not None:
                hb, c = followup
                followup = None
                is_followup = True
            else:
                fault = rng.choice(FAULTS)
                c = rng.choice(with_cccd)
                if fault == 'timeout/lost' and hb.kind == 'eatt':
                    fault = 'timeout/late'    # dropping a K-frame would also lose an L2CAP credit
            subscribed = bool(hb.cccd.get(c.handle, 0) & 2)
            if subscribed and not (fault or '').startswith('cancel') and rng.random() < 0.5:
                api = 'indicate_subscribers'
                force = rng.random() < 0.3
            else:
                api = 'indicate_subscriber'
                # a faulted call addresses the victim only (a fixed bearer without force addresses
                # every bearer of the connection one after the other)
                force = (not subscribed) or (fault is not None and hb.kind == 'fixed') or rng.random() < 0.4
        attr = objs[id(c)]
        K = 'n' if api.startswith('notify') else 'i'
        bit = 1 if K == 'n' else 2
        want_op = rg.OP_NOTIFY if K == 'n' else rg.OP_INDICATE
        single = api.endswith('subscriber')
        if rng.random() < 0.3:
            value = None
            full = bytes(c.value)
        else:
            m = rng.choice(bearers).wire.mtu
            value = make_value(rng.randint(0, 255), max(0, min(512, rng.choice(
                [0, 1, m - 4, m - 3, m - 2, m - 1, m, 2 * m, 512, rng.randint(0, 512)]))))
            full = value

        def full_of(b: HB, value=value, full=full, c=c) -> bytes:
            """The value the PDU on bearer `b` carries before truncation (value=None: the server reads the
            attribute on behalf of that bearer)."""
            if value is None and c.scope:
                return scoped_bytes(c, b.who if c.scope == 'bearer' else b.conn_who)
            return full

        sub_now = {b.idx for b in bearers if b.cccd.get(c.handle, 0) & bit}
        if single:
            if force:
                exact = {hb.idx}
            elif hb.kind == 'eatt':
                exact = {hb.idx} & sub_now
            else:
                exact = {b.idx for b in bearers if b.sconn is hb.sconn} & sub_now
            must = exact
        else:
            exact = None if force else set(sub_now)
            must = set(sub_now)
        cls = f'{hb.kind}/' if single else ''
        fcls = 'force' if force else 'noforce'
        # history class of the bearers this call addresses: an earlier indication on one of them failed
        hists = sorted({b.hist for b in bearers if b.hist and K == 'i' and (exact is None or b.idx in exact)})
        hsfx = f'/{"+".join(hists)}' if hists else ''
        b0 = len(rig_.boundary_log)
        for b in bearers:
            b.cb_log.clear()
        if single:
            aw = getattr(server, api)(hb.server_bearer, attr, value, force)
        else:
            aw = getattr(server, api)(attr, value, force)
        if fault is None:
            ok, _ = await call(r, f'delivery/{api}/{cls}{fcls}{hsfx}', aw)
            b1 = len(rig_.boundary_log)
        else:
            # ---- the confirmation of `hb` does not reach the server while the call is pending ----
            held = []
            flt = None
            if fault.endswith('silent'):
                hb.client.send_confirmation = lambda _c: None      # this peer does not confirm
            else:
                match = conf_matcher(hb)

                def flt(pkt, match=match, held=held):
                    if match(pkt):
                        held.append(pkt)
                        return None
                    return pkt

                rig_.c2h[0].filters.append(flt)
            t0 = loop.time()
            premature = False
            # (not vloop.vwait: the server reports its own timeout with the builtin TimeoutError, which
            # wait_for's expiry could not be told from)
            task = asyncio.ensure_future(aw)
            if fault.startswith('cancel'):
                await rig_.quiesce()            # the indication is out; no virtual time has passed
                premature = task.done()
                task.cancel()
            done, _pending = await asyncio.wait([task], timeout=vloop.T_V)
            if not done:
                outcome = 'hang'
                task.cancel()
            elif task.cancelled():
                outcome = 'cancelled'
            elif task.exception() is not None:
                outcome = f'raised/{type(task.exception()).__name__}'
            else:
                outcome = 'returned'
            elapsed = loop.time() - t0
            b1 = len(rig_.boundary_log)
            if flt is None:
                del hb.client.send_confirmation
            else:
                rig_.c2h[0].filters.remove(flt)
                if fault.endswith('late'):
                    for pkt in held:            # the confirmation arrives when nothing is pending any more
                        rig_.c2h[0].on_packet(pkt)
            fk = fault.split('/')[0]
            r.ev('failed_indications')
            r.ev(f'failed_indications_{fault.replace("/", "_")}')
            r.ev('oracle_evals')
            ok = True
            where = (f'{api}(target={hb.name if single else "all"}, force={force}) with the confirmation of {hb.name} '
                     f'withheld ({fault}): {outcome} after {elapsed:g} virtual s; {ctx()}')
            if outcome == 'hang':
                r.bad(f'indication/{fk}/{api}/hang{hsfx}', where)
                ok = False
            elif fk == 'timeout':
                if outcome == 'returned' and single:
                    r.bad(f'indication/unconfirmed-call-succeeded/{api}/{hb.kind}{hsfx}', where)
                elif outcome.startswith('raised/') and 'Timeout' not in outcome:
                    r.bad(f'delivery/{api}/{cls}{fcls}{hsfx}/{outcome}', where)
                    ok = False
                elif elapsed < 1.0:
                    r.bad(f'indication/unconfirmed-call-did-not-wait/{api}/{hb.kind}{hsfx}', where)
            else:
                if premature:
                    r.bad(f'indication/returned-before-confirmation/{api}/{hb.kind}/{fcls}{hsfx}', where)
                elif outcome != 'cancelled':
                    r.bad(f'indication/cancel/{api}/{hb.kind}{hsfx}/{outcome}', where)
                    ok = False
        await rig_.quiesce()
        r.ev('notif_api_calls')
        r.ev(f'api_{api}_{fcls}')
        new = absorb()
        if is_followup:
            r.ev('followup_indications')
        if fault is not None:
            hb_hist = 'after-timeout' if fault.startswith('timeout') else 'after-cancel'
            followup = (hb, c)
        if not ok:
            if fault is not None:
                hb.hist = hb_hist
            continue
        confirm_pos = {}
        if K == 'i':
            # where (in host-boundary order) each confirmation reached the server's host
            for seq, _d, _dir, handle, cid, payload in vrig.l2cap_log(rig_.boundary_log[b0:], dev=0, direction='c2h'):
                for b in bearers:
                    if handle != b.sconn.handle:
                        continue
                    if (b.kind == 'fixed' and cid == rg.ATT_CID and payload == b'\x1e') or \
                       (b.kind == 'eatt' and cid == b.wire.s_cid and payload == b'\x01\x00\x1e'):
                        confirm_pos.setdefault(b.idx, seq)
        step_rec = {'api': api, 'force': force, 'target': hb.name if single else None, 'char': c.handle,
                    'value_len': len(full), 'subscribed': sorted(sub_now), 'got': {}}
        if fault is not None:
            step_rec['confirmation_withheld'] = (hb.name, fault)
        if is_followup:
            step_rec['after_failed_indication_on'] = (hb.name, hb.hist)
        for b in bearers:
            bcls = f'{b.kind}/{fcls}' + (f'/{b.hist}' if b.hist and K == 'i' else '')
            victim = fault is not None and b is hb
            full = full_of(b)
            sent = [(seq, pdu) for seq, sender, pdu, _m in new[b.idx]
                    if sender == 0 and pdu[:1] in (b'\x1b', b'\x1d') and len(pdu) >= 3
                    and struct.unpack_from('<H', pdu, 1)[0] == c.handle]
            confs = [seq for seq, sender, pdu, _m in new[b.idx] if sender != 0 and pdu == b'\x1e']
            stray = [pdu[0] for _seq, sender, pdu, _m in new[b.idx]
                     if sender == 0 and pdu[:1] in (b'\x1b', b'\x1d') and len(pdu) >= 3
                     and struct.unpack_from('<H', pdu, 1)[0] != c.handle]
            r.ev('oracle_evals')
            if stray:
                r.bad(f'delivery/{api}/other-handle/{bcls}', f'{b.name} got PDUs for another handle: {stray}; {ctx()}')
            r.ev('wire_notifications', sum(1 for _s, p in sent if p[0] == rg.OP_NOTIFY))
            r.ev('wire_indications', sum(1 for _s, p in sent if p[0] == rg.OP_INDICATE))
            if sent:
                step_rec['got'][b.name] = [hex(p[0]) for _s, p in sent]
            expected_here = b.idx in must
            r.ev('oracle_evals')
            if expected_here and not sent:
                r.bad(f'delivery/{api}/missed/{bcls}',
                      f'{b.name} is subscribed (CCCD {b.cccd.get(c.handle)}) to handle {c.handle} but got nothing from '
                      f'{api}(target={hb.name if single else "all"}, force={force}); {ctx()}')
                continue
            if exact is not None and b.idx not in exact and sent:
                r.bad(f'delivery/{api}/to-unsubscribed/{bcls}',
                      f'{b.name} (CCCD {b.cccd.get(c.handle)}) got {[p.hex()[:12] for _s, p in sent]} from '
                      f'{api}(target={hb.name if single else "all"}, force={force}); {ctx()}')
                continue
            if not sent:
                if b.idx in sub_now or exact is not None:
                    suppressed += 1
                # nothing sent: no callback may have fired
                r.ev('oracle_evals')
                if b.cb_log:
                    r.bad(f'callback/spurious/{bcls}', f'{b.name}: callbacks {b.cb_log[:3]} without any PDU; {ctx()}')
                continue
            delivered += 1
            r.ev('oracle_evals')
            if len(sent) != 1:
                r.bad(f'delivery/{api}/duplicated/{bcls}', f'{b.name} got {len(sent)} PDUs for one call; {ctx()}')
                continue
            seq, pdu = sent[0]
            r.ev('oracle_evals')
            if pdu[0] != want_op:
                r.bad(f'delivery/{api}/wrong-kind/{bcls}',
                      f'{api}(target={hb.name if single else "all"}, force={force}) put opcode {pdu[0]:#x} on {b.name} '
                      f'instead of {want_op:#x}; {ctx()}')
                continue
            m = b.wire.mtu
            exp_v = full[:m - 3]
            tcls = 'longer' if len(full) > m - 3 else 'fits'
            r.ev('truncation_checks')
            tkey = f'truncation/{api}/{b.kind}/{tcls}'
            if value is None and c.scope:
                # the server read the attribute on behalf of this bearer: value as seen by this bearer
                tkey = f'per-bearer-read/{c.scope}-scoped-value/{api}/{b.kind}'
                r.ev('bearer_scoped_pdu_values')
            r.check(pdu[3:] == exp_v, tkey,
                    lambda: f'{b.name} ATT_MTU {m}: value of {len(full)} bytes arrived as {len(pdu) - 3} bytes '
                            f'(expected {len(exp_v)}); {ctx()}')
            if K == 'i' and victim:
                # the indication went out as an indication; its confirmation was withheld by the harness
                r.ev('unconfirmed_indications_on_wire')
            elif K == 'i':
                r.ev('oracle_evals')
                if len(confs) != 1:
                    r.bad(f'indication/confirmations/{b.kind}' + (f'/{b.hist}' if b.hist else ''),
                          f'{b.name}: {len(confs)} confirmations for one indication; {ctx()}')
                if b.hist:
                    # deciding event of the error-path clause: an indication on a bearer whose earlier
                    # indication timed out / was cancelled is on the wire as an indication and judged as usual
                    r.ev('indications_after_failed')
                    r.ev(f'indications_{b.hist.replace("-", "_")}')
                r.ev('confirm_order_checks')
                pos = confirm_pos.get(b.idx)
                r.ev('oracle_evals')
                if pos is None or pos >= b1:
                    r.bad(f'indication/returned-before-confirmation/{api}/{bcls}',
                          f'{api} returned at host-boundary index {b1}; the confirmation of {b.name} reached the '
                          f'server host at {pos}; {ctx()}')
            # client side: the registered callbacks of that kind fire once each with the exact value
            n_cb = b.cbs.get(c.handle, {}).get(K, 0)
            got_cb = [v for h, k, v in b.cb_log if h == c.handle and k == K]
            other_cb = [x for x in b.cb_log if not (x[0] == c.handle and x[1] == K)]
            r.ev('callback_checks')
            r.ev('oracle_evals')
            if len(got_cb) != n_cb or other_cb:
                r.bad(f'callback/count/{b.kind}/{"notification" if K == "n" else "indication"}',
                      f'{b.name}: {len(got_cb)} callbacks for {n_cb} registered subscribers (others fired: '
                      f'{len(other_cb)}); {ctx()}')
            elif any(v != pdu[3:] for v in got_cb):
                r.bad(f'callback/value/{b.kind}', f'{b.name}: callback values differ from the PDU value; {ctx()}')
        if fault is not None:
            hb.hist = hb_hist
        if len(sample_steps) < 4 or ((fault or is_followup) and len(sample_steps) < 8):
            sample_steps.append(step_rec)

    # every bearer reads back per-bearer state through a different read path (state that differs from
    # the other bearers of the connection first)
    budget = 14
    for hb in rng.sample(bearers, len(bearers)):
        ts = list(read_targets)
        rng.shuffle(ts)
        ts.sort(key=lambda h: not differing(hb, h)[0])
        for h in ts[:2]:
            if budget > 0:
                budget -= 1
                await do_read(hb, h)

    await rig_.quiesce()
    wire.sync()
    r.ev('wire_att_pdus', sum(len(b.pdus) for b in wire.att.bearers.values()))
    for hb in bearers:
        sa = hb.server_bearer.att_mtu
        r.check(sa == hb.wire.mtu, f'mtu/agreement/server/{hb.kind}',
                f'{hb.name}: wire ATT_MTU {hb.wire.mtu}, server bearer att_mtu {sa}')
    for where, e in rig_.exceptions:
        r.bad('exception-in-stack/notif', f'{where}: {e}')
    if delivered and suppressed:
        r.sig('notif', n_clients, s_mtu, es_mtu, tuple(setup), steps, case['seed'] % 997)
    r.sched.add(rig_.schedule_signature)
    r.evals()
    r.sample = {'kind': 'notif', 'clients': n_clients, 'server_max_mtu': s_mtu, 'eatt_server_mtu': es_mtu,
                'bearers': [(b.name, b.wire.mtu) for b in bearers], 'delay': delay,
                'chars': [(c.handle, hex(c.props), len(c.value)) for c in subs][:6],
                'delivered': delivered, 'suppressed': suppressed, 'steps': sample_steps}


# =============================================================================
# term: adversarial server
# =============================================================================
class Adversary:
    def __init__(self, raw, proc: str, strategy: str, rng: random.Random, bounded: bool):
        self.raw = raw
        self.proc = proc
        self.strategy = strategy
        self.rng = rng
        self.bounded = bounded
        self.requests = 0
        self.answered = 0
        self.first = None
        self.s0 = None
        self.ops = set()
        self.variant = rng.randint(0, 3)

    def value_for(self, h: int) -> bytes:
        if self.proc == 'discover_included_services':
            return struct.pack('<HHH', (h + 1) & 0xFFFF, (h + 3) & 0xFFFF, 0x1811)
        if self.proc == 'discover_characteristics':
            return struct.pack('<BHH', 0x0A, (h + 1) & 0xFFFF, 0x2A19)
        return b'\x11\x22\x33'

    def valid(self, op: int, handles, end_of=None) -> bytes:
        if op == rg.OP_READ_BY_GROUP_REQ:
            return rg.read_by_group_rsp([(h, (end_of(h) if end_of else h), b'\x0f\x18') for h in handles])
        if op == rg.OP_FIND_BY_TYPE_REQ:
            return rg.find_by_type_rsp([(h, (end_of(h) if end_of else h)) for h in handles])
        if op == rg.OP_READ_BY_TYPE_REQ:
            return rg.read_by_type_rsp([(h, self.value_for(h)) for h in handles])
        if op == rg.OP_FIND_INFO_REQ:
            return rg.find_info_rsp([(h, b'\x01\x29') for h in handles])
        return rg.error_rsp(op, 0, rg.ERR_UNLIKELY)

    def on_pdu(self, handle, cid, pdu):
        if cid != rg.ATT_CID or not pdu or not rg.is_request(pdu[0]):
            return
        self.requests += 1
        self.ops.add(pdu[0])
        if self.requests > REQUEST_LIMIT + 100:
            return   # stop answering: the client's own request timer ends the procedure
        rsp = self.respond(pdu[0], pdu)
        if rsp is not None:
            self.answered += 1
            self.raw.send(handle, rg.ATT_CID, rsp)

    def respond(self, op: int, pdu: bytes):
        if op == rg.OP_READ_REQ:
            return bytes([rg.OP_READ_RSP]) + bytes(range(16))
        if op not in (rg.OP_READ_BY_GROUP_REQ, rg.OP_FIND_BY_TYPE_REQ, rg.OP_READ_BY_TYPE_REQ, rg.OP_FIND_INFO_REQ) \
                or len(pdu) < 5:
            return rg.error_rsp(op, 0, 0x06)
        s, e = struct.unpack_from('<HH', pdu, 1)
        if self.s0 is None:
            self.s0 = s
        k = self.requests
        st = self.strategy

        def clip(hs):
            return [min(max(h, 0), 0xFFFF) for h in hs]

        if st == 'repeat':
            if self.first is None:
                self.first = self.valid(op, clip([s, s + 1, s + 2]))
            return self.first
        if st == 'empty':
            return self.valid(op, [])
        if st == 'first-then-empty':
            return self.valid(op, clip([s, s + 1])) if k == 1 else self.valid(op, [])
        if st == 'backwards':
            return self.valid(op, clip([self.s0 + 40 - 2 * k]))
        if st == 'backwards-in-response':
            if self.bounded:
                return self.valid(op, clip([min(e, s + 6), min(e, s + 3), s]))
            return self.valid(op, clip([s + 6, s + 3, s - 1]))
        if st == 'end-before-start':
            if op in (rg.OP_READ_BY_GROUP_REQ, rg.OP_FIND_BY_TYPE_REQ):
                return self.valid(op, clip([s + 5]), end_of=lambda h: max(0, h - 3))
            return self.valid(op, clip([s - 1]))
        if st == 'ffff':
            return self.valid(op, [0xFFFF], end_of=lambda h: 0xFFFF)
        if st == 'ffff-run':
            return self.valid(op, clip([s, 0xFFFF]), end_of=lambda h: h)
        if st == 'zero-handle':
            return self.valid(op, [0, 0], end_of=lambda h: 0)
        if st == 'zero-length':
            v = (self.variant + k - 1) % 4
            if op == rg.OP_READ_BY_GROUP_REQ:
                return [bytes([0x11, 0]) + bytes(12), bytes([0x11, 4]) + struct.pack('<HHHH', s, s, s + 1, s + 1),
                        bytes([0x11, 0]), bytes([0x11, 1]) + bytes(6)][v]
            if op == rg.OP_READ_BY_TYPE_REQ:
                return [bytes([0x09, 0]) + bytes(8), bytes([0x09, 2]) + struct.pack('<HH', s, s + 1),
                        bytes([0x09, 0]), bytes([0x09, 1]) + bytes(4)][v]
            if op == rg.OP_FIND_INFO_REQ:
                return [bytes([0x05, 0]) + bytes(8), bytes([0x05, 1]) + struct.pack('<H', s),
                        bytes([0x05, 3]), bytes([0x05, 2]) + struct.pack('<H', s) + bytes(3)][v]
            return [bytes([0x07]), bytes([0x07]) + struct.pack('<H', s), bytes([0x07, 0]), bytes([0x07, 0, 0, 0])][v]
        if st == 'short-pdu':
            return bytes([op + 1])
        if st == 'error-other':
            return rg.error_rsp(op if k % 2 else 0x7E, s, rg.ERR_UNLIKELY)
        if st == 'garbage':
            return bytes([op + 1]) + bytes(self.rng.getrandbits(8) for _ in range(self.rng.randint(0, 21)))
        return None


async def term_case(case, r: R):
    from bumble import gatt_client
    from vlib import rig as vrig

    rng = random.Random(case['seed'] * 31 + PROCS.index(case['proc']))
    vrig.seed_entropy(case['seed'])
    proc = case['proc']
    rig_ = vrig.Rig(2, seed=case['seed'], max_delay=rng.choice([0, 0, 1]))
    await rig_.power_on()
    if rng.random() < 0.5:
        cconn, rconn = await rig_.connect_le(0, 1)
    else:
        rconn, cconn = await rig_.connect_le(1, 0)
    await rig_.quiesce()
    raw = vrig.RawPeer(rig_, 1)
    client = cconn.gatt_client
    outcomes = []
    for st in STRATEGIES:
        bounded = rng.random() < 0.5
        lo = rng.choice([1, 2, 0x10, 0x100, 0xFF00, 0xFFC0])
        hi = min(0xFFFF, lo + rng.choice([0, 1, 7, 0x3F])) if bounded else 0xFFFF
        u16 = uuid_obj(struct.pack('<H', 0x180F))
        if proc == 'discover_services':
            bounded, aw = False, client.discover_services()
        elif proc == 'discover_service':
            bounded, aw = False, client.discover_service(u16)
        elif proc == 'discover_included_services':
            aw = client.discover_included_services(gatt_client.ServiceProxy(client, lo, hi, u16, True))
        elif proc == 'discover_characteristics':
            aw = client.discover_characteristics([], gatt_client.ServiceProxy(client, lo, hi, u16, True))
        elif proc == 'discover_descriptors':
            if rng.random() < 0.5:
                aw = client.discover_descriptors(gatt_client.CharacteristicProxy(client, lo, hi, u16, 0x0A))
            else:
                aw = client.discover_descriptors(None, lo, hi)
        elif proc == 'discover_attributes':
            bounded, aw = False, client.discover_attributes()
        else:
            if bounded:
                aw = client.read_characteristics_by_uuid(u16, gatt_client.ServiceProxy(client, lo, hi, u16, True))
            else:
                aw = client.read_characteristics_by_uuid(u16, None)
        adv = Adversary(raw, proc, st, rng, bounded)
        raw.handlers[:] = [adv.on_pdu]
        outcome = 'returned'
        try:
            res = await vloop.vwait(aw)
            outcome = f'returned {len(res) if hasattr(res, "__len__") else res}'
        except vloop.Hang:
            outcome = 'HANG'
        except asyncio.CancelledError:
            raise
        except Exception as e:  # noqa: BLE001
            outcome = f'raised {type(e).__name__}'
        await rig_.quiesce()
        raw.handlers[:] = []
        raw.take()
        r.ev('term_procedures')
        r.ev('term_requests', adv.requests)
        r.ev('oracle_evals')
        scope = 'bounded-range' if bounded else 'full-range'
        if outcome == 'HANG':
            r.bad(f'termination/{proc}/{st}/hang', f'{proc} against "{st}" ({scope} {lo:#x}-{hi:#x}) still pending after '
                  f'{vloop.T_V} virtual s; {adv.requests} requests seen')
        elif adv.requests > REQUEST_LIMIT:
            r.bad(f'termination/{proc}/{st}/unbounded-requests',
                  f'{proc} against "{st}" ({scope} {lo:#x}-{hi:#x}) issued {adv.requests} requests (> {REQUEST_LIMIT}) '
                  f'and only stopped when the server stopped answering ({outcome})')
        if adv.answered:
            r.sig('term', proc, st, bounded, lo, hi)
        outcomes.append((st, scope, adv.requests, outcome))
        rig_.exceptions.clear()
    r.evals()
    r.sample = {'kind': 'term', 'proc': proc, 'outcomes': outcomes}


async def run_case(case, r: R):
    from bumble.core import UUID
    # cases are independent: forget the UUIDs the previous cases put into bumble's process-wide
    # registry (it is searched linearly on every UUID.from_bytes, so it would only slow later cases)
    n0 = getattr(run_case, '_uuids', None)
    if n0 is None:
        n0 = run_case._uuids = len(UUID.UUIDS)
    del UUID.UUIDS[n0:]
    if case['kind'] == 'db':
        await db_case(case, r)
    elif case['kind'] == 'notif':
        await notif_case(case, r)
    else:
        await term_case(case, r)


LEVEL_TEXT = ('~300 (quick) / ~9000 (thorough) generated databases x MTU preferences x optional enhanced bearers are '
              'discovered, read and written through a real bumble client against a real bumble server on the virtual '
              'link and compared with an independently computed handle layout and declaration values; ~180 / ~5200 '
              'multi-client subscription scenarios call every notify/indicate API form and are judged on the tapped '
              'wire (opcode, recipients, truncation to the wire-derived ATT_MTU-3, confirmation before return) and on '
              'client callbacks; in the same scenarios every bearer reads CCCDs and bearer-/connection-scoped values back '
              'through Read / Read Blob / Read By Type / Read Multiple (Variable) and is compared with what that bearer '
              'wrote on the wire, and indications are left unconfirmed (30 virtual s timeout) or cancelled and followed '
              'by another indication on the same bearer; subscribe / unsubscribe (both API forms, one or all '
              'subscribers) run while the server\'s subscription handler pushes a PDU before / with / after the Write '
              'Response (client host packets held and released back to back): every PDU on the wire must reach the new '
              'and the earlier subscribers and the update event, a removed subscriber is never called after '
              'unsubscribe() returned; every discovery procedure is run against 13 non-progressing adversarial response '
              'strategies with the requests counted on the wire (> 1000 or a virtual-time hang = violation). Held = no '
              'refuting execution among those observed; sampling, not proof.')
LEVEL_NOTE = ('Trusted: vlib/ref_gatt.py (layout rule, declaration values, ATT/EATT wire parser, ~350 lines), the '
              'tap/reassembler of vlib/rig.py, the virtual-time loop. Subscription ground truth is the last CCCD write '
              'seen on each bearer; long writes are not exercised (no Prepare Write in the server).')
TECHNIQUE = ('runtime monitoring: independent database layout oracle + offline ATT wire checker over the tapped HCI log '
             '+ host-boundary ordering for confirmations + request counting against a scripted adversarial server')
