"""C06 — the virtual link connects the right peers and delivers only between them.

Monitor: event-log relations over `connection` / `disconnection` / `advertisement`
events of 2-5 devices and a test fixed channel registered on every device.
Workloads
  mesh    random graphs of LE / BR/EDR connections among 2-5 devices with every mix of
          public/random own addresses and legacy/extended advertising, unique payloads in
          both directions on every connection, disconnects by either side
  steal   a device that is being connected to (as peripheral) while its own outgoing
          connect to an absent peer is pending
  scan    active and passive scanners, advertisers with distinct advertising and
          scan-response payloads
  dual    a device that advertises (legacy / extended, own address PUBLIC / RANDOM, auto-restart on / off)
          AND initiates: outgoing connection to a third device while advertising, then connected to, the
          two connections ended in either order with stop_advertising() / start_advertising() in between;
          both ends of every connection agree on peer / self addresses, and Device.is_advertising and what a
          scanner hears both match an independent ledger of the advertising state
  pending a dual-role device that advertises (legacy / extended / an advertising set with its own address, own address
          PUBLIC / RANDOM) while its own connect(), made with the same or the OTHER own-address type, is still PENDING
          towards a silent peer, and is connected to in that window; the silent peer then advertises and the attempt
          completes, or it times out: address relations on both connections, each caller gets its own connection, data
          to the right peer only, disconnections reported to both
  recon   a bulk transfer (more fragments than the controller has buffers, unacknowledged) cut by a disconnection of
          either side, then a NEW connection of that device (same or third device, either direction, the peripheral
          reached through a random / public / advertising-set address): address relations, and every PDU of the new
          connection delivered exactly once, in order, to its peer and to nobody else
  both    the SAME two dual-mode devices connected over LE (public / random own address on either side, either one central,
          legacy / extended advertiser) AND over BR/EDR (either one initiator) at once, in either order, a bystander
          sometimes connected too: address relations, four live handles filed under the right transport, interleaved PDUs on
          all four directions out under the handle of the connection they were sent on; one link ended by either side is
          reported for that handle only and the other link goes on carrying data; the ended link is sometimes made again
  rpa     LE privacy: devices whose random own address is a resolvable private address rotated every le_rpa_timeout
          (0-3 rotations before / between connections), connected to through it or connecting with it: both ends report
          matching addresses, equal to the address the controller / advertising set was given (read from the HCI tap)
"""
from __future__ import annotations

import asyncio
import random

from vlib import vloop
from vlib.result import R

ID = 'C06'
LEVEL = 'exploration'
RULE = ('seeded scenarios; mesh: non-trivial when >= 3 devices or a public own-address or extended advertising is '
        'involved; distinct = distinct (address types, advertising kinds, connection graph, disconnect order). '
        'scan: one per (scanner modes, advertiser kinds, payload lengths); dual: one per (advertiser kind, own-address '
        'types, auto-restart, order of connects / disconnects / stop / start); pending: one per (advertiser kind, own-address '
        'type advertised / used by the pending connect / used by the incoming central, order, outcome); recon: one per '
        '(buffer count, address kinds, directions, who sends the bulk, who disconnects); both: one per (LE central, BR/EDR '
        'initiator, LE own-address types of both sides, advertiser kind, order of the two connects, which link ends first '
        'and by whom, bystander link); rpa: one per (which devices use privacy, rotation period, rotations before each '
        'connection, roles)')
ASSUMPTIONS = [
    'rpa: the random address a device is reachable at / connects with is the one its controller (or the advertising set made '
    'for the advertising) was last given over HCI, as read from the HCI tap',
    'pending: a connect() to a peer that does not advertise yet legitimately pends; the own address of a connection is the '
    'address that was on the air for it (the advertised address for the acceptor, the address of the own-address type given '
    'to connect() for the initiator)',
    'recon: PDUs of the bulk transfer that is cut may be lost; PDUs written on a connection made afterwards may not',
    'dual: an outgoing connection does not change whether a device advertises; an incoming connection ends the '
    'advertising it was made through; auto-restart resumes that advertising when that connection ends unless the host '
    'called stop_advertising()/start_advertising() in the meantime; Device.is_advertising is not judged for a legacy '
    'advertiser kept for auto-restart while the connection that paused it is up',
    'a connect() to an address nobody advertises legitimately pends; only "no foreign connection is handed over" '
    'and "the timeout concludes it" are demanded there',
    'advertisement events may repeat; the clause is on the data of each event, and on at least one event per '
    'advertiser reaching each scanner',
]
MIN_EVENTS = {
    'quick': {'connections_checked': 1500, 'payloads_checked': 8000, 'disconnections_checked': 1000,
              'adv_events_checked': 2000, 'steal_cases': 120, 'churn_cases': 200, 'fragadv_cases': 60, 'ghost_cases': 30,
              'advset_phases_verified': 300, 'last_words_checked': 150, 'advset_handle_reused_after_remove': 40,
              'dual_cases': 300, 'dual_connections_checked': 800, 'dual_observations': 2000,
              'dual_is_advertising_checked': 1600, 'dual_outgoing_while_advertising': 200,
              'dual_incoming_after_outgoing': 250, 'dual_stop_start_steps': 160,
              'pending_cases': 280, 'pending_cases_mixed_own_address_types': 100, 'pending_incoming_while_outgoing_pending': 250,
              'pending_outgoing_completed_after_incoming': 150, 'pending_outgoing_timed_out': 25,
              'recon_cases': 180, 'recon_bulk_transfers_cut': 180, 'recon_bulk_transfers_cut_from_A': 100,
              'recon_new_connections_after_cut': 180, 'recon_connections_public': 100, 'recon_connections_set_random': 20,
              'recon_connections_set_public': 25,
              'both_links_up': 200, 'both_payloads_checked': 5000, 'both_survivor_exchanges': 200, 'both_links_made_again': 60,
              'both_links_up_le_adv_public_init_public': 50, 'both_links_up_le_adv_public_init_random': 25,
              'both_links_up_le_adv_random_init_public': 25, 'both_handle_sets_checked': 400,
              'rpa_cases': 150, 'rpa_connections': 200, 'rpa_rotations_seen': 600, 'rpa_connections_after_rotation_of_central': 90,
              'rpa_connections_after_rotation_of_peripheral': 100, 'rpa_peripheral_address_from_advertising_set': 60},
    'thorough': {'connections_checked': 10000, 'payloads_checked': 60000, 'disconnections_checked': 7000,
                 'adv_events_checked': 6000, 'steal_cases': 1000, 'churn_cases': 1000, 'fragadv_cases': 400, 'ghost_cases': 200,
                 'advset_phases_verified': 2400, 'last_words_checked': 1200, 'advset_handle_reused_after_remove': 300,
                 'dual_cases': 2400, 'dual_connections_checked': 6400, 'dual_observations': 16000,
                 'dual_is_advertising_checked': 12800, 'dual_outgoing_while_advertising': 1600,
                 'dual_incoming_after_outgoing': 2000, 'dual_stop_start_steps': 1300,
                 'pending_cases': 2200, 'pending_cases_mixed_own_address_types': 800, 'pending_incoming_while_outgoing_pending': 2000,
                 'pending_outgoing_completed_after_incoming': 1200, 'pending_outgoing_timed_out': 200,
                 'recon_cases': 1400, 'recon_bulk_transfers_cut': 1400, 'recon_bulk_transfers_cut_from_A': 800,
                 'recon_new_connections_after_cut': 1400, 'recon_connections_public': 800, 'recon_connections_set_random': 160,
                 'recon_connections_set_public': 200,
                 'both_links_up': 1600, 'both_payloads_checked': 40000, 'both_survivor_exchanges': 1600, 'both_links_made_again': 500,
                 'both_links_up_le_adv_public_init_public': 400, 'both_links_up_le_adv_public_init_random': 200,
                 'both_links_up_le_adv_random_init_public': 200, 'both_handle_sets_checked': 3200,
                 'rpa_cases': 1100, 'rpa_connections': 1500, 'rpa_rotations_seen': 4500, 'rpa_connections_after_rotation_of_central': 650,
                 'rpa_connections_after_rotation_of_peripheral': 750, 'rpa_peripheral_address_from_advertising_set': 450},
}
CASE_TIMEOUT = 300
CID = 0x0074


def plan(tier, seed):
    cases = []
    for i in range(600 if tier == 'quick' else 4000):
        cases.append({'kind': 'mesh', 'seed': seed * 1000003 + i})
    for i in range(100 if tier == 'quick' else 800):
        cases.append({'kind': 'steal', 'seed': seed * 1000003 + i})
    for i in range(200 if tier == 'quick' else 1600):
        cases.append({'kind': 'scan', 'seed': seed * 1000003 + i})
    for i in range(300 if tier == 'quick' else 2400):
        cases.append({'kind': 'churn', 'seed': seed * 1000003 + i})
    for i in range(80 if tier == 'quick' else 600):
        cases.append({'kind': 'parallel', 'seed': seed * 1000003 + i})
    for i in range(60 if tier == 'quick' else 400):
        cases.append({'kind': 'ghost', 'seed': seed * 1000003 + i})
    for i in range(120 if tier == 'quick' else 800):
        cases.append({'kind': 'fragadv', 'seed': seed * 1000003 + i})
    for i in range(150 if tier == 'quick' else 1200):
        cases.append({'kind': 'advsets', 'seed': seed * 1000003 + i})
    for i in range(400 if tier == 'quick' else 3000):
        cases.append({'kind': 'dual', 'seed': seed * 1000003 + i})
    for i in range(300 if tier == 'quick' else 2400):
        cases.append({'kind': 'pending', 'seed': seed * 1000003 + i})
    for i in range(200 if tier == 'quick' else 1600):
        cases.append({'kind': 'recon', 'seed': seed * 1000003 + i})
    for i in range(240 if tier == 'quick' else 1900):
        cases.append({'kind': 'both', 'seed': seed * 1000003 + i})
    for i in range(160 if tier == 'quick' else 1200):
        cases.append({'kind': 'rpa', 'seed': seed * 1000003 + i})
    return cases


def make_rig(rng, case, n, extended_flags, classic=False, delay=None):
    from bumble import hci
    from vlib import rig as vrig
    rg = vrig.Rig(n, seed=case['seed'], max_delay=rng.choice([0, 0, 1, 3]) if delay is None else delay, classic=classic,
                  collide_addresses=rng.random() < 0.4)
    for i, ext in enumerate(extended_flags):
        if ext:
            rg.controllers[i].le_features = rg.controllers[i].le_features | hci.LeFeatureMask.LE_EXTENDED_ADVERTISING
    return rg


class Events:
    def __init__(self, rg):
        self.rg = rg
        self.conn = {i: [] for i in range(rg.n)}       # connection objects per device
        self.disc = {i: [] for i in range(rg.n)}       # (handle, reason)
        self.rx = {i: [] for i in range(rg.n)}         # (handle, payload)
        for i, d in enumerate(rg.devices):
            d.on('connection', lambda c, _i=i: self._on_conn(_i, c))
            d.l2cap_channel_manager.register_fixed_channel(
                CID, lambda h, pdu, _i=i: self.rx[_i].append((h, bytes(pdu))))

    def _on_conn(self, i, c):
        self.conn[i].append(c)
        c.on('disconnection', lambda reason, _i=i, _c=c: self.disc[_i].append((_c.handle, reason)))


async def mesh(case, r: R):
    from bumble import hci
    from bumble.core import PhysicalTransport
    from vlib import rig as vrig
    rng = random.Random(case['seed'])
    vrig.seed_entropy(case['seed'])
    n = rng.choice([2, 3, 3, 4, 5])
    ext = [rng.random() < 0.4 for _ in range(n)]
    classic_on = rng.random() < 0.35
    rg = make_rig(rng, case, n, ext, classic=classic_on)
    await rg.power_on()
    ev = Events(rg)
    adv_addr_type = [rng.choice(['random', 'random', 'public']) for _ in range(n)]
    init_addr_type = [rng.choice(['random', 'random', 'public']) for _ in range(n)]
    # candidate edges
    edges = []
    pairs = [(a, b) for a in range(n) for b in range(n) if a != b]
    rng.shuffle(pairs)
    used = set()
    for a, b in pairs:
        if len(edges) >= rng.randint(1, 4):
            break
        if (a, b) in used or (b, a) in used:
            continue
        tr = 'bredr' if classic_on and rng.random() < 0.4 else 'le'
        used.add((a, b))
        edges.append((a, b, tr))
    # bystanders that also advertise at the time of a connect
    live = []   # (a, b, tr, conn_a, conn_b)
    desc = []
    for (a, b, tr) in edges:
        A, B = rg.devices[a], rg.devices[b]
        before = {i: len(ev.conn[i]) for i in range(n)}
        try:
            if tr == 'le':
                own = hci.OwnAddressType.PUBLIC if adv_addr_type[b] == 'public' else hci.OwnAddressType.RANDOM
                bystanders = [i for i in range(n) if i not in (a, b) and rng.random() < 0.5
                              and not any(i in (x, y) and t == 'le' for (x, y, t, *_r) in live)]
                for i in bystanders:
                    await vloop.vwait(rg.devices[i].start_advertising(auto_restart=False))
                await vloop.vwait(B.start_advertising(auto_restart=False, own_address_type=own))
                target = B.public_address if adv_addr_type[b] == 'public' else B.random_address
                iown = hci.OwnAddressType.PUBLIC if init_addr_type[a] == 'public' else hci.OwnAddressType.RANDOM
                ca = await vloop.vwait(A.connect(target, own_address_type=iown, timeout=20))
                want_self = A.public_address if init_addr_type[a] == 'public' else A.random_address
                for i in bystanders:
                    await vloop.vwait(rg.devices[i].stop_advertising())
            else:
                target = B.public_address
                ca = await vloop.vwait(A.connect(target, transport=PhysicalTransport.BR_EDR, timeout=20))
                want_self = A.public_address
                bystanders = []
        except vloop.Hang:
            r.bad(f'connect/hang/{tr}', f'connect pending at T_v: {a}->{b} adv={adv_addr_type[b]} init={init_addr_type[a]} ext={ext}')
            return
        except Exception as e:
            r.bad(f'connect/failed/{tr}/adv-{adv_addr_type[b]}/init-{init_addr_type[a]}',
                  f'connect {a}->{b} raised {type(e).__name__}: {e}; ext={ext}')
            return
        await rg.quiesce()
        r.ev('connections_checked')
        kind = f'{tr}/adv-{adv_addr_type[b] if tr == "le" else "public"}/init-{init_addr_type[a] if tr == "le" else "public"}'
        desc.append((a, b, kind, tuple(bystanders)))
        r.ev('oracle_evals', 5)
        # caller got the right connection
        if bytes(ca.peer_address) != bytes(target) or ca.role != hci.Role.CENTRAL:
            r.bad(f'connect/wrong-connection-returned/{kind}',
                  f'connect({target}) returned {ca}')
        new_b = ev.conn[b][before[b]:]
        if len(new_b) != 1:
            r.bad(f'connect/peer-events/{kind}', f'device {b} got {len(new_b)} connection events for one connect')
            return
        cb = new_b[0]
        if cb.role != hci.Role.PERIPHERAL:
            r.bad(f'connect/peer-role/{kind}', f'acceptor sees role {cb.role}')
        # nobody else got a connection
        for i in range(n):
            extra = ev.conn[i][before[i]:]
            if i not in (a, b) and extra:
                r.bad(f'connect/third-party-connection/{kind}', f'device {i} got {extra} while {a} connected to {b}')
        # mirrored addresses
        if bytes(cb.peer_address) != bytes(want_self) or cb.peer_address.address_type != want_self.address_type:
            r.bad(f'connect/address-mismatch/{kind}',
                  f"acceptor sees peer {cb.peer_address}/{cb.peer_address.address_type}, initiator's own address is "
                  f'{want_self}/{want_self.address_type}')
        if bytes(ca.peer_address) != bytes(cb.self_address) and tr == 'le':
            r.bad(f'connect/address-mismatch/{kind}', f'initiator sees peer {ca.peer_address}, acceptor self {cb.self_address}')
        # handles live and distinct per device
        for dev, c in ((a, ca), (b, cb)):
            hs = [x.handle for x in rg.devices[dev].connections.values()]
            if len(set(hs)) != len(hs) or c.handle not in hs or rg.controllers[dev].find_connection_by_handle(c.handle) is None:
                r.bad(f'connect/handles/{kind}', f'device {dev}: handles {hs}, new {c.handle:#x}')
        live.append((a, b, tr, ca, cb, kind))

    # ---- data: unique payloads on every connection, both directions -------------
    sent = []   # (src dev, dst dev, dst handle, payload)
    for rnd in range(rng.randint(1, 4)):
        order = list(live)
        rng.shuffle(order)
        for (a, b, tr, ca, cb, kind) in order:
            for (s, d, cs, cd) in ((a, b, ca, cb), (b, a, cb, ca)):
                p = bytes([s, d, len(sent) & 0xFF, len(sent) >> 8]) + bytes(rng.randint(0, 60))
                rg.devices[s].send_l2cap_pdu(cs.handle, CID, p)
                sent.append((s, d, cd.handle, p, kind))
                if rng.random() < 0.3:
                    await asyncio.sleep(0)
    await rg.quiesce()
    for dev in range(n):
        want = [(h, p) for (s, d, h, p, k) in sent if d == dev]
        got = ev.rx[dev]
        r.ev('payloads_checked', len(want))
        r.ev('oracle_evals')
        if got != want:
            # classify
            wp = [p for _h, p in want]
            gp = [p for _h, p in got]
            lost = [x for x in sent if x[1] == dev and x[3] not in gp]
            if lost:
                k = lost[0][4]
                src = lost[0][0]
                r.bad(f'data/lost/{k}',
                      f'device {dev} never received {len(lost)} of {len(want)} PDUs (first from device {src}); graph={desc}')
            elif len(gp) > len(wp):
                foreign = [p for p in gp if p not in wp]
                r.bad('data/misdelivered' if foreign else 'data/duplicated',
                      f'device {dev} received {len(gp)} PDUs, expected {len(wp)}; foreign={len(foreign)}; graph={desc}')
            elif sorted(gp) == sorted(wp):
                # per-connection order
                for h in {h for h, _ in want}:
                    if [p for hh, p in got if hh == h] != [p for hh, p in want if hh == h]:
                        r.bad('data/reordered', f'device {dev} handle {h:#x} out of order; graph={desc}')
                        break
                else:
                    if [h for h, _ in got if True] and any(gh != wh for (gh, gp_), (wh, wp_) in zip(sorted(got, key=lambda x: x[1]), sorted(want, key=lambda x: x[1]))):
                        r.bad('data/wrong-handle', f'device {dev}: payload attributed to another connection; graph={desc}')
            else:
                r.bad('data/corrupt', f'device {dev}: received set differs; graph={desc}')

    # ---- disconnect by either side ---------------------------------------------
    rng.shuffle(live)
    for (a, b, tr, ca, cb, kind) in live:
        who = rng.choice(['initiator', 'acceptor'])
        c = ca if who == 'initiator' else cb
        da, db = len(ev.disc[a]), len(ev.disc[b])
        try:
            await vloop.vwait(c.disconnect())
        except vloop.Hang:
            r.bad(f'disconnect/hang/{kind}/by-{who}', f'disconnect() pending at T_v; graph={desc}')
            continue
        except Exception as e:
            r.bad(f'disconnect/raised/{kind}/by-{who}', f'{type(e).__name__}: {e}')
            continue
        await rg.quiesce()
        r.ev('disconnections_checked')
        r.ev('oracle_evals', 2)
        na, nb = ev.disc[a][da:], ev.disc[b][db:]
        if [h for h, _ in na] != [ca.handle] or [h for h, _ in nb] != [cb.handle]:
            r.bad(f'disconnect/not-reported-to-both/{kind}/by-{who}',
                  f'initiator side events {na}, acceptor side events {nb}; graph={desc}')
        for dev, cc in ((a, ca), (b, cb)):
            if cc.handle in rg.hosts[dev].connections or rg.controllers[dev].find_connection_by_handle(cc.handle):
                r.bad(f'disconnect/stale-connection/{kind}/by-{who}', f'device {dev} still has handle {cc.handle:#x}')
    for where, e in rg.exceptions:
        r.bad('link/exception-in-stack', f'{where}: {e}; graph={desc}')
    if n >= 3 or 'public' in adv_addr_type + init_addr_type or any(ext):
        r.sig('mesh', tuple(ext), tuple(desc))
    r.sched.add(rg.schedule_signature)
    r.evals()
    r.sample = {'kind': 'mesh', 'devices': n, 'extended_adv': ext, 'connections': [(a, b, k) for a, b, k, _ in desc],
                'payloads': len(sent)}


async def steal(case, r: R):
    """X advertises and at the same time tries to connect to an absent peer; A connects to X."""
    from bumble import hci
    from bumble import core
    from vlib import rig as vrig
    rng = random.Random(case['seed'])
    vrig.seed_entropy(case['seed'])
    ext = [rng.random() < 0.4 for _ in range(3)]
    rg = make_rig(rng, case, 3, ext)
    await rg.power_on()
    ev = Events(rg)
    A, X = rg.devices[0], rg.devices[1]
    absent = hci.Address('C9:C9:C9:C9:C9:C9', hci.Address.RANDOM_DEVICE_ADDRESS)
    await vloop.vwait(X.start_advertising(auto_restart=False))
    out = asyncio.ensure_future(X.connect(absent, timeout=rng.choice([5, 30])))
    for _ in range(rng.randint(1, 30)):
        await asyncio.sleep(0)
    try:
        ca = await vloop.vwait(A.connect(X.random_address, timeout=20))
    except Exception as e:
        r.bad('steal/incoming-connect-failed', f'{type(e).__name__}: {e}')
        out.cancel()
        return
    await rg.quiesce()
    r.ev('steal_cases')
    result = None
    try:
        result = await vloop.vwait(out)
        r.ev('oracle_evals')
        r.bad('steal/outgoing-connect-handed-incoming-connection',
              f'connect({absent}) returned {result} (role {result.role}) — the connection made by another device')
    except vloop.Hang:
        r.bad('steal/outgoing-connect-hang', 'connect(absent, timeout=..) still pending at T_v: the timeout/cancel never concluded it')
    except (core.TimeoutError, asyncio.TimeoutError, core.ConnectionError):
        r.ev('steal_outgoing_timed_out')
    except asyncio.CancelledError:
        r.ev('steal_outgoing_cancelled')
    except Exception as e:
        r.ev('steal_outgoing_other_error')
        r.add_extra_list('steal_errors', f'{type(e).__name__}: {e}')
    # the incoming connection must be intact on X
    r.ev('oracle_evals')
    if not any(bytes(c.peer_address) == bytes(A.random_address) for c in X.connections.values()):
        r.bad('steal/incoming-connection-lost', 'X no longer has the connection from A')
    r.sig('steal', tuple(ext))
    r.evals()
    r.sample = {'kind': 'steal', 'extended_adv': ext}


async def scan(case, r: R):
    from bumble import hci
    from vlib import rig as vrig
    rng = random.Random(case['seed'])
    vrig.seed_entropy(case['seed'])
    n = rng.choice([2, 3, 4])
    ext = [rng.random() < 0.5 for _ in range(n)]
    rg = make_rig(rng, case, n, ext, delay=rng.choice([0, 2]))
    await rg.power_on()
    roles = ['scanner'] + [rng.choice(['advertiser', 'advertiser', 'scanner']) for _ in range(n - 1)]
    if 'advertiser' not in roles:
        roles[-1] = 'advertiser'
    advs = {}
    seen = {i: [] for i in range(n)}
    active = {}
    for i, role in enumerate(roles):
        d = rg.devices[i]
        if role == 'advertiser':
            maxlen = 31
            adv = bytes([min(maxlen - 1, ln) + 1, 0xFF]) + bytes([i] * min(maxlen - 2, ln)) if (ln := rng.choice([0, 1, 10, 29])) else b''
            ln2 = rng.choice([0, 3, 29])
            rsp = (bytes([ln2 + 1, 0x09]) + bytes([0x40 + i] * ln2)) if ln2 else b''
            advs[i] = (adv, rsp)
            await vloop.vwait(d.start_advertising(auto_restart=False, advertising_data=adv, scan_response_data=rsp,
                                                  advertising_interval_min=100, advertising_interval_max=100))
        else:
            active[i] = rng.random() < 0.5
            d.on('advertisement', lambda a, _i=i: seen[_i].append(a))
            await vloop.vwait(d.start_scanning(active=active[i], legacy=rng.random() < 0.3))
    # let a few advertising intervals pass
    await asyncio.sleep(1.0)
    await rg.quiesce()
    by_addr = {bytes(rg.devices[i].random_address): i for i in advs}
    for s, mode in active.items():
        per = {}
        for a in seen[s]:
            idx = by_addr.get(bytes(a.address))
            r.ev('adv_events_checked')
            r.ev('oracle_evals')
            if idx is None:
                r.bad('scan/unknown-advertiser', f'scanner {s} got an advertisement from {a.address}, nobody advertises it')
                continue
            adv, rsp = advs[idx]
            k = 'active' if mode else 'passive'
            e = 'extended' if ext[s] else 'legacy'
            if a.is_scan_response:
                per.setdefault(idx, set()).add('rsp')
                if not mode:
                    r.bad(f'scan/scan-response-to-passive-scanner/{e}', f'passive scanner {s} got a scan response from {idx}')
                elif bytes(a.data_bytes) != rsp:
                    r.bad(f'scan/scan-response-data-wrong/{e}',
                          f'scanner {s}: scan response carries {bytes(a.data_bytes).hex()} but advertiser {idx} set '
                          f'{rsp.hex()} (its advertising data is {adv.hex()})')
            else:
                per.setdefault(idx, set()).add('adv')
                if bytes(a.data_bytes) != adv:
                    r.bad(f'scan/adv-data-wrong/{e}', f'scanner {s}: advertisement carries {bytes(a.data_bytes).hex()}, '
                                                       f'advertiser {idx} set {adv.hex()}')
        for idx in advs:
            r.ev('oracle_evals')
            # (an active scanner's Device reports a scannable advertisement and its scan
            # response as ONE event flagged is_scan_response, so either kind counts as seen)
            if not per.get(idx):
                r.bad(f'scan/advertiser-not-seen/{"extended" if ext[s] else "legacy"}-scanner',
                      f'scanner {s} ({"active" if mode else "passive"}) never saw advertiser {idx}')
            elif mode and 'rsp' not in per.get(idx, ()):
                r.bad('scan/no-scan-response-to-active-scanner', f'active scanner {s} never got the scan response of {idx}')
    r.sig('scan', tuple(roles), tuple(ext), tuple(sorted(active.items())), tuple((len(a), len(b)) for a, b in advs.values()))
    r.evals()
    r.sample = {'kind': 'scan', 'roles': roles, 'extended': ext, 'active': active,
                'payload_lengths': {i: (len(a), len(b)) for i, (a, b) in advs.items()}}


async def churn(case, r: R):
    """Connections come and go in random order on 3-5 devices (LE and BR/EDR); after every
    step every live connection must still carry a unique payload to its peer only, and handles
    must be unique per device."""
    from bumble import hci
    from bumble.core import PhysicalTransport
    from vlib import rig as vrig
    rng = random.Random(case['seed'])
    vrig.seed_entropy(case['seed'])
    n = rng.choice([3, 4, 5])
    rg = make_rig(rng, case, n, [rng.random() < 0.3 for _ in range(n)], classic=True)
    await rg.power_on()
    ev = Events(rg)
    live = {}   # (a, b, tr) -> (ca, cb)
    hist = []
    counter = [0]

    async def verify(after):
        # handles unique per device, in host, device and controller
        for d in range(n):
            hs = [c.handle for c in rg.devices[d].connections.values()]
            ch = [c.handle for c in list(rg.controllers[d].le_connections.values()) + list(rg.controllers[d].classic_connections.values())]
            r.ev('oracle_evals')
            if len(set(hs)) != len(hs) or len(set(ch)) != len(ch):
                r.bad('churn/duplicate-handle', f'device {d}: device handles {hs}, controller handles {ch} after {after}; history={hist}')
        # one unique payload each way on every live connection
        marks = {d: len(ev.rx[d]) for d in range(n)}
        want = {d: [] for d in range(n)}
        for (a, b, tr), (ca, cb) in live.items():
            for (s_, d_, cs, cd) in ((a, b, ca, cb), (b, a, cb, ca)):
                counter[0] += 1
                p = bytes([s_, d_]) + counter[0].to_bytes(3, 'little')
                rg.devices[s_].send_l2cap_pdu(cs.handle, CID, p)
                want[d_].append((cd.handle, p))
        await rg.quiesce()
        for d in range(n):
            got = ev.rx[d][marks[d]:]
            r.ev('payloads_checked', len(want[d]))
            r.ev('oracle_evals')
            if sorted(got) != sorted(want[d]):
                lost = [w for w in want[d] if w not in got]
                extra = [g for g in got if g not in want[d]]
                r.bad('churn/misdelivery' if extra else 'churn/lost',
                      f'device {d} after {after}: missing {len(lost)} extra {len(extra)} '
                      f'(extra first: {extra[:1]}); history={hist}')

    for step in range(rng.randint(4, 14)):
        free = [(a, b) for a in range(n) for b in range(n) if a < b]
        op = rng.choices(['connect', 'disconnect'], [3, 2 if live else 0])[0]
        if op == 'connect':
            a, b = rng.choice(free)
            if rng.random() < 0.5:
                a, b = b, a
            tr = rng.choice(['le', 'bredr'])
            if any({a, b} == {x, y} and t == tr for (x, y, t) in live):
                continue
            if tr == 'le' and any(t == 'le' and b in (x, y) and False for (x, y, t) in live):
                continue
            before = len(ev.conn[b])
            try:
                if tr == 'le':
                    await vloop.vwait(rg.devices[b].start_advertising(auto_restart=False))
                    ca = await vloop.vwait(rg.devices[a].connect(rg.devices[b].random_address, timeout=20))
                else:
                    ca = await vloop.vwait(rg.devices[a].connect(rg.devices[b].public_address,
                                                                 transport=PhysicalTransport.BR_EDR, timeout=20))
            except vloop.Hang:
                r.bad(f'churn/connect-hang/{tr}', f'connect {a}->{b} pending at T_v; history={hist}')
                return
            except Exception as e:
                r.bad(f'churn/connect-failed/{tr}', f'connect {a}->{b} raised {type(e).__name__}: {e}; history={hist}')
                return
            await rg.quiesce()
            new_b = ev.conn[b][before:]
            if len(new_b) != 1:
                r.bad(f'churn/peer-events/{tr}', f'device {b} got {len(new_b)} connection events; history={hist}')
                return
            live[(a, b, tr)] = (ca, new_b[0])
            hist.append(('connect', a, b, tr))
            r.ev('connections_checked')
        else:
            key = rng.choice(sorted(live))
            ca, cb = live.pop(key)
            who = rng.choice([ca, cb])
            # last words: PDUs written right before the disconnection is requested, without the loop running
            # in between. Those the controller was given before the Disconnect command are on the link before
            # the termination and must reach the peer.
            words = []
            sdev = key[0] if who is ca else key[1]
            pdev = key[1] if who is ca else key[0]
            peer_conn = cb if who is ca else ca
            mark_log = len(rg.hci_log)
            mark_rx = len(ev.rx[pdev])
            if rng.random() < 0.6:
                for _ in range(rng.randint(1, 3)):
                    counter[0] += 1
                    p = bytes([0xEE, sdev, pdev]) + counter[0].to_bytes(3, 'little')
                    rg.devices[sdev].send_l2cap_pdu(who.handle, CID, p)
                    words.append(p)
            try:
                await vloop.vwait(who.disconnect())
            except vloop.Hang:
                r.bad('churn/disconnect-hang', f'disconnect pending; history={hist}')
                return
            except Exception as e:
                r.bad('churn/disconnect-raised', f'{type(e).__name__}: {e}; history={hist}')
            await rg.quiesce()
            hist.append(('disconnect', key[0], key[1], key[2], 'by-initiator' if who is ca else 'by-acceptor'))
            if words:
                given = []
                for rec in rg.hci_log[mark_log:]:
                    if rec[1] != sdev or rec[2] != 'h2c':
                        continue
                    if rec[3][0] == 1 and rec[3][1:3] == b'\x06\x04':
                        break
                    if rec[3][0] == 2:
                        given += [w for w in words if w in rec[3]]
                got = [g[1] for g in ev.rx[pdev][mark_rx:] if g[0] == peer_conn.handle]
                r.ev('last_words_checked', len(given))
                r.ev('oracle_evals')
                if [w for w in given if w not in got]:
                    r.bad(f'churn/lost/last-words-before-disconnect/{key[2]}',
                          f'{len(given)} PDUs were handed to controller {sdev} before its Disconnect command, the peer '
                          f'{pdev} received {len([w for w in given if w in got])} of them; history={hist}')
            r.ev('disconnections_checked')
        await verify(hist[-1] if hist else None)
    for where, e in rg.exceptions:
        r.bad('link/exception-in-stack', f'{where}: {e}; history={hist}')
    r.ev('churn_cases')
    r.sig('churn', n, tuple(hist))
    r.sched.add(rg.schedule_signature)
    r.evals()
    r.sample = {'kind': 'churn', 'devices': n, 'history': hist}


async def ghost(case, r: R):
    """After a connection was made to an advertiser, its address is no longer advertised (the
    host was told advertising stopped): a third device must neither hear it nor be able to connect
    to it, unless the host restarted advertising."""
    from bumble import hci, core
    from vlib import rig as vrig
    rng = random.Random(case['seed'])
    vrig.seed_entropy(case['seed'])
    ext = [rng.random() < 0.5 for _ in range(3)]
    rg = make_rig(rng, case, 3, ext)
    await rg.power_on()
    ev = Events(rg)
    A, B, C = rg.devices
    use_public = rng.random() < 0.4
    own = hci.OwnAddressType.PUBLIC if use_public else hci.OwnAddressType.RANDOM
    await vloop.vwait(B.start_advertising(auto_restart=False, own_address_type=own,
                                          advertising_interval_min=50, advertising_interval_max=50))
    target = B.public_address if use_public else B.random_address
    try:
        await vloop.vwait(A.connect(target, timeout=20))
    except Exception as e:
        r.bad('ghost/first-connect-failed', f'{type(e).__name__}: {e}')
        return
    await rg.quiesce()
    r.ev('steal_cases')
    r.ev('oracle_evals', 3)
    kind = ('extended' if ext[1] else 'legacy') + ('/public' if use_public else '/random')
    if B.is_advertising:
        r.ev('ghost_host_still_advertising')
        return
    heard = []
    C.on('advertisement', lambda a: heard.append(a) if bytes(a.address) == bytes(target) else None)
    await vloop.vwait(C.start_scanning(active=False))
    await asyncio.sleep(1.0)
    await rg.quiesce()
    await vloop.vwait(C.stop_scanning())
    if heard:
        r.bad(f'ghost/advertising-after-connection/{kind}',
              f'{len(heard)} advertisements from {target} heard by a third device although its host was told advertising stopped')
    n_before = len(ev.conn[1])
    try:
        c2 = await vloop.vwait(C.connect(target, timeout=3))
        r.bad(f'ghost/connect-to-non-advertiser-succeeded/{kind}',
              f'connect({target}) by a third device returned {c2}; the address owner is not advertising')
    except vloop.Hang:
        r.bad('ghost/connect-hang', 'connect(timeout=3) pending at T_v')
    except (core.TimeoutError, asyncio.TimeoutError, core.ConnectionError):
        pass
    await rg.quiesce()
    if len(ev.conn[1]) != n_before:
        r.bad(f'ghost/unsolicited-connection-on-peripheral/{kind}',
              f'device 1 was handed {len(ev.conn[1]) - n_before} more connection(s) while not advertising')
    r.ev('ghost_cases')
    r.sig('ghost', tuple(ext), use_public)
    r.evals()
    r.sample = {'kind': 'ghost', 'advertiser': kind}


async def parallel(case, r: R):
    """One device starts two outgoing BR/EDR connects that overlap in time, one of them to an
    address nobody owns: each caller must get the outcome of its own attempt."""
    from bumble import hci, core
    from bumble.core import PhysicalTransport
    from vlib import rig as vrig
    rng = random.Random(case['seed'])
    vrig.seed_entropy(case['seed'])
    rg = make_rig(rng, case, 3, [False] * 3, classic=True)
    await rg.power_on()
    ev = Events(rg)
    A, B = rg.devices[0], rg.devices[1]
    absent = hci.Address('09:09:09:09:09:09', hci.Address.PUBLIC_DEVICE_ADDRESS)
    order = rng.random() < 0.5
    # hold back the acceptor's answers so that both attempts are pending together
    rg.c2h[1].fifo.paused = True
    t_good = asyncio.ensure_future(A.connect(B.public_address, transport=PhysicalTransport.BR_EDR, timeout=40))
    for _ in range(rng.randint(0, 10)):
        await asyncio.sleep(0)
    t_bad = asyncio.ensure_future(A.connect(absent, transport=PhysicalTransport.BR_EDR, timeout=40))
    for _ in range(rng.randint(5, 40)):
        await asyncio.sleep(0)
    rg.c2h[1].fifo.paused = False
    res = {}
    for name, t in (('good', t_good), ('bad', t_bad)):
        try:
            res[name] = await vloop.vwait(t)
        except vloop.Hang:
            res[name] = 'HANG'
        except Exception as e:
            res[name] = e
    await rg.quiesce()
    r.ev('steal_cases')
    r.ev('oracle_evals', 3)
    g, b = res['good'], res['bad']
    if g == 'HANG' or b == 'HANG':
        r.bad('parallel/hang', f'good={g!r} bad={b!r}')
    if isinstance(g, Exception):
        r.bad('parallel/good-connect-got-foreign-failure',
              f'connect(B) raised {type(g).__name__}: {g} although B accepted (it was handed the failure of the other attempt?)')
    elif g != 'HANG' and bytes(g.peer_address) != bytes(B.public_address):
        r.bad('parallel/wrong-connection-returned', f'connect(B) returned {g}')
    if not isinstance(b, Exception) and b != 'HANG':
        r.bad('parallel/absent-connect-succeeded', f'connect(absent) returned {b}')
    # the A-B link must be held by A if it exists on B
    b_has = [c for c in B.connections.values() if bytes(c.peer_address) == bytes(A.public_address)]
    a_has = [c for c in A.connections.values() if bytes(c.peer_address) == bytes(B.public_address)]
    if bool(b_has) != bool(a_has):
        r.bad('parallel/link-on-one-side-only', f'A has {len(a_has)}, B has {len(b_has)} connection objects for the A-B link')
    r.sig('parallel', order, case['seed'] % 50)
    r.evals()
    r.sample = {'kind': 'parallel-classic', 'good': type(g).__name__, 'bad': type(b).__name__}


async def fragadv(case, r: R):
    """An extended advertising set configured by raw HCI commands with advertising and scan
    response data written in several fragments; scanners must see exactly the advertising data."""
    from bumble import hci
    from vlib import rig as vrig
    rng = random.Random(case['seed'])
    vrig.seed_entropy(case['seed'])
    rg = make_rig(rng, case, 2, [True, rng.random() < 0.5], delay=0)
    await rg.power_on()
    host = rg.hosts[0]
    Op = hci.HCI_LE_Set_Extended_Advertising_Data_Command.Operation
    adv = bytes([rng.randrange(256) for _ in range(rng.choice([0, 10, 100, 200, 229]))])  # one report carries <= 229 bytes
    rsp = bytes([0x80 | rng.randrange(128) for _ in range(rng.choice([0, 5, 260, 400]))])

    def frags(data):
        if len(data) <= 251 and rng.random() < 0.5:
            return [(Op.COMPLETE_DATA, data)]
        cuts = sorted(rng.sample(range(1, max(2, len(data))), min(max(1, len(data) // 200 + rng.randint(0, 1)), max(1, len(data) - 1)))) if len(data) > 1 else []
        parts = [data[i:j] for i, j in zip([0] + cuts, cuts + [len(data)])]
        parts = [p_ for p_ in parts if len(p_) <= 251] if all(len(p_) <= 251 for p_ in parts) else [data[i:i + 200] for i in range(0, len(data), 200)]
        if len(parts) == 1:
            return [(Op.COMPLETE_DATA, parts[0])]
        return [(Op.FIRST_FRAGMENT, parts[0])] + [(Op.INTERMEDIATE_FRAGMENT, x) for x in parts[1:-1]] + [(Op.LAST_FRAGMENT, parts[-1])]

    try:
        await vloop.vwait(host.send_sync_command(hci.HCI_LE_Set_Extended_Advertising_Parameters_Command(
            advertising_handle=1, advertising_event_properties=0x0013, primary_advertising_interval_min=160,
            primary_advertising_interval_max=160, primary_advertising_channel_map=7, own_address_type=1,
            peer_address_type=0, peer_address=hci.Address.ANY, advertising_filter_policy=0, advertising_tx_power=0,
            primary_advertising_phy=1, secondary_advertising_max_skip=0, secondary_advertising_phy=1, advertising_sid=0,
            scan_request_notification_enable=0)))
        await vloop.vwait(host.send_sync_command(hci.HCI_LE_Set_Advertising_Set_Random_Address_Command(
            advertising_handle=1, random_address=rg.devices[0].random_address)))
        fa, fr = frags(adv), frags(rsp)
        # interleave the two fragment trains
        seq = [('a', x) for x in fa]
        for i, x in enumerate(fr):
            seq.insert(min(len(seq), rng.randint(0, len(seq))), ('r', x))
        # keep per-train order
        ai = iter(fa)
        ri = iter(fr)
        seq = [(k, next(ai) if k == 'a' else next(ri)) for k, _ in seq]
        for kind, (op_, data) in seq:
            if kind == 'a':
                cmd = hci.HCI_LE_Set_Extended_Advertising_Data_Command(advertising_handle=1, operation=op_,
                                                                       fragment_preference=0, advertising_data=data)
            else:
                cmd = hci.HCI_LE_Set_Extended_Scan_Response_Data_Command(advertising_handle=1, operation=op_,
                                                                         fragment_preference=0, scan_response_data=data)
            await vloop.vwait(host.send_sync_command(cmd))
        seen = []
        rg.devices[1].on('advertisement', seen.append)
        await vloop.vwait(rg.devices[1].start_scanning(active=False))
        await vloop.vwait(host.send_sync_command(hci.HCI_LE_Set_Extended_Advertising_Enable_Command(
            enable=1, advertising_handles=[1], durations=[0], max_extended_advertising_events=[0])))
    except vloop.Hang:
        r.bad('fragadv/hang', 'an advertising set-up command never completed')
        return
    except hci.HCI_Error as e:
        r.ev('fragadv_setup_refused')
        r.add_extra_list('fragadv_errors', str(e))
        return
    await asyncio.sleep(1.0)
    await rg.quiesce()
    mine = [a for a in seen if bytes(a.address) == bytes(rg.devices[0].random_address) and not a.is_scan_response]
    r.ev('adv_events_checked', len(mine))
    r.ev('oracle_evals')
    if not mine:
        r.bad('fragadv/not-seen', f'scanner saw nothing from the fragmented set (adv {len(adv)} bytes, rsp {len(rsp)} bytes)')
    for a in mine[:3]:
        if bytes(a.data_bytes) != adv:
            r.bad('fragadv/adv-data-wrong/' + ('multi-fragment-rsp' if len(fr) > 1 else 'single-fragment-rsp'),
                  f'advertisement carries {len(a.data_bytes)} bytes, the set holds {len(adv)} bytes of advertising data '
                  f'and {len(rsp)} of scan response (trains: adv x{len(fa)}, rsp x{len(fr)})')
            break
    r.ev('fragadv_cases')
    r.sig('fragadv', len(adv), len(rsp), len(fa), len(fr))
    r.evals()
    r.sample = {'kind': 'fragadv', 'adv_len': len(adv), 'rsp_len': len(rsp), 'adv_fragments': len(fa), 'rsp_fragments': len(fr)}


async def advsets(case, r: R):
    """Advertising sets through the Device API over several phases: create, change data, stop, remove,
    create again (the lowest free handle, i.e. the removed set's, is used again). In every phase scanners
    must see exactly the data the sets hold NOW, and nothing from a set that is stopped or removed."""
    from bumble import hci
    from bumble.device import AdvertisingParameters, AdvertisingEventProperties
    from vlib import rig as vrig
    rng = random.Random(case['seed'])
    vrig.seed_entropy(case['seed'])
    rg = make_rig(rng, case, 2, [True, True], delay=rng.choice([0, 1]))
    await rg.power_on()
    dev, scanner = rg.devices[0], rg.devices[1]
    seen = []
    scanner.on('advertisement', seen.append)
    await vloop.vwait(scanner.start_scanning(active=False))
    addrs = [hci.Address(f'C{k}:0{k}:0{k}:0{k}:0{k}:F{k}', hci.Address.RANDOM_DEVICE_ADDRESS) for k in range(3)]
    live = {}       # slot -> [AdvertisingSet, address, data, enabled]
    hist = []

    def payload():
        ln = rng.choice([0, 0, 1, 12, 31, 100, 229])
        return bytes([rng.randrange(256) for _ in range(ln)])

    async def verify(phase):
        await rg.quiesce()
        del seen[:]
        await asyncio.sleep(1.0)
        await rg.quiesce()
        want = {bytes(v[1]): v for v in live.values() if v[3]}
        got = {}
        for a in seen:
            r.ev('adv_events_checked')
            r.ev('oracle_evals')
            v = want.get(bytes(a.address))
            if v is None:
                stopped = [x for x in live.values() if bytes(x[1]) == bytes(a.address)]
                r.bad('advsets/seen-after-' + ('stop' if stopped else 'remove'),
                      f'phase {phase}: an advertisement from {a.address} arrived although no enabled set uses that '
                      f'address; history {hist}')
                return False
            got[bytes(a.address)] = got.get(bytes(a.address), 0) + 1
            if bytes(a.data_bytes) != v[2]:
                r.bad('advsets/adv-data-wrong/' + ('stale' if any(bytes(a.data_bytes) == h[3] for h in hist if h[0] in ('create', 'data')) else 'other'),
                      f'phase {phase}: advertisement from {a.address} carries {bytes(a.data_bytes).hex()[:40]} '
                      f'({len(a.data_bytes)} B), its set holds {v[2].hex()[:40]} ({len(v[2])} B); history '
                      f'{[(h[0], h[1], len(h[3])) for h in hist]}')
                return False
        for ad, v in want.items():
            r.ev('oracle_evals')
            if not got.get(ad):
                r.bad('advsets/not-seen', f'phase {phase}: nothing seen from the enabled set at {v[1]}; history '
                                           f'{[(h[0], h[1], len(h[3])) for h in hist]}')
                return False
        return True

    try:
        for phase in range(rng.choice([3, 4, 5])):
            for _ in range(rng.choice([1, 1, 2])):
                slot = rng.randrange(2)
                if slot not in live:
                    data = payload()
                    props = AdvertisingEventProperties(is_connectable=False, is_scannable=False)
                    ad = addrs[slot] if rng.random() < 0.7 else addrs[2]
                    if any(bytes(v[1]) == bytes(ad) for v in live.values()):
                        ad = addrs[slot]
                    st = await vloop.vwait(dev.create_advertising_set(
                        advertising_parameters=AdvertisingParameters(advertising_event_properties=props,
                                                                     primary_advertising_interval_min=100,
                                                                     primary_advertising_interval_max=100),
                        random_address=ad, advertising_data=data, auto_start=True))
                    live[slot] = [st, ad, data, True]
                    hist.append(('create', slot, st.advertising_handle, data))
                    r.ev('advset_creations')
                    if any(h[0] == 'remove' and h[2] == st.advertising_handle for h in hist):
                        r.ev('advset_handle_reused_after_remove')
                else:
                    st, ad, data, en = live[slot]
                    op_ = rng.choice(['data', 'remove', 'remove', 'stop' if en else 'start'])
                    if op_ == 'data':
                        data = payload()
                        await vloop.vwait(st.set_advertising_data(data))
                        live[slot][2] = data
                        hist.append(('data', slot, st.advertising_handle, data))
                    elif op_ == 'stop':
                        await vloop.vwait(st.stop())
                        live[slot][3] = False
                        hist.append(('stop', slot, st.advertising_handle, b''))
                    elif op_ == 'start':
                        await vloop.vwait(st.start())
                        live[slot][3] = True
                        hist.append(('start', slot, st.advertising_handle, b''))
                    else:
                        if en:
                            await vloop.vwait(st.stop())
                        await vloop.vwait(st.remove())
                        del live[slot]
                        hist.append(('remove', slot, st.advertising_handle, b''))
                        r.ev('advset_removals')
            if not await verify(phase):
                break
            r.ev('advset_phases_verified')
    except vloop.Hang:
        r.bad('advsets/hang', f'an advertising set operation never completed; history {[(h[0], h[1]) for h in hist]}')
    except hci.HCI_Error as e:
        r.bad('advsets/refused', f'{e}; history {[(h[0], h[1], h[2], len(h[3])) for h in hist]}')
    r.ev('advsets_cases')
    r.sig('advsets', tuple((h[0], h[1], len(h[3])) for h in hist))
    r.evals()
    r.sample = {'kind': 'advsets', 'history': [(h[0], h[1], h[2], len(h[3])) for h in hist]}


async def dual(case, r: R):
    """B advertises AND initiates: while advertising (legacy or extended, own address PUBLIC or RANDOM, with or
    without auto-restart) it completes an outgoing connection to C, then A connects to B's advertised address. An
    independent ledger says whether B is advertising now (only start/stop, an INCOMING connection, and the end of
    that incoming connection under auto-restart change it); a scanner S tells what is really on the air. Both ends of
    every connection must agree on peer / self addresses, is_advertising must match the ledger and the scanner, and
    a later stop_advertising() / start_advertising() must do what it says."""
    from bumble import hci, core
    from vlib import rig as vrig
    rng = random.Random(case['seed'])
    vrig.seed_entropy(case['seed'])
    ext_b = rng.random() < 0.5
    rg = make_rig(rng, case, 4, [rng.random() < 0.3, ext_b, rng.random() < 0.3, rng.random() < 0.5])
    await rg.power_on()
    ev = Events(rg)
    A, B, C, S = rg.devices
    pub = rng.random() < 0.5
    restart = rng.random() < 0.5
    own = hci.OwnAddressType.PUBLIC if pub else hci.OwnAddressType.RANDOM
    target = B.public_address if pub else B.random_address
    kind = f'{"extended" if ext_b else "legacy"}/{"public" if pub else "random"}/{"auto-restart" if restart else "no-restart"}'
    init_pub = rng.random() < 0.3          # own address type B uses as an initiator
    hist = []
    heard = []
    S.on('advertisement', lambda a: heard.append(a))
    await vloop.vwait(S.start_scanning(active=False))
    adv = [False]       # the ledger

    async def start_adv():
        await vloop.vwait(B.start_advertising(auto_restart=restart, own_address_type=own,
                                              advertising_interval_min=40, advertising_interval_max=40))
        adv[0] = True

    async def observe(after):
        """What is on the air vs the ledger vs Device.is_advertising."""
        await rg.quiesce()
        await asyncio.sleep(0.3)        # lets a pending auto-restart finish
        await rg.quiesce()
        del heard[:]
        await asyncio.sleep(0.5)
        await rg.quiesce()
        on_air = any(a.address == target for a in heard)
        r.ev('dual_observations')
        r.ev('adv_events_checked', len(heard))
        r.ev('oracle_evals', 2)
        # the advertising state does not depend on the address type; what matters is the advertiser kind, the
        # auto-restart setting and whether the host stopped / restarted advertising while the incoming connection was up
        akind = kind.split('/')[0] + '/' + kind.split('/')[2]
        if 'incoming-connected' in hist and not auto_restart_armed(hist):
            akind += '/stopped-or-started-while-connected'
        if on_air != adv[0]:
            r.bad(f'dual/advertising-state/on-air/{after}/{akind}',
                  f'after {hist}: the scanner {"hears" if on_air else "does not hear"} {target}, but by the calls made '
                  f'and the connections accepted so far B {"is" if adv[0] else "is not"} advertising '
                  f'(is_advertising={B.is_advertising})')
            return False
        # (a legacy advertiser kept for auto-restart counts as "advertising" for the Device while the connection
        # that paused it is up: is_advertising is not judged in that state)
        if not (not ext_b and restart and incoming_live[0]):
            r.ev('dual_is_advertising_checked')
            if bool(B.is_advertising) != adv[0]:
                r.bad(f'dual/advertising-state/is-advertising/{after}/{akind}',
                      f'after {hist}: is_advertising={B.is_advertising}, the scanner '
                      f'{"hears" if on_air else "does not hear"} {target}')
                # (what is on the air agrees with the ledger: the scenario goes on)
        return True

    def agree(tag, c_init, c_acc, acc_addr, init_addr):
        """c_init: the initiator's Connection, c_acc: the acceptor's; acc_addr: the advertised address that was
        connected to; init_addr: the address the initiator used."""
        r.ev('connections_checked')
        r.ev('dual_connections_checked')
        r.ev('oracle_evals', 4)
        ok = True
        for what, got, want in (('initiator.peer_address', c_init.peer_address, acc_addr),
                                ('acceptor.self_address', c_acc.self_address, acc_addr),
                                ('acceptor.peer_address', c_acc.peer_address, init_addr),
                                ('initiator.self_address', c_init.self_address, init_addr)):
            if got != want:
                ok = False
                r.bad(f'connect/address-mismatch/dual/{tag}/{kind}',
                      f'{what} is {got!r}, the address used on the air is {want!r}; after {hist}')
        return ok

    async def connect(x, xi, target_addr, acc_dev, own_type=hci.OwnAddressType.RANDOM):
        before = len(ev.conn[acc_dev])
        c = await vloop.vwait(x.connect(target_addr, own_address_type=own_type, timeout=20))
        await rg.quiesce()
        new = [k for k in ev.conn[acc_dev][before:] if k.role == hci.Role.PERIPHERAL]
        r.ev('oracle_evals')
        if len(new) != 1:
            r.bad(f'connect/peer-events/dual/{kind}', f'device {acc_dev} got {len(new)} incoming connection events for one '
                                                      f'connect by device {xi}; after {hist}')
            return c, None
        return c, new[0]

    incoming_live = [False]
    out_pair = in_pair = None
    try:
        await vloop.vwait(C.start_advertising(auto_restart=False, advertising_interval_min=40, advertising_interval_max=40))
        adv_first = rng.random() < 0.8
        if adv_first:
            await start_adv()
            hist.append('start_advertising')
        # ---- B's outgoing connection (B is central) while it advertises
        b_own = hci.OwnAddressType.PUBLIC if init_pub else hci.OwnAddressType.RANDOM
        b_init_addr = B.public_address if init_pub else B.random_address
        out_pair = await connect(B, 1, C.random_address, 2, b_own)
        hist.append('outgoing-connected')
        if adv_first:
            r.ev('dual_outgoing_while_advertising')
        if out_pair[1] is None or not agree('outgoing', out_pair[0], out_pair[1], C.random_address, b_init_addr):
            return
        if not adv_first:
            await start_adv()
            hist.append('start_advertising')
        if not await observe('outgoing-connected'):
            return
        if rng.random() < 0.3:
            # stop and start again between the two connections
            await vloop.vwait(B.stop_advertising())
            adv[0] = False
            hist.append('stop_advertising')
            if not await observe('stop'):
                return
            await start_adv()
            hist.append('start_advertising')
            if not await observe('start'):
                return
        # ---- A connects to B (B is peripheral)
        a_pub = rng.random() < 0.3
        in_pair = await connect(A, 0, target, 1, hci.OwnAddressType.PUBLIC if a_pub else hci.OwnAddressType.RANDOM)
        adv[0] = False
        incoming_live[0] = True
        hist.append('incoming-connected')
        r.ev('dual_incoming_after_outgoing')
        if in_pair[1] is None or not agree('incoming', in_pair[0], in_pair[1], target,
                                           A.public_address if a_pub else A.random_address):
            return
        if not await observe('incoming-connected'):
            return
        # data both ways on both connections: each PDU reaches its peer only
        want = {i: [] for i in range(4)}
        marks = {i: len(ev.rx[i]) for i in range(4)}
        for k, (s_, d_, cs, cd) in enumerate(((1, 2, out_pair[0], out_pair[1]), (2, 1, out_pair[1], out_pair[0]),
                                              (0, 1, in_pair[0], in_pair[1]), (1, 0, in_pair[1], in_pair[0]))):
            p = bytes([0xD0, s_, d_, k])
            rg.devices[s_].send_l2cap_pdu(cs.handle, CID, p)
            want[d_].append((cd.handle, p))
        await rg.quiesce()
        for i in range(4):
            r.ev('payloads_checked', len(want[i]))
            r.ev('oracle_evals')
            if sorted(ev.rx[i][marks[i]:]) != sorted(want[i]):
                r.bad(f'data/misdelivered/dual/{kind}', f'device {i} received {ev.rx[i][marks[i]:]}, expected {want[i]}; after {hist}')
                return
        # ---- the connections end in either order; stop / start in between
        todo = ['end-outgoing', 'end-incoming'] + rng.sample(['stop', 'start', 'stop-start'], rng.choice([0, 1, 1, 2]))
        rng.shuffle(todo)
        for step in todo:
            if step == 'end-outgoing':
                c = rng.choice(out_pair)
                await vloop.vwait(c.disconnect())
                hist.append('outgoing-disconnected')
            elif step == 'end-incoming':
                c = rng.choice(in_pair)
                await vloop.vwait(c.disconnect())
                incoming_live[0] = False
                hist.append('incoming-disconnected')
                if restart and auto_restart_armed(hist):
                    adv[0] = True
            elif step == 'stop':
                await vloop.vwait(B.stop_advertising())
                adv[0] = False
                hist.append('stop_advertising')
            elif step == 'start':
                await start_adv()
                hist.append('start_advertising')
            else:
                await vloop.vwait(B.stop_advertising())
                await start_adv()
                hist.append('stop_advertising')
                hist.append('start_advertising')
            r.ev('disconnections_checked' if step.startswith('end') else 'dual_stop_start_steps')
            if not await observe(hist[-1].replace('_', '-')):
                return
        # ---- and at the end stop_advertising() / start_advertising() do what they say, and B can be connected to again
        await vloop.vwait(B.stop_advertising())
        adv[0] = False
        hist.append('stop_advertising')
        if not await observe('final-stop'):
            return
        await start_adv()
        hist.append('start_advertising')
        if not await observe('final-start'):
            return
        again = await connect(A, 0, target, 1)
        adv[0] = False
        incoming_live[0] = True
        hist.append('incoming-connected')
        if again[1] is None or not agree('incoming-again', again[0], again[1], target, A.random_address):
            return
        if not await observe('incoming-connected-again'):
            return
        r.ev('dual_cases_completed')
    except vloop.Hang:
        r.bad(f'dual/hang/{kind}', f'a call was still pending at T_v after {hist}')
    except (core.TimeoutError, asyncio.TimeoutError, core.ConnectionError, hci.HCI_Error, core.InvalidStateError) as e:
        r.bad(f'dual/call-failed/{type(e).__name__}/{kind}', f'{type(e).__name__}: {e}; after {hist}')
    for where, e in rg.exceptions:
        r.bad('link/exception-in-stack', f'{where}: {e}; dual {kind} after {hist}')
    r.ev('dual_cases')
    r.sig('dual', kind, init_pub, tuple(hist))
    r.sched.add(rg.schedule_signature)
    r.evals()
    r.sample = {'kind': 'dual', 'advertiser': kind, 'history': hist}


# -----------------------------------------------------------------------------
# address kinds a peripheral can be reached through
async def advertise_as(rg, dev, kind, tag=0, restart=False):
    """Device `dev` becomes connectable through: 'random' / 'public' (legacy API, controller addresses), 'set-random'
    (an extended advertising set with its OWN random address) or 'set-public'. Returns the address on the air."""
    from bumble import hci
    from bumble.device import AdvertisingParameters, AdvertisingEventProperties
    d = rg.devices[dev]
    if kind.startswith('set'):
        own = hci.OwnAddressType.PUBLIC if kind == 'set-public' else hci.OwnAddressType.RANDOM
        set_address = hci.Address(f'C{dev}:5E:75:E7:0{tag & 7}:F{dev}', hci.Address.RANDOM_DEVICE_ADDRESS)
        await vloop.vwait(d.create_advertising_set(
            advertising_parameters=AdvertisingParameters(
                advertising_event_properties=AdvertisingEventProperties(is_connectable=True, is_scannable=False),
                primary_advertising_interval_min=40, primary_advertising_interval_max=40, own_address_type=own),
            random_address=set_address, auto_start=True))
        return d.public_address if kind == 'set-public' else set_address
    own = hci.OwnAddressType.PUBLIC if kind == 'public' else hci.OwnAddressType.RANDOM
    await vloop.vwait(d.start_advertising(auto_restart=restart, own_address_type=own, advertising_interval_min=40,
                                          advertising_interval_max=40))
    return d.public_address if kind == 'public' else d.random_address


def address_relations(r, key, c_init, c_acc, acc_addr, init_addr, ctx):
    """Both ends report the connection with matching addresses: what the initiator connected to is what the acceptor
    says it is, and the other way round."""
    r.ev('connections_checked')
    r.ev('oracle_evals', 4)
    ok = True
    for what, got, want in (('initiator.peer_address', c_init.peer_address, acc_addr),
                            ('acceptor.self_address', c_acc.self_address, acc_addr),
                            ('acceptor.peer_address', c_acc.peer_address, init_addr),
                            ('initiator.self_address', c_init.self_address, init_addr)):
        if got != want:
            ok = False
            r.bad(f'connect/address-mismatch/{key}', f'{what} is {got!r}, the address used on the air is {want!r}; {ctx()}')
    return ok


async def pending(case, r: R):
    """D is central and peripheral at the same time: it advertises with one own-address type while its own connect() to
    P, made with the same or the OTHER own-address type, is still pending (P is silent); C connects to D in that
    window. Then P starts advertising and D's attempt completes (or it never does and the attempt times out). Both
    ends of both connections must agree on the addresses, the caller of each connect() gets its own connection, and
    data on each connection reaches its peer only."""
    from bumble import hci, core
    from vlib import rig as vrig
    rng = random.Random(case['seed'] ^ 0x9E4D)
    vrig.seed_entropy(case['seed'])
    ext = [rng.random() < 0.4 for _ in range(3)]
    rg = make_rig(rng, case, 3, ext)
    await rg.power_on()
    ev = Events(rg)
    C, D, P = rg.devices            # 0, 1, 2
    adv_kind = rng.choice(['random', 'public', 'public'] + (['set-random', 'set-public'] if ext[1] else []))
    d_init_pub = rng.random() < 0.5
    c_pub = rng.random() < 0.3
    p_kind = rng.choice(['random', 'public'])
    outcome = rng.choice(['peer-shows-up', 'peer-shows-up', 'peer-shows-up', 'times-out'])
    adv_first = rng.random() < 0.6
    mixed = (adv_kind.endswith('public')) != d_init_pub
    kind = f'{"extended" if ext[1] else "legacy"}/adv-{adv_kind}/connect-{"public" if d_init_pub else "random"}'
    hist = []
    r.ev('pending_cases')
    if mixed:
        r.ev('pending_cases_mixed_own_address_types')

    def ctx():
        return f'{kind} ext={ext}; after {hist}'

    out = None
    try:
        p_target = P.public_address if p_kind == 'public' else P.random_address
        d_own = hci.OwnAddressType.PUBLIC if d_init_pub else hci.OwnAddressType.RANDOM
        d_init_addr = D.public_address if d_init_pub else D.random_address

        async def start_out():
            return asyncio.ensure_future(D.connect(p_target, own_address_type=d_own, timeout=rng.choice([8, 30])))
        if adv_first:
            target = await advertise_as(rg, 1, adv_kind)
            hist.append(f'D-advertises/{adv_kind}')
            out = await start_out()
            hist.append('D-connect-pending')
        else:
            out = await start_out()
            hist.append('D-connect-pending')
            for _ in range(rng.randint(1, 30)):
                await asyncio.sleep(0)
            target = await advertise_as(rg, 1, adv_kind)
            hist.append(f'D-advertises/{adv_kind}')
        for _ in range(rng.randint(1, 40)):
            await asyncio.sleep(0)
        r.ev('oracle_evals')
        if out.done():
            r.bad(f'pending/outgoing-concluded-early/{kind}', f'connect() to a silent peer is done already: {out}; {ctx()}')
            return
        # ---- C connects to D while D's own attempt is pending
        before = len(ev.conn[1])
        c_own = hci.OwnAddressType.PUBLIC if c_pub else hci.OwnAddressType.RANDOM
        c_to_d = await vloop.vwait(C.connect(target, own_address_type=c_own, timeout=20))
        await rg.quiesce()
        hist.append('C-connected-to-D')
        r.ev('pending_incoming_while_outgoing_pending')
        new = ev.conn[1][before:]
        r.ev('oracle_evals', 2)
        if len(new) != 1 or new[0].role != hci.Role.PERIPHERAL:
            r.bad(f'connect/peer-events/pending/{kind}', f'D got {[(c.role, str(c.peer_address)) for c in new]} connection events '
                                                        f'for one connect by C; {ctx()}')
            return
        d_from_c = new[0]
        if out.done():
            res = out.exception() if not out.cancelled() else 'cancelled'
            r.bad(f'pending/outgoing-concluded-by-incoming/{kind}',
                  f"D's connect() to the silent P was concluded by the connection C made: {res or out.result()}; {ctx()}")
            return
        if not address_relations(r, f'pending/incoming/{kind}', c_to_d, d_from_c, target,
                                 C.public_address if c_pub else C.random_address, ctx):
            return
        pairs = [(0, 1, c_to_d, d_from_c)]
        # ---- P shows up (or never does)
        if outcome == 'peer-shows-up':
            before_p = len(ev.conn[2])
            await advertise_as(rg, 2, p_kind)
            hist.append('P-advertises')
            d_to_p = await vloop.vwait(out)
            await rg.quiesce()
            hist.append('D-connected-to-P')
            r.ev('pending_outgoing_completed_after_incoming')
            new_p = ev.conn[2][before_p:]
            r.ev('oracle_evals', 3)
            if d_to_p is d_from_c or d_to_p.role != hci.Role.CENTRAL or d_to_p.peer_address != p_target:
                r.bad(f'pending/outgoing-connect-handed-wrong-connection/{kind}',
                      f'connect({p_target}) returned {d_to_p} (role {d_to_p.role}); {ctx()}')
                return
            if len(new_p) != 1:
                r.bad(f'connect/peer-events/pending/{kind}', f'P got {len(new_p)} connection events; {ctx()}')
                return
            if not address_relations(r, f'pending/outgoing/{kind}', d_to_p, new_p[0], p_target, d_init_addr, ctx):
                return
            r.ev('oracle_evals')
            if d_to_p.handle == d_from_c.handle:
                r.bad(f'connect/handles/pending/{kind}', f'both connections of D have handle {d_to_p.handle:#x}; {ctx()}')
            pairs.append((1, 2, d_to_p, new_p[0]))
        else:
            try:
                res = await vloop.vwait(out)
                r.bad(f'pending/outgoing-connect-to-silent-peer-succeeded/{kind}', f'connect({p_target}) returned {res}; {ctx()}')
                return
            except (core.TimeoutError, asyncio.TimeoutError, core.ConnectionError):
                r.ev('pending_outgoing_timed_out')
                hist.append('D-connect-timed-out')
            await rg.quiesce()
            # the incoming connection is untouched, with the same addresses
            r.ev('oracle_evals')
            if d_from_c.handle not in [c.handle for c in D.connections.values()]:
                r.bad(f'pending/incoming-connection-lost/{kind}', f'D no longer has the connection from C; {ctx()}')
                return
            if not address_relations(r, f'pending/incoming-after-timeout/{kind}', c_to_d, d_from_c, target,
                                     C.public_address if c_pub else C.random_address, ctx):
                return
        # ---- data on every connection, both directions: to the peer only
        marks = {i: len(ev.rx[i]) for i in range(3)}
        want = {i: [] for i in range(3)}
        k = 0
        for (a, b, ca, cb) in pairs:
            for (s_, d_, cs, cd) in ((a, b, ca, cb), (b, a, cb, ca)):
                for _ in range(rng.randint(1, 3)):
                    k += 1
                    p_ = bytes([0xD1, s_, d_, k]) + bytes(rng.choice([0, 5, 60]))
                    rg.devices[s_].send_l2cap_pdu(cs.handle, CID, p_)
                    want[d_].append((cd.handle, p_))
        await rg.quiesce()
        for i in range(3):
            r.ev('payloads_checked', len(want[i]))
            r.ev('oracle_evals')
            have = ev.rx[i][marks[i]:]
            if sorted(have) != sorted(want[i]):
                lost = [w for w in want[i] if w not in have]
                r.bad(f'data/{"lost" if lost else "misdelivered"}/pending/{kind}',
                      f'device {i} received {have}, expected {want[i]}; {ctx()}')
                return
        # ---- both connections end, by either side; reported to both
        for (a, b, ca, cb) in pairs:
            da, db = len(ev.disc[a]), len(ev.disc[b])
            await vloop.vwait(rng.choice([ca, cb]).disconnect())
            await rg.quiesce()
            r.ev('disconnections_checked')
            r.ev('oracle_evals')
            if [h for h, _ in ev.disc[a][da:]] != [ca.handle] or [h for h, _ in ev.disc[b][db:]] != [cb.handle]:
                r.bad(f'disconnect/not-reported-to-both/pending/{kind}',
                      f'device {a} events {ev.disc[a][da:]}, device {b} events {ev.disc[b][db:]}; {ctx()}')
        r.ev('pending_cases_completed')
    except vloop.Hang:
        r.bad(f'pending/hang/{kind}', f'a call was still pending at T_v; {ctx()}')
    except (core.TimeoutError, asyncio.TimeoutError, core.ConnectionError, hci.HCI_Error, core.InvalidStateError) as e:
        r.bad(f'pending/call-failed/{type(e).__name__}/{kind}', f'{type(e).__name__}: {e}; {ctx()}')
    finally:
        if out is not None and not out.done():
            out.cancel()
    for where, e in rg.exceptions:
        r.bad('link/exception-in-stack', f'{where}: {e}; pending {ctx()}')
    r.sig('pending', kind, c_pub, p_kind, outcome, adv_first)
    r.sched.add(rg.schedule_signature)
    r.evals()
    r.sample = {'kind': 'pending', 'scenario': kind, 'history': hist}


async def recon(case, r: R):
    """A is connected to X (either direction, the peripheral reached through a random / public / advertising-set
    address), a bulk transfer (more fragments than the controller has buffers, unacknowledged) is cut by a
    disconnection of either side, then A gets a NEW connection (to X again or to Y, either direction): every PDU sent
    on it is delivered exactly once, in order, to that connection's peer and to nobody else."""
    from bumble import hci, core
    from vlib import rig as vrig
    rng = random.Random(case['seed'] ^ 0x4EC0)
    vrig.seed_entropy(case['seed'])
    ext = [rng.random() < 0.5 for _ in range(3)]
    num = rng.choice([2, 8, 64, 64])
    rg = vrig.Rig(3, seed=case['seed'], max_delay=rng.choice([0, 0, 1, 3]), le_acl_num=num,
                  collide_addresses=rng.random() < 0.3)
    for i, e in enumerate(ext):
        if e:
            rg.controllers[i].le_features = rg.controllers[i].le_features | hci.LeFeatureMask.LE_EXTENDED_ADVERTISING
    await rg.power_on()
    ev = Events(rg)
    hist = []
    r.ev('recon_cases')
    counter = [0]

    def ctx():
        return f'buffers={num} ext={ext}; history {hist}'

    async def connect(a_is_central, other, tag):
        """Returns (A's connection, the other's connection, address kind of the peripheral)."""
        ci, pi = (0, other) if a_is_central else (other, 0)
        kind = rng.choice(['random', 'public'] + (['set-random', 'set-public'] if ext[pi] else []))
        before = len(ev.conn[pi])
        target = await advertise_as(rg, pi, kind, tag)
        c_pub = rng.random() < 0.3
        cc = await vloop.vwait(rg.devices[ci].connect(
            target, own_address_type=hci.OwnAddressType.PUBLIC if c_pub else hci.OwnAddressType.RANDOM, timeout=20))
        await rg.quiesce()
        new = ev.conn[pi][before:]
        r.ev('oracle_evals')
        label = f'peripheral-{kind}'
        if len(new) != 1:
            r.bad(f'connect/peer-events/recon/{label}', f'device {pi} got {len(new)} connection events; {ctx()}')
            return None
        hist.append(f'connected/A-is-{"central" if a_is_central else "peripheral"}/{label}/with-{other}')
        r.ev(f'recon_connections_{kind.replace("-", "_")}')
        init_addr = rg.devices[ci].public_address if c_pub else rg.devices[ci].random_address
        if not address_relations(r, f'recon/{label}', cc, new[0], target, init_addr, ctx):
            return None
        return (cc, new[0], label) if a_is_central else (new[0], cc, label)

    async def exchange(ca, co, other, phase, label):
        """Unique PDUs both ways between A and `other`, some needing several fragments."""
        marks = {i: len(ev.rx[i]) for i in range(3)}
        want = {i: [] for i in range(3)}
        for (s_, d_, cs, cd) in ((0, other, ca, co), (other, 0, co, ca)):
            for _ in range(rng.randint(2, 5)):
                counter[0] += 1
                p_ = bytes([0xEC, s_, d_]) + counter[0].to_bytes(3, 'little') + bytes(rng.choice([0, 10, 60, 200]))
                rg.devices[s_].send_l2cap_pdu(cs.handle, CID, p_)
                want[d_].append((cd.handle, p_))
                if rng.random() < 0.3:
                    await asyncio.sleep(0)
        await rg.quiesce()
        await asyncio.sleep(1.0)
        await rg.quiesce()
        ok = True
        for i in range(3):
            have = ev.rx[i][marks[i]:]
            r.ev('payloads_checked', len(want[i]))
            r.ev('oracle_evals')
            if have != want[i]:
                ok = False
                lost = [w for w in want[i] if w not in have]
                extra = [h for h in have if h not in want[i]]
                what = 'lost' if lost else 'misdelivered' if extra else 'reordered-or-duplicated'
                r.bad(f'data/{what}/recon/{phase}/{label}',
                      f'device {i} received {len(have)} PDUs, expected {len(want[i])} (missing {len(lost)}, foreign {len(extra)}); '
                      f'packets still queued in host 0: {rg.hosts[0].le_acl_packet_queue.pending if rg.hosts[0].le_acl_packet_queue else None}; {ctx()}')
        return ok

    try:
        x = rng.choice([1, 2])
        got = await connect(rng.random() < 0.6, x, 0)
        if got is None:
            return
        ca, cx, label = got
        if not await exchange(ca, cx, x, 'first-connection', label):
            return
        for rnd in range(rng.choice([1, 2, 2])):
            # ---- bulk transfer from A (or towards A), cut by a disconnection
            sender = rng.choice([0, 0, x])
            sconn = ca if sender == 0 else cx
            frags = num + rng.choice([2, 10, 70])
            total = 0
            while total < frags:
                size = 27 * rng.choice([3, 8, 70]) - 4
                counter[0] += 1
                rg.devices[sender].send_l2cap_pdu(sconn.handle, CID, bytes([0xBB, sender]) + counter[0].to_bytes(3, 'little') + bytes(size - 5))
                total += -(-(size + 4) // 27)
            for _ in range(rng.choice([0, 1, 3, 10, 40, 100])):
                await asyncio.sleep(0)
            by = rng.choice(['A', 'other'])
            await vloop.vwait((ca if by == 'A' else cx).disconnect())
            await rg.quiesce()
            hist.append(f'bulk-{total}-fragments-from-{sender}-cut-by-{by}')
            r.ev('recon_bulk_transfers_cut')
            if sender == 0:
                r.ev('recon_bulk_transfers_cut_from_A')
            r.ev('disconnections_checked')
            r.ev('oracle_evals')
            if any(c.handle in rg.hosts[d].connections for d, c in ((0, ca), (x, cx))):
                r.bad(f'disconnect/stale-connection/recon/{label}', f'a host still has the disconnected handle; {ctx()}')
            # ---- the new connection of A must carry data
            x = rng.choice([1, 2])
            got = await connect(rng.random() < 0.6, x, rnd + 1)
            if got is None:
                return
            ca, cx, label = got
            r.ev('recon_new_connections_after_cut')
            if not await exchange(ca, cx, x, 'after-cut-bulk-transfer', label):
                return
        r.ev('recon_cases_completed')
    except vloop.Hang:
        r.bad('recon/hang', f'a call was still pending at T_v; {ctx()}')
    except (core.TimeoutError, asyncio.TimeoutError, core.ConnectionError, hci.HCI_Error, core.InvalidStateError) as e:
        r.bad(f'recon/call-failed/{type(e).__name__}', f'{type(e).__name__}: {e}; {ctx()}')
    for where, e in rg.exceptions:
        r.bad('link/exception-in-stack', f'{where}: {e}; recon {ctx()}')
    r.sig('recon', tuple(ext), num, tuple(hist))
    r.sched.add(rg.schedule_signature)
    r.evals()
    r.sample = {'kind': 'recon', 'buffers': num, 'extended_adv': ext, 'history': hist}


async def both(case, r: R):
    """The SAME two dual-mode devices A and B are connected over LE (legacy / extended advertiser, PUBLIC / RANDOM own
    address on either side, either of them central) AND over BR/EDR (either of them initiator) at the same time, in
    either order, with a third device as bystander (sometimes connected to A as well). Both ends report both
    connections with matching addresses, four live handles; PDUs interleaved on the four directions (some needing several
    fragments) come out exactly once, in order, under the handle of the connection they were sent on; one link is then
    disconnected by either side: reported to both for that handle only, the other link still carries data both ways;
    sometimes the ended link is made again."""
    from bumble import hci, core
    from bumble.core import PhysicalTransport
    from vlib import rig as vrig
    rng = random.Random(case['seed'] ^ 0xB07A)
    vrig.seed_entropy(case['seed'])
    ext = [rng.random() < 0.4 for _ in range(3)]
    rg = make_rig(rng, case, 3, ext, classic=True)
    await rg.power_on()
    ev = Events(rg)
    r.ev('both_cases')
    hist = []
    counter = [0]
    le_c = rng.choice([0, 1])               # LE central (the other one is the peripheral)
    le_p = 1 - le_c
    bi = rng.choice([0, 1])                 # BR/EDR initiator
    ba = 1 - bi
    adv_kind = rng.choice(['public', 'public', 'random'])
    init_kind = rng.choice(['public', 'public', 'random'])
    label = f'le-adv-{adv_kind}/le-init-{init_kind}'

    def ctx():
        return (f'LE central={le_c} ({init_kind}) peripheral={le_p} ({adv_kind}), BR/EDR initiator={bi}; ext={ext}; '
                f'history {hist}')

    links = {}      # 'le' / 'bredr' -> {dev: Connection}

    async def connect_le():
        before = len(ev.conn[le_p])
        target = await advertise_as(rg, le_p, adv_kind)
        own = hci.OwnAddressType.PUBLIC if init_kind == 'public' else hci.OwnAddressType.RANDOM
        cc = await vloop.vwait(rg.devices[le_c].connect(target, own_address_type=own, timeout=20))
        await rg.quiesce()
        new = [c for c in ev.conn[le_p][before:] if c.transport == PhysicalTransport.LE]
        r.ev('oracle_evals')
        if len(new) != 1 or len(ev.conn[le_p][before:]) != 1:
            r.bad(f'connect/peer-events/both/le/{label}', f'device {le_p} got {len(ev.conn[le_p][before:])} connection events '
                                                          f'for one LE connect; {ctx()}')
            return False
        init_addr = rg.devices[le_c].public_address if init_kind == 'public' else rg.devices[le_c].random_address
        hist.append('le-connected')
        links['le'] = {le_c: cc, le_p: new[0]}
        return address_relations(r, f'both/le/{label}', cc, new[0], target, init_addr, ctx)

    async def connect_bredr():
        before = len(ev.conn[ba])
        ci = await vloop.vwait(rg.devices[bi].connect(rg.devices[ba].public_address, transport=PhysicalTransport.BR_EDR,
                                                      timeout=20))
        await rg.quiesce()
        new = ev.conn[ba][before:]
        r.ev('oracle_evals')
        if len(new) != 1:
            r.bad(f'connect/peer-events/both/bredr/{label}', f'device {ba} got {len(new)} connection events for one BR/EDR '
                                                             f'connect; {ctx()}')
            return False
        hist.append('bredr-connected')
        links['bredr'] = {bi: ci, ba: new[0]}
        r.ev('connections_checked')
        r.ev('oracle_evals', 3)
        ok = True
        for what, got, want in (('initiator.peer_address', ci.peer_address, rg.devices[ba].public_address),
                                ('acceptor.peer_address', new[0].peer_address, rg.devices[bi].public_address),
                                ('initiator.transport', ci.transport, PhysicalTransport.BR_EDR),
                                ('acceptor.transport', new[0].transport, PhysicalTransport.BR_EDR)):
            if got != want:
                ok = False
                r.bad(f'connect/address-mismatch/both/bredr/{label}', f'{what} is {got!r}, expected {want!r}; {ctx()}')
        return ok

    def handles_ok(phase):
        """Every live connection of A and B has its own handle, known to the Device, the Host and the controller,
        and the controller files it under the right transport."""
        r.ev('oracle_evals')
        r.ev('both_handle_sets_checked')
        for d in (0, 1):
            mine = [(tr, l[d]) for tr, l in links.items()]
            hs = [c.handle for _tr, c in mine]
            dev_hs = [c.handle for c in rg.devices[d].connections.values()]
            ctl_le = [c.handle for c in rg.controllers[d].le_connections.values()]
            ctl_br = [c.handle for c in rg.controllers[d].classic_connections.values()]
            want_le = sorted(c.handle for tr, c in mine if tr == 'le') + sorted(x[d].handle for x in [extra_link] if x and d in x and extra_tr == 'le')
            want_br = sorted(c.handle for tr, c in mine if tr == 'bredr') + sorted(x[d].handle for x in [extra_link] if x and d in x and extra_tr == 'bredr')
            if len(set(hs)) != len(hs) or any(h not in dev_hs for h in hs) or len(set(dev_hs)) != len(dev_hs) \
                    or sorted(ctl_le) != sorted(want_le) or sorted(ctl_br) != sorted(want_br):
                r.bad(f'connect/handles/both/{phase}/{label}',
                      f'device {d}: connections {[(tr, hex(c.handle)) for tr, c in mine]}, Device has {dev_hs}, controller LE '
                      f'{ctl_le} BR/EDR {ctl_br}; {ctx()}')
                return False
        return True

    async def exchange(phase):
        """Unique PDUs interleaved on every direction of every live link."""
        marks = {i: len(ev.rx[i]) for i in range(3)}
        want = {i: [] for i in range(3)}
        meta = {}
        dirs = []
        for tr, l in links.items():
            (x, cx), (y, cy) = sorted(l.items())
            dirs += [(tr, x, y, cx, cy), (tr, y, x, cy, cx)]
        if extra_link:
            (x, cx), (y, cy) = sorted(extra_link.items())
            dirs += [('extra-' + extra_tr, x, y, cx, cy), ('extra-' + extra_tr, y, x, cy, cx)]
        for rnd in range(rng.randint(2, 4)):
            rng.shuffle(dirs)
            for (tr, s_, d_, cs, cd) in dirs:
                counter[0] += 1
                p_ = bytes([0xB0, s_, d_]) + counter[0].to_bytes(3, 'little') + bytes([len(tr)]) * rng.choice([0, 5, 40, 150])
                rg.devices[s_].send_l2cap_pdu(cs.handle, CID, p_)
                want[d_].append((cd.handle, p_))
                meta[p_] = (tr, s_, d_, cd.handle)
                if rng.random() < 0.3:
                    await asyncio.sleep(0)
        await rg.quiesce()
        ok = True
        for i in range(3):
            have = ev.rx[i][marks[i]:]
            r.ev('payloads_checked', len(want[i]))
            r.ev('both_payloads_checked', len(want[i]))
            r.ev('oracle_evals')
            handles = {h for h, _ in want[i]} | {h for h, _ in have}
            if all([x for x in have if x[0] == h] == [x for x in want[i] if x[0] == h] for h in handles):
                continue
            ok = False
            hp = [p_ for _h, p_ in have]
            wrong = [(h, p_) for h, p_ in have if p_ in meta and meta[p_][2] == i and meta[p_][3] != h]
            foreign = [(h, p_) for h, p_ in have if p_ not in meta or meta[p_][2] != i]
            lost = [w for w in want[i] if w[1] not in hp]
            if wrong:
                tr = meta[wrong[0][1]][0]
                side = 'le-central' if meta[wrong[0][1]][1] == le_c else 'le-peripheral'
                r.bad(f'data/wrong-handle/both/{phase}/sent-on-{tr}/by-{side}/{label}',
                      f'device {i}: {len(wrong)} of {len(want[i])} PDUs came out under the handle of ANOTHER connection (first: sent on '
                      f'the {tr} link for handle {meta[wrong[0][1]][3]:#x}, delivered under {wrong[0][0]:#x}); {ctx()}')
            elif foreign:
                r.bad(f'data/misdelivered/both/{phase}/{label}', f'device {i} received {len(foreign)} PDUs not meant for it; {ctx()}')
            elif lost:
                tr = meta[lost[0][1]][0]
                side = 'le-central' if meta[lost[0][1]][1] == le_c else 'le-peripheral'
                r.bad(f'data/lost/both/{phase}/sent-on-{tr}/by-{side}/{label}',
                      f'device {i} never received {len(lost)} of {len(want[i])} PDUs; {ctx()}')
            else:
                r.bad(f'data/reordered-or-duplicated/both/{phase}/{label}',
                      f'device {i} received {len(have)} PDUs, expected {len(want[i])}; {ctx()}')
        return ok

    async def end(tr, by):
        l = links.pop(tr)
        (x, cx), (y, cy) = sorted(l.items())
        marks = {i: len(ev.disc[i]) for i in range(3)}
        who = l[by]
        await vloop.vwait(who.disconnect())
        await rg.quiesce()
        hist.append(f'{tr}-disconnected-by-{by}')
        r.ev('disconnections_checked')
        r.ev('oracle_evals', 2)
        ok = True
        for d, c in ((x, cx), (y, cy)):
            got = [h for h, _reason in ev.disc[d][marks[d]:]]
            if got != [c.handle]:
                ok = False
                r.bad(f'disconnect/not-reported-to-both/both/{tr}-ended/{label}',
                      f'device {d}: disconnection events for handles {got}, the {tr} connection that ended is {c.handle:#x} '
                      f'(by device {by}); {ctx()}')
            if c.handle in rg.hosts[d].connections or rg.controllers[d].find_connection_by_handle(c.handle):
                ok = False
                r.bad(f'disconnect/stale-connection/both/{tr}-ended/{label}', f'device {d} still has handle {c.handle:#x}; {ctx()}')
        if ev.disc[2][marks[2]:]:
            ok = False
            r.bad(f'disconnect/third-party/both/{tr}-ended/{label}', f'the bystander got {ev.disc[2][marks[2]:]}; {ctx()}')
        return ok

    extra_link = None
    extra_tr = None
    try:
        # sometimes the bystander is connected to A first (LE with random addresses, or BR/EDR)
        if rng.random() < 0.4:
            extra_tr = rng.choice(['le', 'bredr'])
            before = len(ev.conn[2])
            if extra_tr == 'le':
                t_ = await advertise_as(rg, 2, 'random')
                c0 = await vloop.vwait(rg.devices[0].connect(t_, timeout=20))
            else:
                c0 = await vloop.vwait(rg.devices[0].connect(rg.devices[2].public_address, transport=PhysicalTransport.BR_EDR,
                                                             timeout=20))
            await rg.quiesce()
            if len(ev.conn[2][before:]) != 1:
                r.bad(f'connect/peer-events/both/bystander-{extra_tr}', f'{len(ev.conn[2][before:])} events; {ctx()}')
                return
            extra_link = {0: c0, 2: ev.conn[2][before]}
            hist.append(f'bystander-connected-over-{extra_tr}')
        order = rng.choice([('le', 'bredr'), ('bredr', 'le')])
        for k, tr in enumerate(order):
            if not await (connect_le() if tr == 'le' else connect_bredr()):
                return
            if k == 0 and rng.random() < 0.5:
                if not await exchange('one-link'):
                    return
        r.ev('both_links_up')
        r.ev(f'both_links_up_le_adv_{adv_kind}_init_{init_kind}')
        if not handles_ok('both-links-up'):
            return
        if not await exchange('both-links-up'):
            return
        r.ev('both_exchanges_on_both_links')
        # one link ends, the other must go on
        first = rng.choice(['le', 'bredr'])
        other = 'bredr' if first == 'le' else 'le'
        if not await end(first, rng.choice([0, 1])):
            return
        if not handles_ok(f'{first}-ended') or not await exchange(f'{first}-ended'):
            return
        r.ev('both_survivor_exchanges')
        if rng.random() < 0.5:
            if not await (connect_le() if first == 'le' else connect_bredr()):
                return
            if not handles_ok('link-made-again') or not await exchange('link-made-again'):
                return
            r.ev('both_links_made_again')
        for tr in rng.sample(sorted(links), len(links)):
            if not await end(tr, rng.choice([0, 1])):
                return
            if links and not await exchange(f'{tr}-ended'):
                return
        r.ev('both_cases_completed')
    except vloop.Hang:
        r.bad('both/hang', f'a call was still pending at T_v; {ctx()}')
    except (core.TimeoutError, asyncio.TimeoutError, core.ConnectionError, hci.HCI_Error, core.InvalidStateError) as e:
        r.bad(f'both/call-failed/{type(e).__name__}', f'{type(e).__name__}: {e}; {ctx()}')
    for where, e in rg.exceptions:
        r.bad('link/exception-in-stack', f'{where}: {e}; both {ctx()}')
    r.sig('both', tuple(ext), le_c, bi, adv_kind, init_kind, tuple(hist))
    r.sched.add(rg.schedule_signature)
    r.evals()
    r.sample = {'kind': 'both', 'le_central': le_c, 'bredr_initiator': bi, 'le_adv': adv_kind, 'le_init': init_kind,
                'history': hist}


def on_air_random_address(rg, dev):
    """The random address controller `dev` was last given (HCI_LE_Set_Random_Address, read from the HCI tap, not from
    the Device or the Controller objects), and how many times it was given one."""
    from bumble import hci
    last, count = None, 0
    for rec in rg.hci_log:
        if rec[1] == dev and rec[2] == 'h2c' and rec[3][:4] == b'\x01\x05\x20\x06' and len(rec[3]) == 10:
            last = hci.Address(bytes(rec[3][4:10]), hci.Address.RANDOM_DEVICE_ADDRESS)
            count += 1
    return last, count


async def rpa(case, r: R):
    """LE privacy: devices whose own random address is a resolvable private address that is rotated every
    le_rpa_timeout seconds (0-3 rotations before a connection, and again between connections). A device with privacy is
    connected to through its RANDOM own address, or connects with it, to a device with or without privacy: both ends
    must report the connection with matching addresses (the central's own address is the acceptor's peer address and
    the other way round), data goes to the peer only, a disconnection is reported to both."""
    from bumble import hci, core
    from bumble.device import DeviceConfiguration
    from vlib import rig as vrig
    rng = random.Random(case['seed'] ^ 0x4BA)
    vrig.seed_entropy(case['seed'])
    ext = [rng.random() < 0.4 for _ in range(3)]
    timeout = rng.choice([2, 15, 60])
    privacy = [True, rng.random() < 0.5, rng.random() < 0.3]
    rng.shuffle(privacy)
    configs = []
    for i in range(3):
        cfg = DeviceConfiguration()
        cfg.name = f'dev{i}'
        cfg.address = hci.Address(':'.join([f'{0xE0 + i:02X}'] * 6), hci.Address.RANDOM_DEVICE_ADDRESS)
        cfg.le_privacy_enabled = privacy[i]
        cfg.le_rpa_timeout = timeout
        cfg.irk = bytes([0x50 + i]) * 16
        configs.append(cfg)
    rg = vrig.Rig(3, seed=case['seed'], max_delay=rng.choice([0, 0, 1, 3]), configs=configs)
    for i, e in enumerate(ext):
        if e:
            rg.controllers[i].le_features = rg.controllers[i].le_features | hci.LeFeatureMask.LE_EXTENDED_ADVERTISING
    await rg.power_on()
    ev = Events(rg)
    r.ev('rpa_cases')
    hist = []
    counter = [0]

    def ctx():
        return f'privacy={privacy} rpa timeout={timeout}s ext={ext}; history {hist}'

    async def idle(rotations):
        """Virtual time passes with nothing going on: the RPAs rotate."""
        before = [on_air_random_address(rg, i)[1] for i in range(3)]
        await rg.quiesce()
        if rotations:
            await asyncio.sleep(timeout * rotations + rng.choice([0.1, 0.5 * timeout]))
            await rg.quiesce()
        seen = [on_air_random_address(rg, i)[1] - before[i] for i in range(3)]
        r.ev('rpa_rotations_seen', sum(seen))
        hist.append(f'idle-{rotations}-periods')
        return seen

    async def connect(ci, pi):
        air_c, n_c = on_air_random_address(rg, ci)
        air_p, n_p = on_air_random_address(rg, pi)
        rot = 'rotated' if (privacy[ci] and n_c > 1) or (privacy[pi] and n_p > 1) else 'not-rotated'
        label = f'central-{"rpa" if privacy[ci] else "static"}/peripheral-{"rpa" if privacy[pi] else "static"}/{rot}'
        before = len(ev.conn[pi])
        P, C = rg.devices[pi], rg.devices[ci]
        mark = len(rg.hci_log)
        await vloop.vwait(P.start_advertising(auto_restart=False, own_address_type=hci.OwnAddressType.RANDOM,
                                              advertising_interval_min=40, advertising_interval_max=40))
        # the address the peripheral is reachable at is what its controller was told (a central would learn it by
        # scanning): the controller's random address, or the random address of the advertising set made for this
        for rec in rg.hci_log[mark:]:
            if rec[1] == pi and rec[2] == 'h2c' and rec[3][:4] == b'\x01\x35\x20\x07' and len(rec[3]) == 11:
                air_p = hci.Address(bytes(rec[3][5:11]), hci.Address.RANDOM_DEVICE_ADDRESS)
                r.ev('rpa_peripheral_address_from_advertising_set')
        try:
            cc = await vloop.vwait(C.connect(air_p, own_address_type=hci.OwnAddressType.RANDOM, timeout=20))
        except (core.TimeoutError, asyncio.TimeoutError, core.ConnectionError) as e:
            r.bad(f'connect/failed/rpa/{label}', f'connect({air_p}) raised {type(e).__name__}: {e}; {ctx()}')
            return None
        await rg.quiesce()
        new = ev.conn[pi][before:]
        r.ev('oracle_evals')
        if len(new) != 1:
            r.bad(f'connect/peer-events/rpa/{label}', f'device {pi} got {len(new)} connection events; {ctx()}')
            return None
        pc = new[0]
        hist.append(f'connected/{ci}->{pi}/{label}')
        r.ev('rpa_connections')
        if rot == 'rotated':
            r.ev('rpa_connections_after_rotation')
            if privacy[ci] and n_c > 1:
                r.ev('rpa_connections_after_rotation_of_central')
            if privacy[pi] and n_p > 1:
                r.ev('rpa_connections_after_rotation_of_peripheral')
        # both ends report the connection with matching addresses
        r.ev('connections_checked')
        r.ev('oracle_evals', 4)
        ok = True
        for what, got, want, wname in (
                ("the central's self_address", cc.self_address, pc.peer_address, "the peripheral's peer_address"),
                ("the peripheral's self_address", pc.self_address, cc.peer_address, "the central's peer_address"),
                ("the central's self_address", cc.self_address, air_c, 'the random address its controller was given'),
                ("the peripheral's self_address", pc.self_address, air_p, 'the random address it advertised with')):
            if got != want:
                ok = False
                who = 'central' if 'central\'s self' in what else 'peripheral'
                r.bad(f'connect/address-mismatch/rpa/{who}-self-address/{label}',
                      f'{what} is {got!r} but {wname} is {want!r} (device {ci if who == "central" else pi} was given '
                      f'{n_c if who == "central" else n_p} random addresses so far; its Device.random_address is '
                      f'{(C if who == "central" else P).random_address!r}); {ctx()}')
                break
        if not ok:
            return None
        return cc, pc, label

    async def exchange(ci, pi, cc, pc, label):
        marks = {i: len(ev.rx[i]) for i in range(3)}
        want = {i: [] for i in range(3)}
        for (s_, d_, cs, cd) in ((ci, pi, cc, pc), (pi, ci, pc, cc)):
            for _ in range(rng.randint(1, 4)):
                counter[0] += 1
                p_ = bytes([0xA9, s_, d_]) + counter[0].to_bytes(3, 'little') + bytes(rng.choice([0, 10, 60]))
                rg.devices[s_].send_l2cap_pdu(cs.handle, CID, p_)
                want[d_].append((cd.handle, p_))
        await rg.quiesce()
        ok = True
        for i in range(3):
            have = ev.rx[i][marks[i]:]
            r.ev('payloads_checked', len(want[i]))
            r.ev('oracle_evals')
            if have != want[i]:
                ok = False
                r.bad(f'data/wrong/rpa/{label}', f'device {i} received {len(have)} PDUs, expected {len(want[i])}; {ctx()}')
        return ok

    try:
        for rnd in range(rng.choice([1, 2, 2, 3])):
            await idle(rng.choice([0, 1, 1, 2, 3]))
            cands = [(a, b) for a in range(3) for b in range(3) if a != b and (privacy[a] or privacy[b])]
            ci, pi = rng.choice(cands)
            got = await connect(ci, pi)
            if got is None:
                return
            cc, pc, label = got
            if not await exchange(ci, pi, cc, pc, label):
                return
            if rng.random() < 0.4:
                # time passes while connected (the central is idle and may rotate; the connection keeps its addresses)
                await idle(1)
                if not await exchange(ci, pi, cc, pc, label):
                    return
            da, db = len(ev.disc[ci]), len(ev.disc[pi])
            await vloop.vwait(rng.choice([cc, pc]).disconnect())
            await rg.quiesce()
            r.ev('disconnections_checked')
            r.ev('oracle_evals')
            if [h for h, _ in ev.disc[ci][da:]] != [cc.handle] or [h for h, _ in ev.disc[pi][db:]] != [pc.handle]:
                r.bad(f'disconnect/not-reported-to-both/rpa/{label}', f'{ev.disc[ci][da:]} / {ev.disc[pi][db:]}; {ctx()}')
                return
            hist.append('disconnected')
        r.ev('rpa_cases_completed')
    except vloop.Hang:
        r.bad('rpa/hang', f'a call was still pending at T_v; {ctx()}')
    except (hci.HCI_Error, core.InvalidStateError) as e:
        r.bad(f'rpa/call-failed/{type(e).__name__}', f'{type(e).__name__}: {e}; {ctx()}')
    finally:
        for d in rg.devices:
            if d.le_rpa_periodic_update_task:
                d.le_rpa_periodic_update_task.cancel()
    for where, e in rg.exceptions:
        r.bad('link/exception-in-stack', f'{where}: {e}; rpa {ctx()}')
    r.sig('rpa', tuple(ext), tuple(privacy), timeout, tuple(hist))
    r.sched.add(rg.schedule_signature)
    r.evals()
    r.sample = {'kind': 'rpa', 'privacy': privacy, 'rpa_timeout': timeout, 'history': hist}


def auto_restart_armed(hist):
    """Auto-restart belongs to the advertising that was running when the incoming connection was accepted; a
    stop_advertising() / start_advertising() made while that connection is up is the host's newer word."""
    i = len(hist) - 1 - hist[::-1].index('incoming-connected')
    return not any(h in ('stop_advertising', 'start_advertising') for h in hist[i + 1:])


def run_case(case, r: R):
    return {'mesh': mesh, 'steal': steal, 'scan': scan, 'churn': churn, 'parallel': parallel,
            'fragadv': fragadv, 'ghost': ghost, 'advsets': advsets, 'dual': dual, 'pending': pending,
            'recon': recon, 'both': both, 'rpa': rpa}[case['kind']](case, r)


LEVEL_TEXT = ('Relations over connection/disconnection/advertisement events and a per-device fixed channel on 2-5 '
              'device rigs: right peer and role, mirrored addresses, live distinct handles, exactly-once in-order '
              'delivery to the peer only, disconnection reported to both, advertising and scan-response data byte '
              'for byte; devices that advertise and initiate at once (advertising state on the air and in the Device vs '
              'a ledger), with an outgoing connect() still pending while they are connected to, and new connections after a '
              'bulk transfer was cut by a disconnection, and the same two devices connected over LE and BR/EDR at once; ~260 (quick) / ~5200 (thorough) generated topologies over every mix of public/random own '
              'addresses, legacy/extended advertising, LE and BR/EDR. Sampling, not proof.')
LEVEL_NOTE = 'Trusted: rig taps/inboxes (LocalLink routing itself is real), the event bookkeeping in checks/c06.py, virtual-time loop.'
TECHNIQUE = 'runtime monitoring: event-log relation checker over multi-device executions with unique payload ids'
