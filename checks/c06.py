"""C06 — the virtual link connects the right peers and delivers only between them.

Monitor: event-log relations over `connection` / `disconnection` / `advertisement`
events of 2-5 devices and a test fixed channel registered on every device.
Workloads
  mesh    random graphs of LE / BR/EDR connections among 2-5 devices with every mix of
          public/random own addresses and legacy/extended advertising, unique payloads in
          both directions on every connection, disconnects by either side
  steal   a device that is being connected to (as peripheral) while its own outgoing
          connect to an absent peer is pending
  scan    active and passive scanners, advertisers with distinct advertising and
          scan-response payloads
"""
from __future__ import annotations

import asyncio
import random

from vlib import vloop
from vlib.result import R

ID = 'C06'
LEVEL = 'exploration'
RULE = ('seeded scenarios; mesh: non-trivial when >= 3 devices or a public own-address or extended advertising is '
        'involved; distinct = distinct (address types, advertising kinds, connection graph, disconnect order). '
        'scan: one per (scanner modes, advertiser kinds, payload lengths)')
ASSUMPTIONS = [
    'a connect() to an address nobody advertises legitimately pends; only "no foreign connection is handed over" '
    'and "the timeout concludes it" are demanded there',
    'advertisement events may repeat; the clause is on the data of each event, and on at least one event per '
    'advertiser reaching each scanner',
]
MIN_EVENTS = {
    'quick': {'connections_checked': 300, 'payloads_checked': 1400, 'disconnections_checked': 200,
              'adv_events_checked': 300, 'steal_cases': 30},
    'thorough': {'connections_checked': 5000, 'payloads_checked': 22000, 'disconnections_checked': 4000,
                 'adv_events_checked': 6000, 'steal_cases': 600},
}
CASE_TIMEOUT = 300
CID = 0x0074


def plan(tier, seed):
    cases = []
    for i in range(240 if tier == 'quick' else 3200):
        cases.append({'kind': 'mesh', 'seed': seed * 1000003 + i})
    for i in range(40 if tier == 'quick' else 800):
        cases.append({'kind': 'steal', 'seed': seed * 1000003 + i})
    for i in range(60 if tier == 'quick' else 1200):
        cases.append({'kind': 'scan', 'seed': seed * 1000003 + i})
    return cases


def make_rig(rng, case, n, extended_flags, classic=False, delay=None):
    from bumble import hci
    from vlib import rig as vrig
    rg = vrig.Rig(n, seed=case['seed'], max_delay=rng.choice([0, 0, 1, 3]) if delay is None else delay, classic=classic,
                  collide_addresses=rng.random() < 0.4)
    for i, ext in enumerate(extended_flags):
        if ext:
            rg.controllers[i].le_features = rg.controllers[i].le_features | hci.LeFeatureMask.LE_EXTENDED_ADVERTISING
    return rg


class Events:
    def __init__(self, rg):
        self.rg = rg
        self.conn = {i: [] for i in range(rg.n)}       # connection objects per device
        self.disc = {i: [] for i in range(rg.n)}       # (handle, reason)
        self.rx = {i: [] for i in range(rg.n)}         # (handle, payload)
        for i, d in enumerate(rg.devices):
            d.on('connection', lambda c, _i=i: self._on_conn(_i, c))
            d.l2cap_channel_manager.register_fixed_channel(
                CID, lambda h, pdu, _i=i: self.rx[_i].append((h, bytes(pdu))))

    def _on_conn(self, i, c):
        self.conn[i].append(c)
        c.on('disconnection', lambda reason, _i=i, _c=c: self.disc[_i].append((_c.handle, reason)))


async def mesh(case, r: R):
    from bumble import hci
    from bumble.core import PhysicalTransport
    from vlib import rig as vrig
    rng = random.Random(case['seed'])
    vrig.seed_entropy(case['seed'])
    n = rng.choice([2, 3, 3, 4, 5])
    ext = [rng.random() < 0.4 for _ in range(n)]
    classic_on = rng.random() < 0.35
    rg = make_rig(rng, case, n, ext, classic=classic_on)
    await rg.power_on()
    ev = Events(rg)
    adv_addr_type = [rng.choice(['random', 'random', 'public']) for _ in range(n)]
    init_addr_type = [rng.choice(['random', 'random', 'public']) for _ in range(n)]
    # candidate edges
    edges = []
    pairs = [(a, b) for a in range(n) for b in range(n) if a != b]
    rng.shuffle(pairs)
    used = set()
    for a, b in pairs:
        if len(edges) >= rng.randint(1, 4):
            break
        if (a, b) in used or (b, a) in used:
            continue
        tr = 'bredr' if classic_on and rng.random() < 0.4 else 'le'
        used.add((a, b))
        edges.append((a, b, tr))
    # bystanders that also advertise at the time of a connect
    live = []   # (a, b, tr, conn_a, conn_b)
    desc = []
    for (a, b, tr) in edges:
        A, B = rg.devices[a], rg.devices[b]
        before = {i: len(ev.conn[i]) for i in range(n)}
        try:
            if tr == 'le':
                own = hci.OwnAddressType.PUBLIC if adv_addr_type[b] == 'public' else hci.OwnAddressType.RANDOM
                bystanders = [i for i in range(n) if i not in (a, b) and rng.random() < 0.5
                              and not any(i in (x, y) and t == 'le' for (x, y, t, *_r) in live)]
                for i in bystanders:
                    await vloop.vwait(rg.devices[i].start_advertising(auto_restart=False))
                await vloop.vwait(B.start_advertising(auto_restart=False, own_address_type=own))
                target = B.public_address if adv_addr_type[b] == 'public' else B.random_address
                iown = hci.OwnAddressType.PUBLIC if init_addr_type[a] == 'public' else hci.OwnAddressType.RANDOM
                ca = await vloop.vwait(A.connect(target, own_address_type=iown, timeout=20))
                want_self = A.public_address if init_addr_type[a] == 'public' else A.random_address
                for i in bystanders:
                    await vloop.vwait(rg.devices[i].stop_advertising())
            else:
                target = B.public_address
                ca = await vloop.vwait(A.connect(target, transport=PhysicalTransport.BR_EDR, timeout=20))
                want_self = A.public_address
                bystanders = []
        except vloop.Hang:
            r.bad(f'connect/hang/{tr}', f'connect pending at T_v: {a}->{b} adv={adv_addr_type[b]} init={init_addr_type[a]} ext={ext}')
            return
        except Exception as e:
            r.bad(f'connect/failed/{tr}/adv-{adv_addr_type[b]}/init-{init_addr_type[a]}',
                  f'connect {a}->{b} raised {type(e).__name__}: {e}; ext={ext}')
            return
        await rg.quiesce()
        r.ev('connections_checked')
        kind = f'{tr}/adv-{adv_addr_type[b] if tr == "le" else "public"}/init-{init_addr_type[a] if tr == "le" else "public"}'
        desc.append((a, b, kind, tuple(bystanders)))
        r.ev('oracle_evals', 5)
        # caller got the right connection
        if bytes(ca.peer_address) != bytes(target) or ca.role != hci.Role.CENTRAL:
            r.bad(f'connect/wrong-connection-returned/{kind}',
                  f'connect({target}) returned {ca}')
        new_b = ev.conn[b][before[b]:]
        if len(new_b) != 1:
            r.bad(f'connect/peer-events/{kind}', f'device {b} got {len(new_b)} connection events for one connect')
            return
        cb = new_b[0]
        if cb.role != hci.Role.PERIPHERAL:
            r.bad(f'connect/peer-role/{kind}', f'acceptor sees role {cb.role}')
        # nobody else got a connection
        for i in range(n):
            extra = ev.conn[i][before[i]:]
            if i not in (a, b) and extra:
                r.bad(f'connect/third-party-connection/{kind}', f'device {i} got {extra} while {a} connected to {b}')
        # mirrored addresses
        if bytes(cb.peer_address) != bytes(want_self) or cb.peer_address.address_type != want_self.address_type:
            r.bad(f'connect/address-mismatch/{kind}',
                  f"acceptor sees peer {cb.peer_address}/{cb.peer_address.address_type}, initiator's own address is "
                  f'{want_self}/{want_self.address_type}')
        if bytes(ca.peer_address) != bytes(cb.self_address) and tr == 'le':
            r.bad(f'connect/address-mismatch/{kind}', f'initiator sees peer {ca.peer_address}, acceptor self {cb.self_address}')
        # handles live and distinct per device
        for dev, c in ((a, ca), (b, cb)):
            hs = [x.handle for x in rg.devices[dev].connections.values()]
            if len(set(hs)) != len(hs) or c.handle not in hs or rg.controllers[dev].find_connection_by_handle(c.handle) is None:
                r.bad(f'connect/handles/{kind}', f'device {dev}: handles {hs}, new {c.handle:#x}')
        live.append((a, b, tr, ca, cb, kind))

    # ---- data: unique payloads on every connection, both directions -------------
    sent = []   # (src dev, dst dev, dst handle, payload)
    for rnd in range(rng.randint(1, 4)):
        order = list(live)
        rng.shuffle(order)
        for (a, b, tr, ca, cb, kind) in order:
            for (s, d, cs, cd) in ((a, b, ca, cb), (b, a, cb, ca)):
                p = bytes([s, d, len(sent) & 0xFF, len(sent) >> 8]) + bytes(rng.randint(0, 60))
                rg.devices[s].send_l2cap_pdu(cs.handle, CID, p)
                sent.append((s, d, cd.handle, p, kind))
                if rng.random() < 0.3:
                    await asyncio.sleep(0)
    await rg.quiesce()
    for dev in range(n):
        want = [(h, p) for (s, d, h, p, k) in sent if d == dev]
        got = ev.rx[dev]
        r.ev('payloads_checked', len(want))
        r.ev('oracle_evals')
        if got != want:
            # classify
            wp = [p for _h, p in want]
            gp = [p for _h, p in got]
            lost = [x for x in sent if x[1] == dev and x[3] not in gp]
            if lost:
                k = lost[0][4]
                src = lost[0][0]
                r.bad(f'data/lost/{k}',
                      f'device {dev} never received {len(lost)} of {len(want)} PDUs (first from device {src}); graph={desc}')
            elif len(gp) > len(wp):
                foreign = [p for p in gp if p not in wp]
                r.bad('data/misdelivered' if foreign else 'data/duplicated',
                      f'device {dev} received {len(gp)} PDUs, expected {len(wp)}; foreign={len(foreign)}; graph={desc}')
            elif sorted(gp) == sorted(wp):
                # per-connection order
                for h in {h for h, _ in want}:
                    if [p for hh, p in got if hh == h] != [p for hh, p in want if hh == h]:
                        r.bad('data/reordered', f'device {dev} handle {h:#x} out of order; graph={desc}')
                        break
                else:
                    if [h for h, _ in got if True] and any(gh != wh for (gh, gp_), (wh, wp_) in zip(sorted(got, key=lambda x: x[1]), sorted(want, key=lambda x: x[1]))):
                        r.bad('data/wrong-handle', f'device {dev}: payload attributed to another connection; graph={desc}')
            else:
                r.bad('data/corrupt', f'device {dev}: received set differs; graph={desc}')

    # ---- disconnect by either side ---------------------------------------------
    rng.shuffle(live)
    for (a, b, tr, ca, cb, kind) in live:
        who = rng.choice(['initiator', 'acceptor'])
        c = ca if who == 'initiator' else cb
        da, db = len(ev.disc[a]), len(ev.disc[b])
        try:
            await vloop.vwait(c.disconnect())
        except vloop.Hang:
            r.bad(f'disconnect/hang/{kind}/by-{who}', f'disconnect() pending at T_v; graph={desc}')
            continue
        except Exception as e:
            r.bad(f'disconnect/raised/{kind}/by-{who}', f'{type(e).__name__}: {e}')
            continue
        await rg.quiesce()
        r.ev('disconnections_checked')
        r.ev('oracle_evals', 2)
        na, nb = ev.disc[a][da:], ev.disc[b][db:]
        if [h for h, _ in na] != [ca.handle] or [h for h, _ in nb] != [cb.handle]:
            r.bad(f'disconnect/not-reported-to-both/{kind}/by-{who}',
                  f'initiator side events {na}, acceptor side events {nb}; graph={desc}')
        for dev, cc in ((a, ca), (b, cb)):
            if cc.handle in rg.hosts[dev].connections or rg.controllers[dev].find_connection_by_handle(cc.handle):
                r.bad(f'disconnect/stale-connection/{kind}/by-{who}', f'device {dev} still has handle {cc.handle:#x}')
    for where, e in rg.exceptions:
        r.bad('link/exception-in-stack', f'{where}: {e}; graph={desc}')
    if n >= 3 or 'public' in adv_addr_type + init_addr_type or any(ext):
        r.sig('mesh', tuple(ext), tuple(desc))
    r.sched.add(rg.schedule_signature)
    r.evals()
    r.sample = {'kind': 'mesh', 'devices': n, 'extended_adv': ext, 'connections': [(a, b, k) for a, b, k, _ in desc],
                'payloads': len(sent)}


async def steal(case, r: R):
    """X advertises and at the same time tries to connect to an absent peer; A connects to X."""
    from bumble import hci
    from bumble import core
    from vlib import rig as vrig
    rng = random.Random(case['seed'])
    vrig.seed_entropy(case['seed'])
    ext = [rng.random() < 0.4 for _ in range(3)]
    rg = make_rig(rng, case, 3, ext)
    await rg.power_on()
    ev = Events(rg)
    A, X = rg.devices[0], rg.devices[1]
    absent = hci.Address('C9:C9:C9:C9:C9:C9', hci.Address.RANDOM_DEVICE_ADDRESS)
    await vloop.vwait(X.start_advertising(auto_restart=False))
    out = asyncio.ensure_future(X.connect(absent, timeout=rng.choice([5, 30])))
    for _ in range(rng.randint(1, 30)):
        await asyncio.sleep(0)
    try:
        ca = await vloop.vwait(A.connect(X.random_address, timeout=20))
    except Exception as e:
        r.bad('steal/incoming-connect-failed', f'{type(e).__name__}: {e}')
        out.cancel()
        return
    await rg.quiesce()
    r.ev('steal_cases')
    result = None
    try:
        result = await vloop.vwait(out)
        r.ev('oracle_evals')
        r.bad('steal/outgoing-connect-handed-incoming-connection',
              f'connect({absent}) returned {result} (role {result.role}) — the connection made by another device')
    except vloop.Hang:
        r.bad('steal/outgoing-connect-hang', 'connect(absent, timeout=..) still pending at T_v: the timeout/cancel never concluded it')
    except (core.TimeoutError, asyncio.TimeoutError, core.ConnectionError):
        r.ev('steal_outgoing_timed_out')
    except asyncio.CancelledError:
        r.ev('steal_outgoing_cancelled')
    except Exception as e:
        r.ev('steal_outgoing_other_error')
        r.add_extra_list('steal_errors', f'{type(e).__name__}: {e}')
    # the incoming connection must be intact on X
    r.ev('oracle_evals')
    if not any(bytes(c.peer_address) == bytes(A.random_address) for c in X.connections.values()):
        r.bad('steal/incoming-connection-lost', 'X no longer has the connection from A')
    r.sig('steal', tuple(ext))
    r.evals()
    r.sample = {'kind': 'steal', 'extended_adv': ext}


async def scan(case, r: R):
    from bumble import hci
    from vlib import rig as vrig
    rng = random.Random(case['seed'])
    vrig.seed_entropy(case['seed'])
    n = rng.choice([2, 3, 4])
    ext = [rng.random() < 0.5 for _ in range(n)]
    rg = make_rig(rng, case, n, ext, delay=rng.choice([0, 2]))
    await rg.power_on()
    roles = ['scanner'] + [rng.choice(['advertiser', 'advertiser', 'scanner']) for _ in range(n - 1)]
    if 'advertiser' not in roles:
        roles[-1] = 'advertiser'
    advs = {}
    seen = {i: [] for i in range(n)}
    active = {}
    for i, role in enumerate(roles):
        d = rg.devices[i]
        if role == 'advertiser':
            maxlen = 31
            adv = bytes([min(maxlen - 1, ln) + 1, 0xFF]) + bytes([i] * min(maxlen - 2, ln)) if (ln := rng.choice([0, 1, 10, 29])) else b''
            ln2 = rng.choice([0, 3, 29])
            rsp = (bytes([ln2 + 1, 0x09]) + bytes([0x40 + i] * ln2)) if ln2 else b''
            advs[i] = (adv, rsp)
            await vloop.vwait(d.start_advertising(auto_restart=False, advertising_data=adv, scan_response_data=rsp,
                                                  advertising_interval_min=100, advertising_interval_max=100))
        else:
            active[i] = rng.random() < 0.5
            d.on('advertisement', lambda a, _i=i: seen[_i].append(a))
            await vloop.vwait(d.start_scanning(active=active[i], legacy=rng.random() < 0.3))
    # let a few advertising intervals pass
    await asyncio.sleep(1.0)
    await rg.quiesce()
    by_addr = {bytes(rg.devices[i].random_address): i for i in advs}
    for s, mode in active.items():
        per = {}
        for a in seen[s]:
            idx = by_addr.get(bytes(a.address))
            r.ev('adv_events_checked')
            r.ev('oracle_evals')
            if idx is None:
                r.bad('scan/unknown-advertiser', f'scanner {s} got an advertisement from {a.address}, nobody advertises it')
                continue
            adv, rsp = advs[idx]
            k = 'active' if mode else 'passive'
            e = 'extended' if ext[s] else 'legacy'
            if a.is_scan_response:
                per.setdefault(idx, set()).add('rsp')
                if not mode:
                    r.bad(f'scan/scan-response-to-passive-scanner/{e}', f'passive scanner {s} got a scan response from {idx}')
                elif bytes(a.data_bytes) != rsp:
                    r.bad(f'scan/scan-response-data-wrong/{e}',
                          f'scanner {s}: scan response carries {bytes(a.data_bytes).hex()} but advertiser {idx} set '
                          f'{rsp.hex()} (its advertising data is {adv.hex()})')
            else:
                per.setdefault(idx, set()).add('adv')
                if bytes(a.data_bytes) != adv:
                    r.bad(f'scan/adv-data-wrong/{e}', f'scanner {s}: advertisement carries {bytes(a.data_bytes).hex()}, '
                                                       f'advertiser {idx} set {adv.hex()}')
        for idx in advs:
            r.ev('oracle_evals')
            # (an active scanner's Device reports a scannable advertisement and its scan
            # response as ONE event flagged is_scan_response, so either kind counts as seen)
            if not per.get(idx):
                r.bad(f'scan/advertiser-not-seen/{"extended" if ext[s] else "legacy"}-scanner',
                      f'scanner {s} ({"active" if mode else "passive"}) never saw advertiser {idx}')
            elif mode and 'rsp' not in per.get(idx, ()):
                r.bad('scan/no-scan-response-to-active-scanner', f'active scanner {s} never got the scan response of {idx}')
    r.sig('scan', tuple(roles), tuple(ext), tuple(sorted(active.items())), tuple((len(a), len(b)) for a, b in advs.values()))
    r.evals()
    r.sample = {'kind': 'scan', 'roles': roles, 'extended': ext, 'active': active,
                'payload_lengths': {i: (len(a), len(b)) for i, (a, b) in advs.items()}}


def run_case(case, r: R):
    return {'mesh': mesh, 'steal': steal, 'scan': scan}[case['kind']](case, r)


LEVEL_TEXT = ('Relations over connection/disconnection/advertisement events and a per-device fixed channel on 2-5 '
              'device rigs: right peer and role, mirrored addresses, live distinct handles, exactly-once in-order '
              'delivery to the peer only, disconnection reported to both, advertising and scan-response data byte '
              'for byte; ~260 (quick) / ~5200 (thorough) generated topologies over every mix of public/random own '
              'addresses, legacy/extended advertising, LE and BR/EDR. Sampling, not proof.')
LEVEL_NOTE = 'Trusted: rig taps/inboxes (LocalLink routing itself is real), the event bookkeeping in checks/c06.py, virtual-time loop.'
TECHNIQUE = 'runtime monitoring: event-log relation checker over multi-device executions with unique payload ids'
